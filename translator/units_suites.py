"""C20 translation unit: coq/Gen/Suites.v, regenerated from $VERIF_REPO on every run.

Not an ast translation: the cipher-suite data of tlslite-ng is a set of class-body
tables plus small classification functions with a finite domain (the suite ids the
library knows x the five protocol versions).  The unit imports tlslite.constants from
the tree under test and emits
  * every CipherSuite.*Suites list and ietfNames as Gallina literals;
  * for every known suite id the value of the real classification functions
    (RecordLayer._getCipherSettings, _getMacSettings, canonicalCipherName,
    canonicalMacName, TLSConnection._getPRFParams, the PRF chosen by mathtls.calc_key,
    the hash of RecordLayer.calcTLS1_3PendingState) obtained by CALLING them;
  * for every suite x version the verdict of filterForVersion and of the get*Suites
    filters combined exactly as tlsconnection.py combines them (server side: which
    suites a server with SRP / certificate / anonymous credentials may select; client
    side: which ServerHello suites a client accepts), under all-permissive settings;
  * for every single cipherNames / macNames / keyExchangeNames word x version the set of
    suites _filterSuites admits.
Anything that raises where a value is expected is emitted as None (the theorems then
fail), anything structural that is missing raises Refuse (tie broken).
"""
import ast
import importlib
import os
import sys

sys.path.insert(0, os.path.dirname(os.path.abspath(__file__)))
from pylite import Refuse  # noqa: E402

REPO = os.path.realpath(os.environ.get('VERIF_REPO', '/repo'))
VERSIONS = [(3, 0), (3, 1), (3, 2), (3, 3), (3, 4)]
GETTERS = ['getTLS13Suites', 'getSrpSuites', 'getSrpCertSuites', 'getSrpAllSuites', 'getCertSuites',
           'getDheCertSuites', 'getEcdheCertSuites', 'getEcdsaSuites', 'getDheDsaSuites', 'getAnonSuites',
           'getEcdhAnonSuites']


def zl(xs):
    return '[' + '; '.join(str(int(x)) for x in xs) + ']'


def sl(s):
    return '"' + s.replace('"', '""') + '"'


def osl(s):
    return 'None' if s is None else '(Some %s)' % sl(s)


def load():
    """import tlslite from the tree under test (fail closed when another copy is on the path)"""
    for k in [k for k in sys.modules if k == 'tlslite' or k.startswith('tlslite.')]:
        f = getattr(sys.modules[k], '__file__', None) or ''
        if f and not os.path.realpath(f).startswith(REPO + os.sep):
            raise Refuse('tlslite already imported from %s, not from %s' % (f, REPO))
    if REPO not in sys.path:
        sys.path.insert(0, REPO)
    try:
        constants = importlib.import_module('tlslite.constants')
        recordlayer = importlib.import_module('tlslite.recordlayer')
        mathtls = importlib.import_module('tlslite.mathtls')
        tlsconnection = importlib.import_module('tlslite.tlsconnection')
        hs = importlib.import_module('tlslite.handshakesettings')
    except Exception as e:  # noqa
        raise Refuse('cannot import tlslite from %s: %r' % (REPO, e))
    if not os.path.realpath(constants.__file__).startswith(REPO + os.sep):
        raise Refuse('tlslite.constants resolved to %s' % constants.__file__)
    return constants, recordlayer, mathtls, tlsconnection, hs


def permissive(hs, **kw):
    s = hs.HandshakeSettings()
    s.cipherNames = list(hs.ALL_CIPHER_NAMES)
    s.macNames = list(hs.ALL_MAC_NAMES)
    s.keyExchangeNames = list(hs.KEY_EXCHANGE_NAMES)
    s.minVersion, s.maxVersion = (3, 0), (3, 4)
    for k, v in kw.items():
        setattr(s, k, v)
    return s


def safe(f, *a, **kw):
    try:
        return ('ok', f(*a, **kw))
    except Exception as e:  # noqa
        return ('exc', type(e).__name__)


# how tlsconnection.py composes the candidate lists: read from the ast, then executed here
def _composition(fname):
    """[(path, getter, n_args)] for every `cipherSuites += CipherSuite.getX(...)` of TLSConnection.<fname>, where
    path = the enclosing if-conditions (ast nodes, negated flag); plus the final filterForVersion flag"""
    path = os.path.join(REPO, 'tlslite', 'tlsconnection.py')
    with open(path) as f:
        tree = ast.parse(f.read())
    cls = [n for n in tree.body if isinstance(n, ast.ClassDef) and n.name == 'TLSConnection']
    fd = [n for n in (cls[0].body if cls else []) if isinstance(n, ast.FunctionDef) and n.name == fname]
    if len(fd) != 1:
        raise Refuse('TLSConnection.%s not found' % fname)
    steps, assigns = [], []

    def walk(stmts, conds):
        for st in stmts:
            if isinstance(st, ast.AugAssign) and isinstance(st.target, ast.Name) and st.target.id == 'cipherSuites':
                v = st.value
                if not (isinstance(st.op, ast.Add) and isinstance(v, ast.Call) and isinstance(v.func, ast.Attribute)
                        and isinstance(v.func.value, ast.Name) and v.func.value.id == 'CipherSuite'
                        and v.func.attr.startswith('get') and not v.keywords
                        and [ast.unparse(a) for a in v.args] in (['settings'], ['settings', 'version'])):
                    raise Refuse('%s: unexpected update of cipherSuites at line %d' % (fname, st.lineno))
                steps.append((conds, v.func.attr, len(v.args)))
            elif isinstance(st, ast.Assign) and any(isinstance(t, ast.Name) and t.id == 'cipherSuites' for t in st.targets):
                assigns.append((conds, ast.unparse(st.value)))
            if isinstance(st, ast.If):
                walk(st.body, conds + ((st.test, False),))
                walk(st.orelse, conds + ((st.test, True),))
            elif isinstance(st, (ast.For, ast.While, ast.With, ast.Try)):
                for fld in ('body', 'orelse', 'finalbody'):
                    walk(getattr(st, fld, None) or [], conds)
                for h in getattr(st, 'handlers', []):
                    walk(h.body, conds)
    walk(fd[0].body, ())
    return steps, assigns


def _truth(e, env):
    if isinstance(e, ast.BoolOp):
        vals = [_truth(v, env) for v in e.values]
        return any(vals) if isinstance(e.op, ast.Or) else all(vals)
    if isinstance(e, ast.UnaryOp) and isinstance(e.op, ast.Not):
        return not _truth(e.operand, env)
    k = ast.unparse(e)
    if isinstance(e, (ast.Name, ast.Attribute)) and k in env:
        return env[k]
    raise Refuse('candidate-list condition %r is not one of the known scenario flags' % k)


def _run_composition(CS, steps, env, settings, version):
    out = []
    for conds, getter, nargs in steps:
        if all(_truth(c, env) != neg for c, neg in conds):
            f = getattr(CS, getter, None)
            if not callable(f):
                raise Refuse('CipherSuite.%s missing' % getter)
            out += f(settings, version) if nargs == 2 else f(settings)
    return out


SERVER_ENVS = {
    'srp': dict(verifierDB=True, cert_chain=False, anon=False),
    'srp+cert': dict(verifierDB=True, cert_chain=True, anon=False),
    'cert': dict(verifierDB=False, cert_chain=True, anon=False),
    'anon': dict(verifierDB=False, cert_chain=False, anon=True),
    'psk': dict(verifierDB=False, cert_chain=False, anon=False),
}
CLIENT_ENVS = {
    'srp': dict(srpParams=True, certParams=False, anonParams=False),
    'cert': dict(srpParams=False, certParams=True, anonParams=False),
    'anon': dict(srpParams=False, certParams=False, anonParams=True),
}


def _final_filter_args(assigns):
    """the closing `cipherSuites = CipherSuite.filterForVersion(cipherSuites, minVersion=E1, maxVersion=E2)` of
    _serverGetClientHello: returns (E1, E2) as source text; E in {'version', 'self.version'} (anything else: Refuse)"""
    if len(assigns) != 2 or tuple(assigns[0][0]) != () or assigns[0][1] != '[]' or tuple(assigns[1][0]) != ():
        raise Refuse('_serverGetClientHello assigns cipherSuites in an unexpected way: %r' % [v for _, v in assigns])
    try:
        call = ast.parse(assigns[1][1], mode='eval').body
    except SyntaxError:
        raise Refuse('unparsable final filter')
    if not (isinstance(call, ast.Call) and ast.unparse(call.func) == 'CipherSuite.filterForVersion'
            and len(call.args) == 1 and ast.unparse(call.args[0]) == 'cipherSuites'
            and sorted(k.arg for k in call.keywords) == ['maxVersion', 'minVersion']):
        raise Refuse('_serverGetClientHello closes the candidate list with %r' % assigns[1][1])
    kw = {k.arg: ast.unparse(k.value) for k in call.keywords}
    for v in kw.values():
        if v not in ('version', 'self.version'):
            raise Refuse('filterForVersion argument %r is not version / self.version' % v)
    return kw['minVersion'], kw['maxVersion']


def server_candidates(CS, settings, version, cred, comp):
    """_serverGetClientHello: the suites a server with these credentials may select at `version`
    (client offers everything, all group intersections non-empty).  `self.version` at that point is the
    record-layer version min((3,3), version) the same function has just set."""
    steps, assigns = comp
    e_min, e_max = _final_filter_args(assigns)
    env = dict(SERVER_ENVS[cred])
    env.update({'ecGroupIntersect': True, 'ffGroupIntersect': True, 'settings.pskConfigs': cred == 'psk'})
    out = _run_composition(CS, steps, env, settings, version)
    val = {'version': version, 'self.version': min((3, 3), version)}
    return CS.filterForVersion(out, minVersion=val[e_min], maxVersion=val[e_max])


def client_offer(CS, settings, kind, comp):
    """_clientSendClientHello (the getters are called without a version: settings.maxVersion)"""
    steps, assigns = comp
    if [(tuple(c), v) for c, v in assigns] != [((), '[CipherSuite.TLS_EMPTY_RENEGOTIATION_INFO_SCSV]')]:
        raise Refuse('_clientSendClientHello assigns cipherSuites in an unexpected way: %r' % [v for _, v in assigns])
    return _run_composition(CS, steps, dict(CLIENT_ENVS[kind]), settings, None)


def collect():
    constants, recordlayer, mathtls, tlsconnection, hs = load()
    CS = constants.CipherSuite
    RL = recordlayer.RecordLayer
    d = {}
    lists = sorted(k for k, v in vars(CS).items() if k.endswith('Suites') and isinstance(v, list))
    if not lists or not isinstance(getattr(CS, 'ietfNames', None), dict):
        raise Refuse('CipherSuite has no *Suites lists / ietfNames')
    for g in GETTERS + ['filterForVersion', '_filterSuites', 'canonicalCipherName', 'canonicalMacName']:
        if not callable(getattr(CS, g, None)):
            raise Refuse('CipherSuite.%s missing' % g)
    d['lists'] = {k: [int(x) for x in getattr(CS, k)] for k in lists}
    d['ietf'] = {int(k): str(v) for k, v in CS.ietfNames.items()}
    ids = set(d['ietf'])
    for k in lists:
        ids |= set(d['lists'][k])
    d['all'] = sorted(ids)
    secret, cr, sr = bytearray(range(48)), bytearray(range(32, 64)), bytearray(range(64, 96))

    def prf_kind(ver, sid):
        r = safe(mathtls.calc_key, ver, secret, sid, b"master secret", client_random=cr, server_random=sr,
                 output_length=48)
        if r[0] != 'ok':
            return None
        out = bytes(r[1])
        seed = cr + sr
        ref = {'ssl3': lambda: mathtls.PRF_SSL(secret, seed, 48),
               'md5sha1': lambda: mathtls.PRF(secret, b"master secret", seed, 48),
               'sha256': lambda: mathtls.PRF_1_2(secret, b"master secret", seed, 48),
               'sha384': lambda: mathtls.PRF_1_2_SHA384(secret, b"master secret", seed, 48)}
        hits = [k for k, f in ref.items() if bytes(f()) == out]
        return hits[0] if len(hits) == 1 else None

    def tls13_hash(sid):
        """hash name RecordLayer.calcTLS1_3PendingState hands to HKDF_expand_label"""
        seen = []
        orig = recordlayer.HKDF_expand_label

        def rec(secret_, label, hv, length, algo):
            seen.append(algo)
            return orig(secret_, label, hv, length, algo)
        rl = RL(None)
        rl.version = (3, 4)
        recordlayer.HKDF_expand_label = rec
        try:
            r = safe(rl.calcTLS1_3PendingState, sid, bytearray(48), bytearray(48), ['python'])
        finally:
            recordlayer.HKDF_expand_label = orig
        if r[0] != 'ok' or len(set(seen)) != 1:
            return None
        enc = rl._pendingWriteState.encContext
        return (seen[0], len(getattr(enc, 'key', b'')), getattr(enc, 'name', None),
                int(getattr(enc, 'tagLength', 0)), len(rl._pendingWriteState.fixedNonce))

    import hashlib as _hl
    import hmac as _hm
    import warnings
    session_mod = importlib.import_module('tlslite.session')
    hh_mod = importlib.import_module('tlslite.handshakehashes')

    def hkdf_label(secret_, label, length, hname):
        """RFC 8446 7.1 HKDF-Expand-Label with empty context, stdlib only"""
        full = b"tls13 " + label
        info = bytes([length >> 8, length & 0xff, len(full)]) + full + b"\x00"
        out, block, c = b"", b"", 1
        while len(out) < length:
            block = _hm.new(bytes(secret_), block + info + bytes([c]), getattr(_hl, hname)).digest()
            out += block
            c += 1
        return out[:length]

    def which_hash(secret_, label, value):
        hits = [h for h in ('sha256', 'sha384') if hkdf_label(secret_, label, len(value), h) == bytes(value)]
        return hits[0] if len(hits) == 1 else None

    def key_update(sid):
        """RecordLayer._calcTLS1_3KeyUpdate and the sender/reciever wrappers, hashes identified from the outputs"""
        rl = RL(None)
        rl.version = (3, 4)
        app = bytearray(range(100, 148))
        r = safe(rl._calcTLS1_3KeyUpdate, sid, app)
        if r[0] != 'ok':
            return None
        new, st = r[1]
        enc = st.encContext
        key = getattr(enc, 'key', None)
        if key is None or st.fixedNonce is None:
            return None
        core = (which_hash(app, b"traffic upd", new), len(new), which_hash(new, b"key", key), len(key),
                which_hash(new, b"iv", st.fixedNonce), len(st.fixedNonce), getattr(enc, 'name', None),
                int(getattr(enc, 'tagLength', 0)))
        roles = []
        cl, sr = bytearray(range(1, 49)), bytearray(range(51, 99))
        for fn in ('calcTLS1_3KeyUpdate_sender', 'calcTLS1_3KeyUpdate_reciever'):
            for client in (True, False):
                rl2 = RL(None)
                rl2.version = (3, 4)
                rl2.client = client
                rr = safe(getattr(rl2, fn), sid, cl, sr)
                if rr[0] != 'ok':
                    roles.append(None)
                    continue
                ncl, nsr = rr[1]
                if (ncl == cl) == (nsr == sr):
                    roles.append(None)
                elif ncl != cl:
                    roles.append(which_hash(cl, b"traffic upd", ncl))
                else:
                    roles.append(which_hash(sr, b"traffic upd", nsr))
        return core, roles

    LABELS = [b"key expansion", b"master secret", b"extended master secret", b"client finished", b"server finished"]

    def mk_hh():
        h = hh_mod.HandshakeHashes()
        h.update(bytearray(b"\x01\x00\x00\x04abcd"))
        return h

    def label_kind(ver, sid, label):
        """which PRF (and transcript digest) calc_key applies for this label; (3,0)+EMS is not defined: skipped"""
        n = 12 if label.endswith(b"finished") else 48
        r = safe(mathtls.calc_key, ver, secret, sid, label, handshake_hashes=mk_hh(), client_random=cr,
                 server_random=sr, output_length=n)
        if r[0] != 'ok':
            return None
        out = bytes(r[1])
        hh = mk_hh()

        def seed(kind):
            if label == b"key expansion":
                return sr + cr
            if label == b"master secret":
                return cr + sr
            if kind == 'md5sha1':
                return hh.digest('md5') + hh.digest('sha1') if label == b"extended master secret" else hh.digest()
            return hh.digest(kind)
        ref = {}
        if label in (b"key expansion", b"master secret"):
            ref['ssl3'] = lambda: mathtls.PRF_SSL(secret, seed('ssl3'), n)
        elif label.endswith(b"finished"):
            ref['ssl3'] = lambda: hh.digestSSL(secret, b"CLNT" if label.startswith(b"client") else b"SRVR")
        ref['md5sha1'] = lambda: mathtls.PRF(secret, label, seed('md5sha1'), n)
        ref['sha256'] = lambda: mathtls.PRF_1_2(secret, label, seed('sha256'), n)
        ref['sha384'] = lambda: mathtls.PRF_1_2_SHA384(secret, label, seed('sha384'), n)
        hits = [k for k, f in ref.items() if bytes(f()) == out]
        return hits[0] if len(hits) == 1 else None

    def exporter_kind(ver, sid):
        """TLSConnection.keyingMaterialExporter on a connection whose session carries this suite"""
        conn = tlsconnection.TLSConnection(None)
        conn.session = session_mod.Session()
        conn.session.cipherSuite = sid
        conn.session.masterSecret = bytearray(secret)
        conn.session.exporterMasterSecret = bytearray(secret)
        conn._clientRandom, conn._serverRandom = bytearray(cr), bytearray(sr)
        conn._recordLayer._version = ver
        lab = bytearray(b"EXPORTER-verif")
        r = safe(conn.keyingMaterialExporter, lab, 40)
        if r[0] != 'ok':
            return None
        out = bytes(r[1])
        ref = {}
        if ver == (3, 4):
            for h in ('sha256', 'sha384'):
                def f(h=h):
                    dig = getattr(_hl, h)
                    e0 = dig(b"").digest()
                    full = b"tls13 " + bytes(lab)
                    info = bytes([0, len(e0), len(full)]) + full + bytes([len(e0)]) + e0
                    t, blk, c = b"", b"", 1
                    while len(t) < len(e0):
                        blk = _hm.new(bytes(secret), blk + info + bytes([c]), dig).digest()
                        t += blk
                        c += 1
                    sec = t[:len(e0)]
                    full2 = b"tls13 exporter"
                    info2 = bytes([0, 40, len(full2)]) + full2 + bytes([len(e0)]) + e0
                    t, blk, c = b"", b"", 1
                    while len(t) < 40:
                        blk = _hm.new(sec, blk + info2 + bytes([c]), dig).digest()
                        t += blk
                        c += 1
                    return t[:40]
                ref[h] = f
        else:
            ref['md5sha1'] = lambda: mathtls.PRF(secret, lab, cr + sr, 40)
            ref['sha256'] = lambda: mathtls.PRF_1_2(secret, lab, cr + sr, 40)
            ref['sha384'] = lambda: mathtls.PRF_1_2_SHA384(secret, lab, cr + sr, 40)
        hits = [k for k, f in ref.items() if bytes(f()) == out]
        return hits[0] if len(hits) == 1 else None

    def deprecated_kinds(sid):
        """the deprecated public helpers calcMasterSecret / calcExtendedMasterSecret / calcFinished at TLS 1.2"""
        out = []
        with warnings.catch_warnings():
            warnings.simplefilter('ignore')
            hh = mk_hh()
            cands = {
                'calcMasterSecret': (lambda: mathtls.calcMasterSecret((3, 3), sid, secret, cr, sr),
                                     {'sha256': lambda: mathtls.PRF_1_2(secret, b"master secret", cr + sr, 48),
                                      'sha384': lambda: mathtls.PRF_1_2_SHA384(secret, b"master secret", cr + sr, 48)}),
                'calcExtendedMasterSecret': (lambda: mathtls.calcExtendedMasterSecret((3, 3), sid, secret, mk_hh()),
                                             {'sha256': lambda: mathtls.PRF_1_2(secret, b"extended master secret", hh.digest('sha256'), 48),
                                              'sha384': lambda: mathtls.PRF_1_2_SHA384(secret, b"extended master secret", hh.digest('sha384'), 48)}),
                'calcFinished': (lambda: mathtls.calcFinished((3, 3), secret, sid, mk_hh(), True),
                                 {'sha256': lambda: mathtls.PRF_1_2(secret, b"client finished", hh.digest('sha256'), 12),
                                  'sha384': lambda: mathtls.PRF_1_2_SHA384(secret, b"client finished", hh.digest('sha384'), 12)}),
            }
            for name in sorted(cands):
                f, ref = cands[name]
                if not hasattr(mathtls, name):
                    continue
                r = safe(f)
                hits = [k for k, g in ref.items() if r[0] == 'ok' and bytes(g()) == bytes(r[1])]
                out.append((name, hits[0] if len(hits) == 1 else None))
        return out

    x509cc = importlib.import_module('tlslite.x509certchain')
    cert_chains = []
    for fn in ('serverX509Cert.pem', 'serverRSAPSSCert.pem', 'serverECCert.pem', 'serverEd25519Cert.pem', 'serverDSACert.pem'):
        try:
            with open(os.path.join(REPO, 'tests', fn)) as f:
                ch = x509cc.X509CertChain()
                ch.parsePemList(f.read())
        except Exception as e:  # noqa
            raise Refuse('cannot load tests/%s: %r' % (fn, e))
        cert_chains.append(ch)
    cert_chains.append(None)
    d['cert_kinds'] = [str(c.x509List[0].certAlg) if c is not None else 'none' for c in cert_chains]
    if d['cert_kinds'] != ['rsa', 'rsa-pss', 'ecdsa', 'Ed25519', 'dsa', 'none']:
        raise Refuse('test certificates have unexpected key types %r' % (d['cert_kinds'],))

    rows = {}
    for sid in d['all']:
        r = {}
        cs = safe(RL._getCipherSettings, sid)
        r['cipher_settings'] = (int(cs[1][0]), int(cs[1][1]), getattr(cs[1][2], '__name__', 'None')) if cs[0] == 'ok' else None
        ms = safe(RL._getMacSettings, sid)
        if ms[0] == 'ok':
            dm = ms[1][1]
            r['mac_settings'] = (int(ms[1][0]), None if dm is None else dm().name)
        else:
            r['mac_settings'] = None
        cc = safe(CS.canonicalCipherName, sid)
        r['canon_cipher'] = cc[1] if cc[0] == 'ok' else '!' + cc[1]
        cm = safe(CS.canonicalMacName, sid)
        r['canon_mac'] = cm[1] if cm[0] == 'ok' else '!' + cm[1]
        pp = safe(tlsconnection.TLSConnection._getPRFParams, sid)
        r['prf_params'] = (str(pp[1][0]), int(pp[1][1])) if pp[0] == 'ok' else ('!' + pp[1], 0)
        r['calc_key_prf'] = [prf_kind(v, sid) for v in VERSIONS[:4]]
        r['tls13'] = tls13_hash(sid) if r['cipher_settings'] is not None and r['cipher_settings'][2] != 'None' else None
        r['ffv'] = [sid in CS.filterForVersion([sid], v, v) for v in VERSIONS]
        # CipherSuite.filter_for_prfs: which PSK hashes (sha256, sha384, and None = unspecified) keep the suite
        r['filter_prfs'] = [(lambda x: bool(x[0] == 'ok' and sid in x[1]))(safe(CS.filter_for_prfs, [sid], [h]))
                            for h in ('sha256', 'sha384', None)]
        # CipherSuite.filter_for_certificate: with which kind of server certificate the suite may be selected
        r['filter_cert'] = [(lambda x: bool(x[0] == 'ok' and sid in x[1]))(safe(CS.filter_for_certificate, [sid], ch))
                            for ch in cert_chains]
        r['keyupdate'] = key_update(sid) if r['tls13'] is not None else None
        # every secret-deriving use of the suite besides the record keys: calc_key per label x version
        # ((3,0) + extended master secret is not a defined combination), the exporter, the deprecated helpers
        r['labels'] = [[None if (v == (3, 0) and lb == b"extended master secret") else label_kind(v, sid, lb)
                        for lb in LABELS] for v in VERSIONS[:4]]
        r['exporter'] = [exporter_kind(v, sid) for v in VERSIONS[1:]]
        r['deprecated'] = deprecated_kinds(sid)
        rows[sid] = r
    d['rows'] = rows
    perm = permissive(hs)
    scomp, ccomp = _composition('_serverGetClientHello'), _composition('_clientSendClientHello')
    d['srv'] = {cred: [sorted(set(server_candidates(CS, perm, v, cred, scomp))) for v in VERSIONS]
                for cred in sorted(SERVER_ENVS)}
    # a client with maxVersion=mv accepts suite s in a ServerHello of version v iff s is in
    # filterForVersion(offer, v, v)
    d['cli'] = {}
    for kind in ('srp', 'cert', 'anon'):
        per_max = []
        for mv in VERSIONS:
            offer = client_offer(CS, permissive(hs, maxVersion=mv), kind, ccomp)
            per_max.append([sorted(set(CS.filterForVersion(offer, v, v))) if v <= mv else [] for v in VERSIONS])
        d['cli'][kind] = per_max
    # single-word settings
    d['by_cipher'] = {c: [sorted(set(CS._filterSuites(d['all'], permissive(hs, cipherNames=[c]), v))) for v in VERSIONS]
                      for c in hs.ALL_CIPHER_NAMES}
    d['by_mac'] = {m: [sorted(set(CS._filterSuites(d['all'], permissive(hs, macNames=[m]), v))) for v in VERSIONS]
                   for m in hs.ALL_MAC_NAMES}
    d['by_kx'] = {k: [sorted(set(CS._filterSuites(d['all'], permissive(hs, keyExchangeNames=[k]), v))) for v in VERSIONS]
                  for k in hs.KEY_EXCHANGE_NAMES}
    d['by_kx']['<none>'] = [sorted(set(CS._filterSuites(d['all'], permissive(hs, keyExchangeNames=[]), v))) for v in VERSIONS]
    return d


# ------------------------------------------------------------------------------------------
# key-exchange dispatch of tlsconnection.py: extracted from the ast (fail closed)
def _membership(test, var):
    """Gallina for a test built from `<var> in/not in CipherSuite.X`, and/or/not; list names used"""
    if isinstance(test, ast.Compare) and len(test.ops) == 1 and isinstance(test.ops[0], (ast.In, ast.NotIn)):
        l, c = test.left, test.comparators[0]
        if (isinstance(l, ast.Name) and l.id == var and isinstance(c, ast.Attribute)
                and isinstance(c.value, ast.Name) and c.value.id == 'CipherSuite'):
            g = '(existsb (Z.eqb s) L_%s)' % c.attr
            return ('(negb %s)' % g if isinstance(test.ops[0], ast.NotIn) else g), [c.attr]
    if isinstance(test, ast.BoolOp):
        parts = [_membership(v, var) for v in test.values]
        op = ' || ' if isinstance(test.op, ast.Or) else ' && '
        return '(' + op.join(p[0] for p in parts) + ')', sum((p[1] for p in parts), [])
    if isinstance(test, ast.UnaryOp) and isinstance(test.op, ast.Not):
        g, n = _membership(test.operand, var)
        return '(negb %s)' % g, n
    raise Refuse('dispatch test outside the accepted form at line %d' % test.lineno)


def _is_membership_if(n, var):
    try:
        return isinstance(n, ast.If) and bool(_membership(n.test, var))
    except Refuse:
        return False


def _leaf(body, var):
    """what a branch does: nested dispatch | keyExchange = Class(...) | for ... in self._method(...) | assert False"""
    for st in body:
        if _is_membership_if(st, var):
            return _chain(st, var)
        if isinstance(st, ast.Assign) and len(st.targets) == 1 and isinstance(st.targets[0], ast.Name) \
                and st.targets[0].id == 'keyExchange' and isinstance(st.value, ast.Call) \
                and isinstance(st.value.func, ast.Name):
            return sl(st.value.func.id), []
        if isinstance(st, ast.For) and isinstance(st.iter, ast.Call) and isinstance(st.iter.func, ast.Attribute) \
                and isinstance(st.iter.func.value, ast.Name) and st.iter.func.value.id == 'self' \
                and st.iter.func.attr != '_sendError':
            return sl(st.iter.func.attr), []
        if isinstance(st, ast.Assert) or (isinstance(st, ast.Expr) and isinstance(st.value, ast.Call)
                                          and isinstance(st.value.func, ast.Name) and st.value.func.id == 'assert'):
            return sl('ASSERT'), []
        if isinstance(st, (ast.Assign, ast.Try, ast.Expr)):
            continue
        raise Refuse('dispatch branch with unexpected statement %s at line %d' % (type(st).__name__, st.lineno))
    raise Refuse('dispatch branch without a recognisable action')


def _chain(node, var):
    g, names = _membership(node.test, var)
    a, n1 = _leaf(node.body, var)
    if len(node.orelse) == 1 and _is_membership_if(node.orelse[0], var):
        b, n2 = _chain(node.orelse[0], var)
    elif node.orelse:
        b, n2 = _leaf(node.orelse, var)
    else:
        raise Refuse('dispatch chain without else at line %d' % node.lineno)
    return '(if %s then %s else %s)' % (g, a, b), names + n1 + n2


def dispatch_chains(known_lists):
    path = os.path.join(REPO, 'tlslite', 'tlsconnection.py')
    with open(path) as f:
        tree = ast.parse(f.read())
    cls = [n for n in tree.body if isinstance(n, ast.ClassDef) and n.name == 'TLSConnection']
    if not cls:
        raise Refuse('class TLSConnection not found')
    out = []
    for fname, gname in (('_handshakeClientAsyncHelper', 'gen_cli_dispatch'), ('_handshakeServerAsyncHelper', 'gen_srv_dispatch')):
        fd = [n for n in cls[0].body if isinstance(n, ast.FunctionDef) and n.name == fname]
        if len(fd) != 1:
            raise Refuse('TLSConnection.%s not found' % fname)
        heads = []
        for n in ast.walk(fd[0]):
            if isinstance(n, ast.If) and isinstance(n.test, ast.Compare) and isinstance(n.test.left, ast.Name) \
                    and n.test.left.id == 'cipherSuite' and isinstance(n.test.comparators[0], ast.Attribute) \
                    and n.test.comparators[0].attr == 'srpAllSuites' and isinstance(n.test.ops[0], ast.In):
                heads.append(n)
        if len(heads) != 1:
            raise Refuse('%s: expected one key-exchange dispatch chain starting at srpAllSuites, found %d' % (fname, len(heads)))
        code, names = _chain(heads[0], 'cipherSuite')
        for nm in names:
            if nm not in known_lists:
                raise Refuse('%s consults CipherSuite.%s which is not a known list' % (fname, nm))
        out.append('(* tlslite/tlsconnection.py:%d %s: which key exchange runs for suite s *)' % (heads[0].lineno, fname))
        out.append('Definition %s (s : Z) : string :=\n  %s.\n' % (gname, code))
    return out


def psk_guard():
    """_serverTLS13Handshake, the loop over the offered PSK identities: the `if <test>: continue` that decides from
    psk_hash / prf_name (/ ticket) whether an identity is skipped.  -> Gallina for
    psk_skipped (is_ticket : bool) (psk_hash prf_name : string) : bool"""
    path = os.path.join(REPO, 'tlslite', 'tlsconnection.py')
    with open(path) as f:
        tree = ast.parse(f.read())
    cls = [n for n in tree.body if isinstance(n, ast.ClassDef) and n.name == 'TLSConnection']
    fd = [n for n in (cls[0].body if cls else []) if isinstance(n, ast.FunctionDef) and n.name == '_serverTLS13Handshake']
    if len(fd) != 1:
        raise Refuse('TLSConnection._serverTLS13Handshake not found')
    hits = [n for n in ast.walk(fd[0]) if isinstance(n, ast.If) and len(n.body) == 1 and isinstance(n.body[0], ast.Continue)
            and not n.orelse and any(isinstance(x, ast.Name) and x.id == 'psk_hash' for x in ast.walk(n.test))]
    if len(hits) != 1:
        raise Refuse('_serverTLS13Handshake: expected one `if ... psk_hash ...: continue`, found %d' % len(hits))

    def tr(e):
        if isinstance(e, ast.BoolOp):
            return '(' + (' && ' if isinstance(e.op, ast.And) else ' || ').join(tr(v) for v in e.values) + ')'
        if isinstance(e, ast.UnaryOp) and isinstance(e.op, ast.Not):
            return '(negb %s)' % tr(e.operand)
        if isinstance(e, ast.Name) and e.id == 'ticket':
            return 'is_ticket'
        if isinstance(e, ast.Compare) and len(e.ops) == 1 and isinstance(e.ops[0], (ast.Eq, ast.NotEq)):
            a, b = e.left, e.comparators[0]
            if all(isinstance(x, ast.Name) and x.id in ('psk_hash', 'prf_name') for x in (a, b)):
                g = '(String.eqb %s %s)' % (a.id, b.id)
                return g if isinstance(e.ops[0], ast.Eq) else '(negb %s)' % g
        raise Refuse('PSK selection guard outside the accepted form: %s' % ast.unparse(e))
    return ['(* tlslite/tlsconnection.py:%d _serverTLS13Handshake: `if %s: continue` -- an offered PSK identity whose'
            % (hits[0].lineno, ast.unparse(hits[0].test)),
            '   configured hash is psk_hash is skipped when the selected suite\'s hash is prf_name *)',
            'Definition psk_skipped (is_ticket : bool) (psk_hash prf_name : string) : bool :=\n  %s.\n' % tr(hits[0].test)]


def client_plan():
    """TLSConnection._clientKeyExchange, abstractly interpreted over the suite: under which condition on the suite the
    client (a) waits for a Certificate, (b) waits for a ServerKeyExchange, (c) calls
    KeyExchange.verifyServerKeyExchange.  Conditions are membership tests on `cipherSuite`, and tests of locals
    whose None-ness was decided by such tests (e.g. `if serverKeyExchange:`); anything else on the path to one of
    these three actions is refused."""
    path = os.path.join(REPO, 'tlslite', 'tlsconnection.py')
    with open(path) as f:
        tree = ast.parse(f.read())
    cls = [n for n in tree.body if isinstance(n, ast.ClassDef) and n.name == 'TLSConnection']
    fd = [n for n in (cls[0].body if cls else []) if isinstance(n, ast.FunctionDef) and n.name == '_clientKeyExchange']
    if len(fd) != 1:
        raise Refuse('TLSConnection._clientKeyExchange not found')
    env = {}            # local name -> Gallina bool "is not None / truthy" (None = not a function of the suite)
    found = {'certificate': [], 'server_key_exchange': [], 'verify': []}

    def cond(e):
        try:
            return _membership(e, 'cipherSuite')[0]
        except Refuse:
            pass
        if isinstance(e, ast.Name):
            return env.get(e.id)
        if isinstance(e, ast.UnaryOp) and isinstance(e.op, ast.Not):
            c = cond(e.operand)
            return None if c is None else '(negb %s)' % c
        if isinstance(e, ast.BoolOp):
            cs = [cond(v) for v in e.values]
            if any(c is None for c in cs):
                return None
            return '(' + (' && ' if isinstance(e.op, ast.And) else ' || ').join(cs) + ')'
        return None

    def conj(pc, c):
        if pc is None or c is None:
            return None
        return c if pc == 'true' else '(%s && %s)' % (pc, c)

    def scan_calls(node, pc):
        for n in ast.walk(node):
            if isinstance(n, ast.Call):
                fn = ast.unparse(n.func)
                if fn == 'self._getMsg' and len(n.args) >= 2:
                    what = ast.unparse(n.args[1])
                    for k in ('certificate', 'server_key_exchange'):
                        if what == 'HandshakeType.' + k:
                            found[k].append(pc)
                elif fn.endswith('verifyServerKeyExchange'):
                    found['verify'].append(pc)

    def walk(stmts, pc):
        for st in stmts:
            if isinstance(st, ast.If):
                c = cond(st.test)
                scan_calls(st.test, pc)
                walk(st.body, conj(pc, c))
                walk(st.orelse, conj(pc, None if c is None else '(negb %s)' % c))
            elif isinstance(st, (ast.For, ast.While)):
                scan_calls(st.iter if isinstance(st, ast.For) else st.test, pc)
                walk(st.body, pc)
                walk(st.orelse, pc)
            elif isinstance(st, ast.Try):
                walk(st.body, pc)
                for h in st.handlers:
                    walk(h.body, pc)
                walk(st.orelse, pc)
                walk(st.finalbody, pc)
            elif isinstance(st, ast.With):
                walk(st.body, pc)
            else:
                scan_calls(st, pc)
                if isinstance(st, ast.Assign) and len(st.targets) == 1 and isinstance(st.targets[0], ast.Name):
                    name = st.targets[0].id
                    isnone = isinstance(st.value, ast.Constant) and st.value.value is None
                    if pc is None:
                        env[name] = None
                    elif pc == 'true':
                        env[name] = 'false' if isnone else 'true'
                    else:
                        old = env.get(name, 'false')
                        env[name] = None if old is None else '(if %s then %s else %s)' % (pc, 'false' if isnone else 'true', old)
    walk(fd[0].body, 'true')
    # the client's certificate-key-type rule: `if cipherSuite in X: fitting = (...) elif ... else: fitting = (...)` and
    # `if cert_alg not in fitting: for .. in self._sendError(AlertDescription.<alert>, ..): yield ..`
    def fitting_of(body):
        if len(body) == 1 and isinstance(body[0], ast.Assign) and len(body[0].targets) == 1 \
                and isinstance(body[0].targets[0], ast.Name) and body[0].targets[0].id == 'fitting' \
                and isinstance(body[0].value, ast.Tuple) \
                and all(isinstance(e, ast.Constant) and isinstance(e.value, str) for e in body[0].value.elts):
            return '[' + '; '.join(sl(e.value) for e in body[0].value.elts) + ']'
        return None

    def fit_chain(node):
        g = _membership(node.test, 'cipherSuite')[0]
        a = fitting_of(node.body)
        if a is None:
            raise Refuse('certificate key type chain: unexpected branch at line %d' % node.lineno)
        if len(node.orelse) == 1 and isinstance(node.orelse[0], ast.If):
            b = fit_chain(node.orelse[0])
        else:
            b = fitting_of(node.orelse)
            if b is None:
                raise Refuse('certificate key type chain: unexpected else at line %d' % node.lineno)
        return '(if %s then %s else %s)' % (g, a, b)
    heads = [n for n in ast.walk(fd[0]) if isinstance(n, ast.If) and fitting_of(n.body) is not None]
    nested = set(id(n.orelse[0]) for n in heads if len(n.orelse) == 1 and isinstance(n.orelse[0], ast.If))
    heads = [n for n in heads if id(n) not in nested]
    guards = []
    for n in ast.walk(fd[0]):
        if isinstance(n, ast.If) and ast.unparse(n.test) == 'cert_alg not in fitting':
            for b in n.body:
                if isinstance(b, ast.For) and isinstance(b.iter, ast.Call) and ast.unparse(b.iter.func) == 'self._sendError' \
                        and b.iter.args and any(isinstance(y, ast.Expr) and isinstance(y.value, ast.Yield) for y in b.body):
                    guards.append(ast.unparse(b.iter.args[0]))
    if len(heads) > 1:
        raise Refuse('_clientKeyExchange: more than one certificate key type chain')
    fit_code = fit_chain(heads[0]) if heads else '[]'
    out = ['(* _clientKeyExchange: the certificate key types (X509.certAlg) the client accepts for suite s (empty: no such',
           '   rule in the source), and the alerts with which a certificate of another key type is refused *)',
           'Definition gen_cli_fitting_cert_types (s : Z) : list string :=\n  %s.\n' % fit_code,
           'Definition cli_cert_type_alerts : list string := [%s].\n' % '; '.join(sl(g) for g in guards)]
    out += ['(* tlslite/tlsconnection.py:%d _clientKeyExchange, interpreted over the suite: when the client waits for a' % fd[0].lineno,
           '   Certificate, for a ServerKeyExchange, and when it verifies the ServerKeyExchange signature *)']
    for key, gname in (('certificate', 'gen_cli_gets_certificate'), ('server_key_exchange', 'gen_cli_gets_ske'),
                       ('verify', 'gen_cli_verifies_ske_signature')):
        pcs = found[key]
        if not pcs:
            raise Refuse('_clientKeyExchange: no %s site found' % key)
        if any(p is None for p in pcs):
            raise Refuse('_clientKeyExchange: the %s site is guarded by a condition that is not a function of the suite' % key)
        out.append('Definition %s (s : Z) : bool :=\n  %s.\n' % (gname, ' || '.join(pcs) if len(pcs) > 1 else pcs[0]))
    return out


def suite_sources():
    """which expression supplies the cipher suite to every key-derivation / Finished call of TLSConnection, and how
    _clientResume treats a ServerHello whose suite differs from the resumed session's"""
    path = os.path.join(REPO, 'tlslite', 'tlsconnection.py')
    with open(path) as f:
        tree = ast.parse(f.read())
    cls = [n for n in tree.body if isinstance(n, ast.ClassDef) and n.name == 'TLSConnection']
    if not cls:
        raise Refuse('class TLSConnection not found')
    pos = {'_calcPendingStates': 0, '_sendFinished': 1, '_getFinished': 1, 'calcTLS1_3PendingState': 0}
    rows, guards = [], []
    for fd in cls[0].body:
        if not isinstance(fd, ast.FunctionDef):
            continue
        for n in ast.walk(fd):
            if isinstance(n, ast.Call) and isinstance(n.func, ast.Attribute) and n.func.attr in pos:
                i = pos[n.func.attr]
                kw = [k.value for k in n.keywords if k.arg in ('cipherSuite', 'cipher_suite')]
                arg = n.args[i] if len(n.args) > i else (kw[0] if kw else None)
                rows.append((fd.name, n.func.attr, ast.unparse(arg) if arg is not None else '<default>'))
        if fd.name == '_clientResume':
            for n in ast.walk(fd):
                if isinstance(n, ast.If):
                    t = ast.unparse(n.test)
                    if 'cipher_suite' in t and 'session.cipherSuite' in t:
                        iterated = any(isinstance(b, ast.For) and isinstance(b.iter, ast.Call)
                                       and ast.unparse(b.iter.func) == 'self._sendError'
                                       and any(isinstance(y, ast.Expr) and isinstance(y.value, ast.Yield) for y in b.body)
                                       for b in n.body)
                        guards.append((t, iterated))
    cert_sites = []
    for fd in cls[0].body:
        if not isinstance(fd, ast.FunctionDef):
            continue

        def visit(stmts, loop_vars):
            for st in stmts:
                lv = loop_vars
                if isinstance(st, ast.For):
                    names = [x.id for x in ast.walk(st.target) if isinstance(x, ast.Name)]
                    lv = loop_vars + [names]
                for n in ast.walk(st) if not isinstance(st, (ast.For, ast.While, ast.If, ast.Try, ast.With)) else \
                        ast.walk(getattr(st, 'iter', None) or getattr(st, 'test', None) or ast.Pass()):
                    if isinstance(n, ast.Call) and ast.unparse(n.func) == 'CipherSuite.filter_for_certificate' and len(n.args) == 2:
                        arg = ast.unparse(n.args[1])
                        inner = lv[-1] if lv else []
                        cert_sites.append((fd.name, arg, 'loop' if (inner and arg == inner[0]) else ('no-loop' if not lv else 'not-loop-var')))
                for fld in ('body', 'orelse', 'finalbody'):
                    if getattr(st, fld, None):
                        visit(getattr(st, fld), lv)
                for h in getattr(st, 'handlers', []) or []:
                    visit(h.body, lv)
        visit(fd.body, [])
    if not rows:
        raise Refuse('no key-derivation calls found in TLSConnection')
    o = ['(* tlslite/tlsconnection.py: (function, callee, source text of the cipher-suite argument) of every call that derives',
         '   record keys or Finished values *)',
         'Definition suite_arg_sources : list (string * string * string) := [\n  %s].\n' % ';\n  '.join(
             '(%s, %s, %s)' % (sl(a), sl(b), sl(c)) for a, b, c in rows),
         '(* _clientResume: every `if` comparing the ServerHello suite with the session suite: (test, the body iterates',
         '   self._sendError(...) and yields, i.e. the alert is really sent and the handshake aborted) *)',
         'Definition resume_suite_guards : list (string * bool) := [%s].\n' % '; '.join(
             '(%s, %s)' % (sl(t), 'true' if it else 'false') for t, it in guards),
         '(* every call CipherSuite.filter_for_certificate(suites, X): (function, source of X, "loop" when the call sits in a',
         '   `for cert, key in ...` loop over candidate key pairs and X is that loop\'s certificate variable, "not-loop-var"',
         '   when it sits in such a loop but X is something else, "no-loop" otherwise) *)',
         'Definition cert_filter_sites : list (string * string * string) := [%s].\n' % '; '.join(
             '(%s, %s, %s)' % (sl(a), sl(b), sl(c)) for a, b, c in cert_sites)]
    return o


class SuitesUnit(object):
    module_name = 'Suites'

    def translate(self):
        d = collect()
        o = ['(* GENERATED by translator/units_suites.py from %s/tlslite (constants.py, recordlayer.py,' % REPO,
             '   mathtls.py, tlsconnection.py) by import and by calling the real functions -- do not edit. *)',
             'From Coq Require Import ZArith List Bool String.',
             'Import ListNotations.', 'Open Scope Z_scope.', 'Open Scope string_scope.', '']
        o.append('(* CipherSuite.ietfNames *)')
        o.append('Definition ietf_names : list (Z * string) := [\n  %s].\n' % ';\n  '.join(
            '(%d, %s)' % (k, sl(v)) for k, v in sorted(d['ietf'].items())))
        for k in sorted(d['lists']):
            o.append('Definition L_%s : list Z := %s.' % (k, zl(d['lists'][k])))
        o.append('\nDefinition suite_lists : list (string * list Z) := [\n  %s].\n' % ';\n  '.join(
            '(%s, L_%s)' % (sl(k), k) for k in sorted(d['lists'])))
        o.append('(* every id in ietfNames or in any *Suites list *)')
        o.append('Definition all_suites : list Z := %s.\n' % zl(d['all']))
        o.append('(* protocol versions (3, minor) *)')
        o.append('Definition all_versions : list Z := [0; 1; 2; 3; 4].\n')
        o.append('''Record suite_row := {
  r_id : Z;
  r_cipher_settings : option (Z * Z * string);   (* RecordLayer._getCipherSettings: keyLength, ivLength, factory; None = raises *)
  r_mac_settings : option (Z * option string);    (* RecordLayer._getMacSettings: macLength, digest name; None = raises *)
  r_canon_cipher : option string;                 (* CipherSuite.canonicalCipherName *)
  r_canon_mac : option string;                    (* CipherSuite.canonicalMacName *)
  r_prf_params : string * Z;                      (* TLSConnection._getPRFParams *)
  r_calc_key_prf : list (option string);          (* PRF mathtls.calc_key really applies, versions (3,0)..(3,3) *)
  r_tls13 : option (string * Z * option string * Z * Z);  (* calcTLS1_3PendingState: HKDF hash, key bytes, cipher name, tag, nonce *)
  r_ffv : list bool;                              (* s in filterForVersion([s], v, v), versions (3,0)..(3,4) *)
  (* RecordLayer._calcTLS1_3KeyUpdate: hash that derived the next traffic secret, its length, hash/length of the
     new key, hash/length of the new IV (hashes identified by recomputing HKDF-Expand-Label with hashlib/hmac),
     cipher object name, tag *)
  r_keyupdate : option (option string * Z * option string * Z * option string * Z * option string * Z);
  r_ku_roles : list (option string);              (* hash of the secret updated by _sender/_reciever x client/server *)
  r_labels : list (list (option string));         (* PRF calc_key applies, versions (3,0)..(3,3) x [key expansion; master
                                                     secret; extended master secret; client finished; server finished];
                                                     ((3,0), extended master secret) is undefined and emitted as None *)
  r_exporter : list (option string);              (* keyingMaterialExporter, versions (3,1)..(3,4) *)
  r_deprecated : list (string * option string);   (* calcMasterSecret / calcExtendedMasterSecret / calcFinished at (3,3) *)
  r_filter_prfs : list bool;                      (* s in filter_for_prfs([s], [h]) for h = "sha256", "sha384", None *)
  r_filter_cert : list bool                       (* s in filter_for_certificate([s], chain) for a server certificate with an
                                                     rsa, rsa-pss, ecdsa, Ed25519, dsa key, and for no certificate *)
}.
''')
        rows = []
        for sid in d['all']:
            r = d['rows'][sid]
            cs = r['cipher_settings']
            ms = r['mac_settings']
            t13 = r['tls13']
            rows.append('{| r_id := %d; r_cipher_settings := %s; r_mac_settings := %s; r_canon_cipher := %s; '
                        'r_canon_mac := %s; r_prf_params := (%s, %d); r_calc_key_prf := [%s]; r_tls13 := %s; r_ffv := [%s]; '
                        'r_keyupdate := %s; r_ku_roles := [%s]; r_labels := [%s]; r_exporter := [%s]; r_deprecated := [%s]; '
                        'r_filter_prfs := [%s]; r_filter_cert := [%s] |}' % (
                            sid,
                            'None' if cs is None else '(Some (%d, %d, %s))' % (cs[0], cs[1], sl(cs[2])),
                            'None' if ms is None else '(Some (%d, %s))' % (ms[0], osl(ms[1])),
                            osl(r['canon_cipher']), osl(r['canon_mac']),
                            sl(r['prf_params'][0]), r['prf_params'][1],
                            '; '.join(osl(x) for x in r['calc_key_prf']),
                            'None' if t13 is None else '(Some (%s, %d, %s, %d, %d))' % (sl(t13[0]), t13[1], osl(t13[2]), t13[3], t13[4]),
                            '; '.join('true' if b else 'false' for b in r['ffv']),
                            'None' if r['keyupdate'] is None else '(Some (%s, %d, %s, %d, %s, %d, %s, %d))' % (
                                osl(r['keyupdate'][0][0]), r['keyupdate'][0][1], osl(r['keyupdate'][0][2]),
                                r['keyupdate'][0][3], osl(r['keyupdate'][0][4]), r['keyupdate'][0][5],
                                osl(r['keyupdate'][0][6]), r['keyupdate'][0][7]),
                            '' if r['keyupdate'] is None else '; '.join(osl(x) for x in r['keyupdate'][1]),
                            '; '.join('[' + '; '.join(osl(x) for x in row) + ']' for row in r['labels']),
                            '; '.join(osl(x) for x in r['exporter']),
                            '; '.join('(%s, %s)' % (sl(n), osl(k)) for n, k in r['deprecated']),
                            '; '.join('true' if b else 'false' for b in r['filter_prfs']),
                            '; '.join('true' if b else 'false' for b in r['filter_cert'])))
        o.append('Definition rows : list suite_row := [\n  %s].\n' % ';\n  '.join(rows))

        def per_version(name, table, comment):
            o.append('(* %s *)' % comment)
            o.append('Definition %s : list (string * list (list Z)) := [\n  %s].\n' % (name, ';\n  '.join(
                '(%s, [%s])' % (sl(k), '; '.join(zl(x) for x in table[k])) for k in sorted(table))))
        per_version('srv_candidates', d['srv'],
                    'server: credential class -> per version (3,0)..(3,4) the suites it may select (permissive settings)')
        o.append('(* client: handshake kind -> per maxVersion -> per negotiated version the ServerHello suites it accepts *)')
        o.append('Definition cli_accepts : list (string * list (list (list Z))) := [\n  %s].\n' % ';\n  '.join(
            '(%s, [%s])' % (sl(k), ';\n     '.join('[' + '; '.join(zl(x) for x in pm) + ']' for pm in d['cli'][k]))
            for k in sorted(d['cli'])))
        per_version('by_cipher_name', d['by_cipher'], '_filterSuites(all ids) with cipherNames=[word], per version')
        per_version('by_mac_name', d['by_mac'], '_filterSuites(all ids) with macNames=[word], per version')
        per_version('by_kx_name', d['by_kx'], '_filterSuites(all ids) with keyExchangeNames=[word], per version')
        o += dispatch_chains(d['lists'])
        o += psk_guard()
        o += suite_sources()
        o += client_plan()
        return '\n'.join(o)


UNITS = {'Suites': SuitesUnit}
