"""PyLite: a fail-closed translator from a small subset of Python (as found in
tlslite-ng's straight-line helper code) to shallow Gallina.

Every construct that is not explicitly handled raises Refuse; the check then
reports the translator tie as broken.  Semantics choices (trusted, and validated
on every run by evaluating the generated Gallina against the Python function):

  int            -> Z (unbounded, like Python)
  bytearray/bytes-> list Z
  x[i]           -> py_index (IndexError outside range, negative index wraps)
  x[a:b]         -> py_slice (Python clamping)
  bytearray([e]) -> mk_byte (ValueError outside 0..255)
  a // b, a % b  -> py_div / py_mod (ZeroDivisionError on 0; floor semantics = Z.div/Z.modulo)
  assert c       -> Err AssertionError when c is false
  for i in range -> fold over zrange (foldM when the body can fail)
  hmac objects   -> HMac record: copy = identity on values, update = append,
                    digest = oracle function applied to the accumulated bytes
A function whose body contains no fallible operation is emitted as a pure
function; otherwise it returns `res T`.
"""
import ast
import hashlib
import textwrap


class Refuse(Exception):
    pass


class Term:
    def __init__(self, code, ty, binds=None):
        self.code = code
        self.ty = ty
        self.binds = binds or []   # list of (name, monadic-code)


BINOPS = {ast.Add: 'Z.add', ast.Sub: 'Z.sub', ast.Mult: 'Z.mul', ast.BitAnd: 'Z.land',
          ast.BitOr: 'Z.lor', ast.BitXor: 'Z.lxor', ast.LShift: 'Z.shiftl', ast.RShift: 'Z.shiftr'}
CMPOPS = {ast.Lt: '<?', ast.LtE: '<=?', ast.Gt: '>?', ast.GtE: '>=?', ast.Eq: '=?'}


class FnTranslator:
    def __init__(self, unit, fdef, sig):
        self.unit = unit
        self.fdef = fdef
        self.sig = sig            # {'params': [(name, ty)], 'ret': ty}
        self.tmp = 0
        self.fallible = False

    def fresh(self):
        self.tmp += 1
        return 't%d_' % self.tmp

    # ---------------------------------------------------------------- exprs
    def expr(self, e, env):
        if isinstance(e, ast.Constant):
            if isinstance(e.value, bool):
                return Term('true' if e.value else 'false', 'bool')
            if isinstance(e.value, int):
                return Term(str(e.value) if e.value >= 0 else '(%d)' % e.value, 'Z')
            raise Refuse('constant %r' % (e.value,))
        if isinstance(e, ast.Name):
            if e.id in env:
                return Term(e.id, env[e.id])
            raise Refuse('unbound or maybe-undefined variable %s (line %d)' % (e.id, e.lineno))
        if isinstance(e, ast.Tuple):
            ts = [self.expr(x, env) for x in e.elts]
            return Term('(' + ', '.join(t.code for t in ts) + ')',
                        ('tup',) + tuple(t.ty for t in ts), sum((t.binds for t in ts), []))
        if isinstance(e, ast.BinOp):
            a = self.expr(e.left, env)
            b = self.expr(e.right, env)
            binds = a.binds + b.binds
            if a.ty != 'Z' or b.ty != 'Z':
                if isinstance(e.op, ast.Add) and a.ty == 'bytes' and b.ty == 'bytes':
                    return Term('(%s ++ %s)' % (a.code, b.code), 'bytes', binds)
                raise Refuse('binop on %s,%s (line %d)' % (a.ty, b.ty, e.lineno))
            if type(e.op) in BINOPS:
                return Term('(%s %s %s)' % (BINOPS[type(e.op)], a.code, b.code), 'Z', binds)
            if isinstance(e.op, (ast.FloorDiv, ast.Mod)):
                self.fallible = True
                t = self.fresh()
                fn = 'py_div' if isinstance(e.op, ast.FloorDiv) else 'py_mod'
                return Term(t, 'Z', binds + [(t, '%s %s %s' % (fn, a.code, b.code))])
            raise Refuse('binop %s' % type(e.op).__name__)
        if isinstance(e, ast.UnaryOp):
            a = self.expr(e.operand, env)
            if isinstance(e.op, ast.USub) and a.ty == 'Z':
                return Term('(Z.opp %s)' % a.code, 'Z', a.binds)
            if isinstance(e.op, ast.Not) and a.ty == 'bool':
                return Term('(negb %s)' % a.code, 'bool', a.binds)
            if isinstance(e.op, ast.Invert) and a.ty == 'Z':
                return Term('(Z.lnot %s)' % a.code, 'Z', a.binds)
            raise Refuse('unaryop')
        if isinstance(e, ast.BoolOp):
            ts = [self.expr(x, env) for x in e.values]
            if any(t.ty != 'bool' for t in ts):
                raise Refuse('and/or on non-bool (line %d)' % e.lineno)
            if any(t.binds for t in ts[1:]):
                raise Refuse('fallible operand under short-circuit (line %d)' % e.lineno)
            op = ' && ' if isinstance(e.op, ast.And) else ' || '
            return Term('(' + op.join(t.code for t in ts) + ')', 'bool', ts[0].binds)
        if isinstance(e, ast.Compare):
            if len(e.ops) != 1:
                raise Refuse('chained comparison')
            a = self.expr(e.left, env)
            op = e.ops[0]
            if isinstance(op, (ast.In, ast.NotIn)):
                c = e.comparators[0]
                if not isinstance(c, ast.Tuple):
                    raise Refuse('in: non-literal container')
                items = [self.expr(x, env) for x in c.elts]
                eq = self.eqb(a.ty)
                code = '(existsb (%s %s) [%s])' % (eq, a.code, '; '.join(t.code for t in items))
                if isinstance(op, ast.NotIn):
                    code = '(negb %s)' % code
                return Term(code, 'bool', a.binds + sum((t.binds for t in items), []))
            b = self.expr(e.comparators[0], env)
            binds = a.binds + b.binds
            if a.ty != b.ty:
                raise Refuse('comparison of %s with %s (line %d)' % (a.ty, b.ty, e.lineno))
            if isinstance(op, (ast.Eq, ast.NotEq)):
                code = '(%s %s %s)' % (self.eqb(a.ty), a.code, b.code)
                if isinstance(op, ast.NotEq):
                    code = '(negb %s)' % code
                return Term(code, 'bool', binds)
            if a.ty == 'Z' and type(op) in CMPOPS:
                return Term('(%s %s %s)' % (a.code, CMPOPS[type(op)], b.code), 'bool', binds)
            raise Refuse('comparison')
        if isinstance(e, ast.IfExp):
            c = self.expr(e.test, env)
            a = self.expr(e.body, env)
            b = self.expr(e.orelse, env)
            if a.binds or b.binds or c.ty != 'bool' or a.ty != b.ty:
                raise Refuse('ifexp')
            return Term('(if %s then %s else %s)' % (c.code, a.code, b.code), a.ty, c.binds)
        if isinstance(e, ast.Subscript):
            v = self.expr(e.value, env)
            if isinstance(e.slice, ast.Slice):
                if e.slice.step is not None or v.ty != 'bytes':
                    raise Refuse('slice')
                binds = list(v.binds)
                parts = []
                for bnd in (e.slice.lower, e.slice.upper):
                    if bnd is None:
                        parts.append('None')
                    else:
                        t = self.expr(bnd, env)
                        if t.ty != 'Z':
                            raise Refuse('slice bound type')
                        binds += t.binds
                        parts.append('(Some %s)' % t.code)
                return Term('(py_slice %s %s %s)' % (v.code, parts[0], parts[1]), 'bytes', binds)
            if isinstance(v.ty, tuple) and v.ty[0] == 'tup':
                if not (isinstance(e.slice, ast.Constant) and isinstance(e.slice.value, int)):
                    raise Refuse('tuple index must be literal')
                k = e.slice.value
                n = len(v.ty) - 1
                if n != 2 or k not in (0, 1):
                    raise Refuse('only pairs supported')
                return Term('(%s %s)' % ('fst' if k == 0 else 'snd', v.code), v.ty[1 + k], v.binds)
            if v.ty == 'bytes':
                i = self.expr(e.slice, env)
                if i.ty != 'Z':
                    raise Refuse('index type')
                self.fallible = True
                t = self.fresh()
                return Term(t, 'Z', v.binds + i.binds + [(t, 'py_index %s %s' % (v.code, i.code))])
            raise Refuse('subscript on %s' % (v.ty,))
        if isinstance(e, ast.Attribute):
            v = self.expr(e.value, env)
            if v.ty == 'hmac' and e.attr in ('digest_size', 'block_size'):
                return Term('(mac_%s %s)' % ('ds' if e.attr == 'digest_size' else 'bs', v.code), 'Z', v.binds)
            raise Refuse('attribute %s on %s (line %d)' % (e.attr, v.ty, e.lineno))
        if isinstance(e, ast.Call):
            return self.call(e, env)
        raise Refuse('expression %s (line %d)' % (type(e).__name__, getattr(e, 'lineno', 0)))

    def eqb(self, ty):
        if ty == 'Z':
            return 'Z.eqb'
        if ty == 'bool':
            return 'Bool.eqb'
        if ty == 'bytes':
            return 'list_eqb'
        if ty == ('tup', 'Z', 'Z'):
            return 'pairZ_eqb'
        raise Refuse('no equality for %s' % (ty,))

    def call(self, e, env):
        if e.keywords:
            raise Refuse('keyword arguments')
        f = e.func
        if isinstance(f, ast.Attribute):
            o = self.expr(f.value, env)
            if o.ty == 'hmac' and f.attr == 'copy' and not e.args:
                return Term(o.code, 'hmac', o.binds)
            if o.ty == 'hmac' and f.attr == 'digest' and not e.args:
                return Term('(mac_digest %s)' % o.code, 'bytes', o.binds)
            raise Refuse('method %s on %s (line %d)' % (f.attr, o.ty, e.lineno))
        if not isinstance(f, ast.Name):
            raise Refuse('call target')
        name = f.id
        if name == 'bytearray' and len(e.args) == 1 and isinstance(e.args[0], ast.List):
            a0 = e.args[0]
            if len(a0.elts) != 1:
                raise Refuse('bytearray([...]) with != 1 element')
            x = self.expr(a0.elts[0], env)
            if x.ty != 'Z':
                raise Refuse('bytearray([non-int])')
            self.fallible = True
            t = self.fresh()
            return Term(t, 'bytes', x.binds + [(t, 'mk_byte %s' % x.code)])
        args = [self.expr(a, env) for a in e.args]
        binds = sum((a.binds for a in args), [])
        if name in ('max', 'min') and len(args) == 2 and all(a.ty == 'Z' for a in args):
            return Term('(Z.%s %s %s)' % (name, args[0].code, args[1].code), 'Z', binds)
        if name == 'len' and len(args) == 1 and args[0].ty == 'bytes':
            return Term('(zlen %s)' % args[0].code, 'Z', binds)
        if name in ('compatHMAC', 'bytes') and len(args) == 1 and args[0].ty == 'bytes':
            return Term(args[0].code, 'bytes', binds)     # bytes(bytearray) : same byte sequence
        if name == 'bytearray' and len(args) == 1 and args[0].ty == 'bytes':
            return Term(args[0].code, 'bytes', binds)
        if name in self.unit.sigs:
            sig = self.unit.sigs[name]
            ptys = [t for _, t in sig['params']]
            if len(args) != len(ptys):
                raise Refuse('arity of %s' % name)
            for a, t in zip(args, ptys):
                if a.ty != t:
                    raise Refuse('argument type %s vs %s in call of %s' % (a.ty, t, name))
            code = '(%s %s)' % (name, ' '.join(a.code for a in args))
            if self.unit.fallible.get(name):
                self.fallible = True
                t = self.fresh()
                return Term(t, sig['ret'], binds + [(t, code[1:-1])])
            return Term(code, sig['ret'], binds)
        raise Refuse('call of unknown function %s (line %d)' % (name, e.lineno))

    # ---------------------------------------------------------------- stmts
    @staticmethod
    def assigned(stmts):
        out = []
        for s in stmts:
            if isinstance(s, ast.Assign):
                for t in s.targets:
                    if isinstance(t, ast.Name):
                        out.append(t.id)
                    else:
                        raise Refuse('assignment target')
            elif isinstance(s, ast.AugAssign):
                if not isinstance(s.target, ast.Name):
                    raise Refuse('augassign target')
                out.append(s.target.id)
            elif isinstance(s, ast.If):
                out += FnTranslator.assigned(s.body) + FnTranslator.assigned(s.orelse)
            elif isinstance(s, ast.For):
                out += FnTranslator.assigned(s.body)
            elif isinstance(s, ast.Expr) and isinstance(s.value, ast.Call) and \
                    isinstance(s.value.func, ast.Attribute) and s.value.func.attr == 'update' and \
                    isinstance(s.value.func.value, ast.Name):
                out.append(s.value.func.value.id)
        seen = []
        for x in out:
            if x not in seen:
                seen.append(x)
        return seen

    @staticmethod
    def terminates(stmts):
        if not stmts:
            return False
        s = stmts[-1]
        if isinstance(s, (ast.Return, ast.Raise)):
            return True
        if isinstance(s, ast.If):
            return FnTranslator.terminates(s.body) and FnTranslator.terminates(s.orelse)
        return False

    @staticmethod
    def contains_return(stmts):
        for s in stmts:
            for n in ast.walk(s):
                if isinstance(n, (ast.Return, ast.Raise)):
                    return True
        return False

    def wrap(self, binds, body, monadic):
        """prefix monadic binds"""
        for name, code in reversed(binds):
            body = '%s <- %s ;;\n%s' % (name, code, body)
        return body

    def ret(self, code, monadic):
        return ('Ok %s' % code) if monadic else code

    def block(self, stmts, env, k, monadic):
        """Translate stmts followed by continuation k(env) -> code.  `monadic`:
        the code being produced has type res _."""
        if not stmts:
            if k is None:
                raise Refuse('control reaches end of function without return')
            return k(env)
        s, rest = stmts[0], stmts[1:]
        cont = lambda env2: self.block(rest, env2, k, monadic)
        if isinstance(s, ast.Expr) and isinstance(s.value, ast.Constant) and isinstance(s.value.value, str):
            return cont(env)      # docstring
        if isinstance(s, ast.Assign):
            if len(s.targets) != 1 or not isinstance(s.targets[0], ast.Name):
                raise Refuse('assignment form (line %d)' % s.lineno)
            t = self.expr(s.value, env)
            self.need_monad(t.binds, monadic, s)
            env2 = dict(env)
            env2[s.targets[0].id] = t.ty
            return self.wrap(t.binds, 'let %s := %s in\n%s' % (s.targets[0].id, t.code, cont(env2)), monadic)
        if isinstance(s, ast.AugAssign):
            fake = ast.BinOp(left=ast.Name(id=s.target.id, ctx=ast.Load(), lineno=s.lineno), op=s.op,
                             right=s.value, lineno=s.lineno)
            t = self.expr(fake, env)
            self.need_monad(t.binds, monadic, s)
            return self.wrap(t.binds, 'let %s := %s in\n%s' % (s.target.id, t.code, cont(env)), monadic)
        if isinstance(s, ast.Expr) and isinstance(s.value, ast.Call) and \
                isinstance(s.value.func, ast.Attribute) and s.value.func.attr == 'update':
            o = s.value.func.value
            if not (isinstance(o, ast.Name) and env.get(o.id) == 'hmac' and len(s.value.args) == 1):
                raise Refuse('update() form (line %d)' % s.lineno)
            a = self.expr(s.value.args[0], env)
            if a.ty != 'bytes':
                raise Refuse('update() argument type')
            self.need_monad(a.binds, monadic, s)
            return self.wrap(a.binds, 'let %s := mac_update %s %s in\n%s' % (o.id, o.id, a.code, cont(env)), monadic)
        if isinstance(s, ast.Assert):
            c = self.expr(s.test, env)
            if c.ty != 'bool':
                raise Refuse('assert on non-bool')
            self.fallible = True
            self.need_monad([1], monadic, s)
            return self.wrap(c.binds, 'if %s then\n%s\nelse Err AssertionError' % (c.code, cont(env)), monadic)
        if isinstance(s, ast.Return):
            if rest:
                raise Refuse('code after return')
            t = self.expr(s.value, env)
            self.need_monad(t.binds, monadic, s)
            if t.ty != self.sig['ret']:
                raise Refuse('return type %s, declared %s (line %d)' % (t.ty, self.sig['ret'], s.lineno))
            return self.wrap(t.binds, self.ret(t.code, monadic), monadic)
        if isinstance(s, ast.If):
            c = self.expr(s.test, env)
            if c.ty != 'bool':
                raise Refuse('if on non-bool (line %d)' % s.lineno)
            self.need_monad(c.binds, monadic, s)
            tb, te = self.terminates(s.body), self.terminates(s.orelse)
            if tb or te:
                if tb and te:
                    if rest:
                        raise Refuse('code after terminating if')
                    A = self.block(s.body, env, None, monadic)
                    B = self.block(s.orelse, env, None, monadic)
                elif tb:
                    if self.contains_return(s.orelse):
                        raise Refuse('partial return in else (line %d)' % s.lineno)
                    A = self.block(s.body, env, None, monadic)
                    B = self.block(s.orelse + rest, env, k, monadic)
                else:
                    if self.contains_return(s.body):
                        raise Refuse('partial return in then (line %d)' % s.lineno)
                    A = self.block(s.body + rest, env, k, monadic)
                    B = self.block(s.orelse, env, None, monadic)
                return self.wrap(c.binds, 'if %s then (\n%s\n) else (\n%s\n)' % (c.code, A, B), monadic)
            if self.contains_return(s.body) or self.contains_return(s.orelse):
                raise Refuse('partial return inside if (line %d)' % s.lineno)
            # join: thread variables assigned in either branch and defined in both afterwards
            envs = []

            def grab(e2):
                envs.append(e2)
                return '@@JOIN@@'
            A = self.block(s.body, env, grab, monadic)
            B = self.block(s.orelse, env, grab, monadic)
            envA, envB = envs
            common = {v: t for v, t in envA.items() if envB.get(v) == t}
            mod = [v for v in self.assigned(s.body) + self.assigned(s.orelse) if v in common]
            mod = list(dict.fromkeys(mod))
            env2 = dict(env)
            for v in list(env2):
                if v not in common:
                    del env2[v]
            for v in mod:
                env2[v] = common[v]
            if not mod:
                raise Refuse('if without effect (line %d)' % s.lineno)
            tup = mod[0] if len(mod) == 1 else '(' + ', '.join(mod) + ')'
            pat = mod[0] if len(mod) == 1 else "'" + tup
            A = A.replace('@@JOIN@@', self.ret(tup, monadic))
            B = B.replace('@@JOIN@@', self.ret(tup, monadic))
            ite = 'if %s then (\n%s\n) else (\n%s\n)' % (c.code, A, B)
            if monadic:
                body = '%s <- (%s) ;;\n%s' % (pat, ite, cont(env2))
            else:
                body = 'let %s := (%s) in\n%s' % (pat, ite, cont(env2))
            return self.wrap(c.binds, body, monadic)
        if isinstance(s, ast.For):
            if s.orelse or self.contains_return(s.body):
                raise Refuse('for with else/return (line %d)' % s.lineno)
            if not isinstance(s.target, ast.Name):
                raise Refuse('for target')
            it = s.iter
            if not (isinstance(it, ast.Call) and isinstance(it.func, ast.Name) and it.func.id == 'range'
                    and 1 <= len(it.args) <= 2):
                raise Refuse('for over non-range (line %d)' % s.lineno)
            if len(it.args) == 1:
                lo, hi = Term('0', 'Z'), self.expr(it.args[0], env)
            else:
                lo, hi = self.expr(it.args[0], env), self.expr(it.args[1], env)
            if lo.ty != 'Z' or hi.ty != 'Z':
                raise Refuse('range bounds')
            self.need_monad(lo.binds + hi.binds, monadic, s)
            carried = [v for v in self.assigned(s.body) if v in env and v != s.target.id]
            if not carried:
                raise Refuse('loop without carried state (line %d)' % s.lineno)
            tup = carried[0] if len(carried) == 1 else '(' + ', '.join(carried) + ')'
            pat = carried[0] if len(carried) == 1 else "'" + tup
            env_body = dict(env)
            env_body[s.target.id] = 'Z'
            # does the body need the monad?
            save = self.fallible
            self.fallible = False
            try:
                body_pure = self.block(s.body, env_body, lambda e2: tup, False)
                body_fallible = False
            except NeedMonad:
                body_fallible = True
            self.fallible = save or body_fallible
            rng = '(zrange %s %s)' % (lo.code, hi.code)
            if body_fallible:
                self.need_monad([1], monadic, s)
                body = self.block(s.body, env_body, lambda e2: 'Ok ' + tup, True)
                code = '%s <- foldM (fun %s %s =>\n%s) %s %s ;;\n%s' % (
                    pat, pat if len(carried) == 1 else "'" + tup, s.target.id, body, rng, tup, cont(env))
            else:
                code = 'let %s := fold_left (fun %s %s =>\n%s) %s %s in\n%s' % (
                    pat, pat if len(carried) == 1 else "'" + tup, s.target.id, body_pure, rng, tup, cont(env))
            return self.wrap(lo.binds + hi.binds, code, monadic)
        raise Refuse('statement %s (line %d)' % (type(s).__name__, s.lineno))

    def need_monad(self, binds, monadic, node):
        if binds and not monadic:
            raise NeedMonad()

    def translate(self):
        env = dict(self.sig['params'])
        body = self.fdef.body
        try:
            self.fallible = False
            code = self.block(body, env, None, False)
            monadic = False
        except NeedMonad:
            self.tmp = 0
            code = self.block(body, env, None, True)
            monadic = True
        return code, monadic


class NeedMonad(Exception):
    pass


TY = {'Z': 'Z', 'bool': 'bool', 'bytes': 'list Z', 'hmac': 'HMac', ('tup', 'Z', 'Z'): '(Z * Z)'}


def indent(code):
    out, depth = [], 1
    for line in code.split('\n'):
        line = line.strip()
        d = depth
        if line.startswith(')'):
            d -= 1
        out.append('  ' * max(d, 1) + line)
        depth += line.count('(') - line.count(')')
    return '\n'.join(out)


class Unit:
    """A translation unit: a source file and the signatures of the functions to translate
    (in dependency order)."""

    def __init__(self, path, sigs, module_name, requires=()):
        self.path = path
        self.sigs = sigs
        self.module_name = module_name
        self.requires = requires
        self.fallible = {}

    def translate(self):
        with open(self.path) as f:
            src = f.read()
        tree = ast.parse(src)
        fdefs = {n.name: n for n in tree.body if isinstance(n, ast.FunctionDef)}
        out = ['(* GENERATED by translator/pylite.py from %s -- do not edit. *)' % self.path,
               'From Coq Require Import ZArith List Bool.',
               'From TV Require Import Base.Prelude%s.' % ''.join(' ' + r for r in self.requires),
               'Import ListNotations.', 'Open Scope Z_scope.', '']
        for name, sig in self.sigs.items():
            if name not in fdefs:
                raise Refuse('function %s not found in %s' % (name, self.path))
            fd = fdefs[name]
            argnames = [a.arg for a in fd.args.args]
            if argnames != [p for p, _ in sig['params']]:
                raise Refuse('signature of %s changed: %s' % (name, argnames))
            if fd.args.vararg or fd.args.kwarg or fd.args.kwonlyargs:
                raise Refuse('varargs in %s' % name)
            defaults = {}
            for a, d in zip(reversed(fd.args.args), reversed(fd.args.defaults)):
                if not isinstance(d, ast.Constant):
                    raise Refuse('non-constant default')
                defaults[a.arg] = d.value
            ft = FnTranslator(self, fd, sig)
            code, monadic = ft.translate()
            self.fallible[name] = monadic
            params = ' '.join('(%s : %s)' % (p, TY[t]) for p, t in sig['params'])
            rty = TY[sig['ret']]
            if monadic:
                rty = 'res (%s)' % rty if ' ' in rty else 'res %s' % rty
            out.append('(* %s:%d %s%s *)' % (self.path.split('/repo/')[-1], fd.lineno, name,
                                             (' defaults=%r' % defaults) if defaults else ''))
            out.append('Definition %s %s : %s :=\n%s.\n' % (name, params, rty, indent(code)))
            for p, v in defaults.items():
                out.append('Definition %s_default_%s : Z := %d.\n' % (name, p, v))
        return '\n'.join(out)
