"""C09 translation units: symmetric primitives and KDFs regenerated into coq/Gen/C09_*.v."""
import os
import sys

sys.path.insert(0, os.path.dirname(os.path.abspath(__file__)))
from pylite import Refuse  # noqa: E402
from pylite_c09 import Module9, ClassInfo, FnSig, LZ  # noqa: E402

REPO = os.path.realpath(os.environ.get('VERIF_REPO', '/repo'))
U = 'tlslite/utils/'


def divceil_item():
    return (FnSig('divceil', 'divceil', [('divident', 'Z'), ('divisor', 'Z')], 'Z'), U + 'cryptomath.py')


def poly1305_unit():
    cls = ClassInfo('Poly1305', 'tlslite.utils.poly1305', 'Poly1305', 'poly_',
                    [('acc', 'Z'), ('r', 'Z'), ('s', 'Z')])
    p = U + 'poly1305.py'
    items = [
        divceil_item(),
        cls,
        (FnSig('Poly1305.le_bytes_to_num', 'poly_le_bytes_to_num', [('data', 'bytes')], 'Z'), p),
        (FnSig('Poly1305.num_to_16_le_bytes', 'poly_num_to_16_le_bytes', [('num', 'Z')], 'bytes'), p),
        (FnSig('Poly1305.__init__', 'poly_init', [('key', 'bytes')], 'None'), p),
        (FnSig('Poly1305.create_tag', 'poly_create_tag', [('data', 'bytes')], 'bytes'), p),
    ]
    return Module9('C09_Poly1305', REPO, items)


def chacha_unit():
    cls = ClassInfo('ChaCha', 'tlslite.utils.chacha', 'ChaCha', 'cha_',
                    [('key', LZ), ('nonce', LZ), ('counter', 'Z'), ('rounds', 'Z')])
    p = U + 'chacha.py'
    items = [
        cls,
        (FnSig('ChaCha.rotl32', 'cha_rotl32', [('v', 'Z'), ('c', 'Z')], 'Z'), p),
        (FnSig('ChaCha.quarter_round', 'cha_quarter_round',
               [('x', LZ), ('a', 'Z'), ('b', 'Z'), ('c', 'Z'), ('d', 'Z')], 'None', mutates=['x']), p),
        (FnSig('ChaCha.double_round', 'cha_double_round', [('x', LZ)], 'None', mutates=['x']), p),
        (FnSig('ChaCha.chacha_block', 'cha_chacha_block',
               [('key', LZ), ('counter', 'Z'), ('nonce', LZ), ('rounds', 'Z')], LZ), p),
        (FnSig('ChaCha.word_to_bytearray', 'cha_word_to_bytearray', [('state', LZ)], 'bytes'), p),
        (FnSig('ChaCha._bytearray_to_words', 'cha_bytearray_to_words', [('data', 'bytes')], LZ), p),
        (FnSig('ChaCha.__init__', 'cha_init',
               [('key', 'bytes'), ('nonce', 'bytes'), ('counter', 'Z'), ('rounds', 'Z')], 'None'), p),
        (FnSig('ChaCha.encrypt', 'cha_encrypt', [('plaintext', 'bytes')], 'bytes'), p),
        (FnSig('ChaCha.decrypt', 'cha_decrypt', [('ciphertext', 'bytes')], 'bytes'), p),
    ]
    return Module9('C09_ChaCha', REPO, items)


def chachapoly_unit():
    cls = ClassInfo('CHACHA20_POLY1305', 'tlslite.utils.chacha20_poly1305', 'ChaChaPoly', 'cp_',
                    [('key', 'bytes')],
                    ignore=['isBlockCipher', 'isAEAD', 'nonceLength', 'tagLength', 'implementation', 'name'])
    p = U + 'chacha20_poly1305.py'
    items = [
        cls,
        (FnSig('CHACHA20_POLY1305.__init__', 'cp_init', [('key', 'bytes'), ('implementation', 'str')], 'None'), p),
        (FnSig('CHACHA20_POLY1305.poly1305_key_gen', 'cp_poly1305_key_gen', [('key', 'bytes'), ('nonce', 'bytes')], 'bytes'), p),
        (FnSig('CHACHA20_POLY1305.pad16', 'cp_pad16', [('data', 'bytes')], 'bytes'), p),
        (FnSig('CHACHA20_POLY1305.seal', 'cp_seal', [('nonce', 'bytes'), ('plaintext', 'bytes'), ('data', 'bytes')], 'bytes'), p),
        (FnSig('CHACHA20_POLY1305.open', 'cp_open', [('nonce', 'bytes'), ('ciphertext', 'bytes'), ('data', 'bytes')],
               ('opt', 'bytes')), p),
    ]
    return Module9('C09_ChaChaPoly', REPO, items, requires=['Gen.C09_Poly1305', 'Gen.C09_ChaCha'],
                   uses=[poly1305_unit, chacha_unit])


KDF_BUILTINS = {
    # hashlib / hmac enter as oracles (Base/C09_Oracle.v)
    'secureHMAC': ('o_hmac Orc {2} {0} {1}', ['bytes', 'bytes', 'str'], 'bytes', False),
    'secureHash': ('o_hash Orc {1} {0}', ['bytes', 'str'], 'bytes', False),
    'MD5': ('o_hash Orc "md5"%string {0}', ['bytes'], 'bytes', False),
    'SHA1': ('o_hash Orc "sha1"%string {0}', ['bytes'], 'bytes', False),
}


def kdf_unit():
    c, m = U + 'cryptomath.py', 'tlslite/mathtls.py'
    items = [
        divceil_item(),
        (FnSig('HKDF_expand', 'HKDF_expand', [('PRK', 'bytes'), ('info', 'bytes'), ('L', 'Z'), ('algorithm', 'str')], 'bytes'), c),
        (FnSig('P_hash', 'P_hash', [('mac_name', 'str'), ('secret', 'bytes'), ('seed', 'bytes'), ('length', 'Z')], 'bytes',
               fuel={0: 'length + 1'}), m),
        (FnSig('PRF', 'PRF', [('secret', 'bytes'), ('label', 'bytes'), ('seed', 'bytes'), ('length', 'Z')], 'bytes'), m),
        (FnSig('PRF_1_2', 'PRF_1_2', [('secret', 'bytes'), ('label', 'bytes'), ('seed', 'bytes'), ('length', 'Z')], 'bytes'), m),
        (FnSig('PRF_1_2_SHA384', 'PRF_1_2_SHA384', [('secret', 'bytes'), ('label', 'bytes'), ('seed', 'bytes'), ('length', 'Z')], 'bytes'), m),
    ]
    return Module9('C09_KDF', REPO, items, builtins=KDF_BUILTINS, oracle=True)


def rc4_unit():
    base = ClassInfo('RC4', 'tlslite.utils.rc4', 'RC4Base', 'rc4b_', [],
                     ignore=['isBlockCipher', 'isAEAD', 'name', 'implementation'])
    cls = ClassInfo('Python_RC4', 'tlslite.utils.python_rc4', 'RC4', 'rc4_',
                    [('S', LZ), ('i', 'Z'), ('j', 'Z')], base='RC4')
    p = U + 'python_rc4.py'
    items = [
        base,
        (FnSig('RC4.__init__', 'rc4_base_init', [('keyBytes', 'bytes'), ('implementation', 'str')], 'None', kind='guard'), U + 'rc4.py'),
        cls,
        (FnSig('Python_RC4.__init__', 'rc4_init', [('keyBytes', 'bytes')], 'None'), p),
        (FnSig('Python_RC4.encrypt', 'rc4_encrypt', [('plaintextBytes', 'bytes')], 'bytes'), p),
        (FnSig('Python_RC4.decrypt', 'rc4_decrypt', [('ciphertext', 'bytes')], 'bytes'), p),
    ]
    return Module9('C09_RC4', REPO, items)


BLOCK_FM = {
    # self.rijndael is the key; the block function itself is an oracle (Base/C09_Oracle.v BlockOracle)
    ('rijndael', 'encrypt'): ('bo_enc Orc {self} {0}', ['bytes'], 'bytes', False),
    ('rijndael', 'decrypt'): ('bo_dec Orc {self} {0}', ['bytes'], 'bytes', False),
}


def aesmodes_unit():
    base = ClassInfo('AES', 'tlslite.utils.aes', 'AESBase', 'aesb_', [],
                     ignore=['isBlockCipher', 'isAEAD', 'block_size', 'implementation', 'name'])
    cbc = ClassInfo('Python_AES', 'tlslite.utils.python_aes', 'AESCBC', 'cbc_',
                    [('rijndael', 'bytes'), ('IV', 'bytes')], base='AES', field_methods=BLOCK_FM)
    ctr = ClassInfo('Python_AES_CTR', 'tlslite.utils.python_aes', 'AESCTR', 'ctr_',
                    [('rijndael', 'bytes'), ('IV', 'bytes'), ('_counter_bytes', 'Z'), ('_counter', 'bytes'), ('_keystream', 'bytes')],
                    base='AES', field_methods=BLOCK_FM, props={'counter': '_counter'})
    p, a = U + 'python_aes.py', U + 'aes.py'
    items = [
        base,
        (FnSig('AES.__init__', 'aes_base_init', [('key', 'bytes'), ('mode', 'Z'), ('IV', 'bytes'), ('implementation', 'str')], 'None', kind='guard'), a),
        (FnSig('AES.encrypt', 'aes_base_encrypt', [('plaintext', 'bytes')], 'None', kind='guard'), a),
        (FnSig('AES.decrypt', 'aes_base_decrypt', [('ciphertext', 'bytes')], 'None', kind='guard'), a),
        cbc,
        (FnSig('Python_AES.__init__', 'cbc_init', [('key', 'bytes'), ('mode', 'Z'), ('IV', 'bytes')], 'None'), p),
        (FnSig('Python_AES.encrypt', 'cbc_encrypt', [('plaintext', 'bytes')], 'bytes'), p),
        (FnSig('Python_AES.decrypt', 'cbc_decrypt', [('ciphertext', 'bytes')], 'bytes'), p),
        ctr,
        (FnSig('Python_AES_CTR.__init__', 'ctr_init', [('key', 'bytes'), ('mode', 'Z'), ('IV', 'bytes')], 'None'), p),
        (FnSig('Python_AES_CTR.counter@setter', 'ctr_set_counter', [('ctr', 'bytes')], 'None'), p),
        (FnSig('Python_AES_CTR._counter_update', 'ctr_counter_update', [], 'None'), p),
        (FnSig('Python_AES_CTR.encrypt', 'ctr_encrypt', [('plaintext', 'bytes')], 'bytes', fuel={0: 'len(plaintext) + 1'}), p),
        (FnSig('Python_AES_CTR.decrypt', 'ctr_decrypt', [('ciphertext', 'bytes')], 'bytes'), p),
    ]
    return Module9('C09_AesModes', REPO, items, oracle='BlockOracle',
                   builtins={'Rijndael': ('mk_rijndael {0} {1}', ['bytes', 'Z'], 'bytes', True)})


RAW_FM = {('_rawAesEncrypt', None): ('bo_enc Orc {key} {0}', ['bytes'], 'bytes', False)}


def gcm_unit():
    cls = ClassInfo('AESGCM', 'tlslite.utils.aesgcm', 'AESGCM', 'gcm_',
                    [('key', 'bytes'), ('_ctr', ('obj', 'AESCTR')), ('_productTable', LZ)],
                    ignore=['isBlockCipher', 'isAEAD', 'nonceLength', 'tagLength', 'implementation', 'name', '_rawAesEncrypt'],
                    field_methods=RAW_FM)
    p = U + 'aesgcm.py'
    items = [
        cls,
        (FnSig('AESGCM._reverseBits', 'gcm_reverseBits', [('i', 'Z')], 'Z'), p),
        (FnSig('AESGCM._gcmAdd', 'gcm_gcmAdd', [('x', 'Z'), ('y', 'Z')], 'Z'), p),
        (FnSig('AESGCM._gcmShift', 'gcm_gcmShift', [('x', 'Z')], 'Z'), p),
        (FnSig('AESGCM.__init__', 'gcm_init', [('key', 'bytes'), ('implementation', 'str'), ('rawAesEncrypt', 'Z')], 'None'), p),
        (FnSig('AESGCM._mul', 'gcm_mul', [('y', 'Z')], 'Z'), p),
        (FnSig('AESGCM._update', 'gcm_update', [('y', 'Z'), ('data', 'bytes')], 'Z'), p),
        (FnSig('AESGCM._auth', 'gcm_auth', [('ciphertext', 'bytes'), ('ad', 'bytes'), ('tagMask', 'bytes')], 'bytes'), p),
        (FnSig('AESGCM.seal', 'gcm_seal', [('nonce', 'bytes'), ('plaintext', 'bytes'), ('data', 'bytes')], 'bytes'), p),
        (FnSig('AESGCM.open', 'gcm_open', [('nonce', 'bytes'), ('ciphertext', 'bytes'), ('data', 'bytes')], ('opt', 'bytes')), p),
    ]
    return Module9('C09_GCM', REPO, items, requires=['Gen.C09_AesModes'], uses=[aesmodes_unit], oracle='BlockOracle')


def ccm_unit():
    cls = ClassInfo('AESCCM', 'tlslite.utils.aesccm', 'AESCCM', 'ccm_',
                    [('key', 'bytes'), ('tagLength', 'Z'), ('_ctr', ('obj', 'AESCTR')), ('_cbc', ('obj', 'AESCBC'))],
                    ignore=['isBlockCipher', 'isAEAD', 'nonceLength', 'implementation', 'name'])
    p = U + 'aesccm.py'
    items = [
        cls,
        (FnSig('AESCCM._pad_with_zeroes', 'ccm_pad_with_zeroes', [('data', 'bytes'), ('size', 'Z')], 'None', mutates=['data']), p),
        (FnSig('AESCCM.__init__', 'ccm_init',
               [('key', 'bytes'), ('implementation', 'str'), ('rawAesEncrypt', 'Z'), ('tag_length', 'Z')], 'None'), p),
        (FnSig('AESCCM._cbcmac_calc', 'ccm_cbcmac_calc', [('nonce', 'bytes'), ('aad', 'bytes'), ('msg', 'bytes')], 'bytes'), p),
        (FnSig('AESCCM.seal', 'ccm_seal', [('nonce', 'bytes'), ('msg', 'bytes'), ('aad', 'bytes')], 'bytes'), p),
        (FnSig('AESCCM.open', 'ccm_open', [('nonce', 'bytes'), ('ciphertext', 'bytes'), ('aad', 'bytes')], ('opt', 'bytes')), p),
    ]
    return Module9('C09_CCM', REPO, items, requires=['Gen.C09_AesModes'], uses=[aesmodes_unit], oracle='BlockOracle')


UNITS = {
    'C09_GCM': gcm_unit,
    'C09_CCM': ccm_unit,
    'C09_RC4': rc4_unit,
    'C09_AesModes': aesmodes_unit,
    'C09_KDF': kdf_unit,
    'C09_ChaChaPoly': chachapoly_unit,
    'C09_Poly1305': poly1305_unit,
    'C09_ChaCha': chacha_unit,
}


def fallibility(names):
    """{Gallina function name: True if it returns `res _`} for the given units (the harness needs it to compare
    values: a rewrite can turn a fallible helper into a pure one and vice versa)"""
    out = {}
    for n in names:
        try:
            m = UNITS[n]()
            m.translate()
        except (Refuse, SyntaxError):
            continue
        for fs in m.funcs.values():
            out[fs.gname] = bool(fs.fallible)
    return out


def generate(name, coq_dir):
    """Returns (ok, message).  Writes coq/Gen/<name>.v when the text changed."""
    from vlib import write_if_changed
    path = os.path.join(coq_dir, 'Gen', name + '.v')
    try:
        text = UNITS[name]().translate()
    except Refuse as e:
        try:
            os.unlink(path)         # never leave a stale model behind
        except OSError:
            pass
        return False, 'translator refused %s: %s' % (name, e)
    except SyntaxError as e:
        return False, 'source does not parse: %s' % e
    write_if_changed(path, text + '\n')
    return True, path


if __name__ == '__main__':
    sys.path.insert(0, os.path.join(os.path.dirname(os.path.abspath(__file__)), '..', 'harness'))
    for n in sys.argv[1:] or UNITS:
        print(generate(n, os.path.join(os.path.dirname(os.path.abspath(__file__)), '..', 'coq')))
