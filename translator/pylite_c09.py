"""PyLite-C09: extension of translator/pylite.py (same conventions, same fail-closed rule)
for the small stateful classes and loops of tlslite's symmetric primitives.

Additions to the PyLite subset (semantics trusted, validated on every run by evaluating the
generated Gallina against the Python code; see harness/props/C09.py):

  classes         -> a Record per class (declared fields only; other `self.x = ...` must be in
                     the unit's explicit ignore list); inside a method every field is the local
                     `self_<f>`; a method that assigns a field returns the new record first
                     (state passing by value); `__init__` returns the record
  class constants -> resolved by importing /repo's module at translation time, emitted as literals
  list of ints    -> list Z;  x[i] = v -> py_store (IndexError), bytearray store checks the byte
                     range (ValueError);  x[a:b] = v -> py_slice_assign;  x[:] -> copy (identity on values)
  a, b = b, a     -> right-hand sides first, then stores left to right
  [e]*n, b'..'*n  -> py_repeat;  bytearray(n) -> py_zeros (ValueError if n < 0)
  bytearray(it)   -> mk_bytes (ValueError unless every element is in 0..255)
  range(a,b,s)    -> py_range (literal non-zero step);  enumerate(x) -> py_enumerate;  zip/izip -> combine;
                     reversed(x) -> rev x (only as an iterable)
  [e for p in it] -> map / mapM;  generator expressions likewise (only as arguments)
  for p in it     -> fold over the list; tuple targets allowed
  while c: body   -> while_fuel with the fuel expression given by the unit (OutOfFuel when exhausted;
                     theorems must exclude it)
  x % k, x // k   -> Z.modulo / Z.div when k is a positive literal (Python floor semantics), else py_mod/py_div
  struct.pack('<L'*n, *w) -> pack_le32s n w; struct.unpack('<L', b) -> unpack_le32; pack('<Q', n) -> pack_le64
  divmod, int(bool(x)), truthiness of ints/sequences in `if`
  f(x) mutating its argument -> returns the new argument value, rebound at the call site
  raise E(...)    -> Err E;   return None / value for Optional results -> option

Value semantics and aliasing.  Sequences are translated BY VALUE.  That is sound only if no two live references to one
mutable bytearray/list are used to observe each other's in-place updates.  The translator therefore REFUSES (fail closed):
  * a class in which a field that receives a caller-owned sequence without copying (`self.f = param`, directly or in a
    property setter) is also updated in place by any method (`self.f[i] = ...`, slice assignment, extend/append, or through
    a local alias of the field);
  * a method that hands a local sequence to a field / property (`self.f = x`, `self.obj.prop = x`) and mutates `x` in place
    afterwards.
The one aliasing pattern that is modelled is `x = self.f` followed by in-place stores through `x` (x is replaced by self.f).
"""
import ast
import importlib
import os

from pylite import FnTranslator, Refuse, Term, NeedMonad, indent, BINOPS, CMPOPS

EXN = {'ValueError': 'ValueError', 'AssertionError': 'AssertionError', 'IndexError': 'IndexError',
       'TypeError': 'TypeError', 'KeyError': 'KeyError', 'OverflowError': 'OverflowError',
       'NotImplementedError': 'NotImplementedError'}
LZ = ('list', 'Z')


def ty_str(t):
    if t == 'Z':
        return 'Z'
    if t == 'bool':
        return 'bool'
    if t == 'bytes':
        return 'list Z'
    if t == 'str':
        return 'string'
    if t == 'hmac':
        return 'HMac'
    if isinstance(t, tuple):
        if t[0] == 'list':
            return 'list (%s)' % ty_str(t[1])
        if t[0] == 'tup':
            return '(' + ' * '.join(ty_str(x) for x in t[1:]) + ')'
        if t[0] == 'opt':
            return 'option (%s)' % ty_str(t[1])
        if t[0] == 'obj':
            return t[1]
        if t[0] == 'raw':
            return t[1]
    raise Refuse('no Gallina type for %r' % (t,))


def is_seq(t):
    return t == 'bytes' or (isinstance(t, tuple) and t[0] == 'list')


def elt(t):
    return 'Z' if t == 'bytes' else t[1]


def const_lit(v):
    """Python constant (int / bytes / list / tuple of those) -> (code, type)"""
    if isinstance(v, bool):
        return ('true' if v else 'false'), 'bool'
    if isinstance(v, int):
        return (str(v) if v >= 0 else '(%d)' % v), 'Z'
    if isinstance(v, (bytes, bytearray)):
        return '[' + '; '.join(str(b) for b in v) + ']', 'bytes'
    if isinstance(v, str):
        return '"%s"%%string' % v.replace('"', '""'), 'str'
    if isinstance(v, tuple):
        parts = [const_lit(x) for x in v]
        return '(' + ', '.join(p[0] for p in parts) + ')', ('tup',) + tuple(p[1] for p in parts)
    if isinstance(v, list):
        parts = [const_lit(x) for x in v]
        tys = set(p[1] for p in parts)
        if len(tys) > 1:
            raise Refuse('heterogeneous constant list')
        t = tys.pop() if tys else 'Z'
        return '[' + '; '.join(p[0] for p in parts) + ']', ('list', t)
    raise Refuse('constant of type %s' % type(v).__name__)


class ClassInfo:
    def __init__(self, pyname, module, rec, prefix, fields, ignore=(), base=None, field_methods=None, props=None):
        self.base = base                          # python name of the base class whose methods are called via super()
        self.field_methods = field_methods or {}  # (field, method) -> (template, arg types, result type, fallible)
        self.props = props or {}                  # property name -> field name
        self.pyname, self.module, self.rec, self.prefix = pyname, module, rec, prefix
        self.fields = list(fields)            # [(name, ty)]
        self.alias_fields = {}                # field -> where a caller-owned sequence is stored without copying
        self.inplace_fields = {}              # field -> where it is updated in place
        self.ignore = set(ignore)
        self.pyobj = None

    def ftype(self, f):
        for n, t in self.fields:
            if n == f:
                return t
        return None

    def mk(self, codes):
        return '(mk%s %s)' % (self.rec, ' '.join(codes))


class FnSig:
    def __init__(self, qual, gname, params, ret, mutates=(), fuel=None, cls=None, kind='function'):
        self.qual = qual              # 'func' or 'Class.method'
        self.gname = gname
        self.params = list(params)    # [(name, ty)] without self/cls
        self.ret = ret                # type or 'None'
        self.mutates = list(mutates)
        self.fuel = fuel or {}        # {lineno-order index: python expr string}
        self.cls = cls                # ClassInfo or None
        self.kind = kind              # function | static | classm | method | init
        self.mut_self = False
        self.fallible = False
        self.defaults = {}
        self.oracle = False

    def out_types(self):
        outs = []
        if self.kind == 'init':
            return [('obj', self.cls.rec)]
        if self.kind == 'guard':
            return []
        if self.mut_self:
            outs.append(('obj', self.cls.rec))
        ptys = dict(self.params)
        outs += [ptys[m] for m in self.mutates]
        if self.ret != 'None':
            outs.append(self.ret)
        return outs


class Fn9(FnTranslator):
    def __init__(self, mod, fdef, fs):
        FnTranslator.__init__(self, mod, fdef, {'params': fs.params, 'ret': fs.ret})
        self.mod = mod
        self.fs = fs
        self.cls = fs.cls
        self.nwhile = 0
        self.nest = 0
        self.param_alias = set()
        self.lent = {}

    # ------------------------------------------------------------ helpers
    def classref(self, node):
        """node is Name self/cls/ClassName -> ClassInfo or None"""
        if isinstance(node, ast.Name):
            if node.id in ('self', 'cls') and self.cls is not None:
                return self.cls
            return self.mod.classes.get(node.id)
        return None

    def self_record(self, env):
        codes = []
        for f, t in self.cls.fields:
            if env.get('self_' + f) != t:
                raise Refuse('field %s not (yet) defined with type %s' % (f, t))
            codes.append('self_' + f)
        return self.cls.mk(codes)

    def truth(self, t, node):
        if t.ty == 'bool':
            return t
        if t.ty == 'Z':
            return Term('(z_true %s)' % t.code, 'bool', t.binds)
        if is_seq(t.ty):
            return Term('(l_true %s)' % t.code, 'bool', t.binds)
        raise Refuse('truth value of %r (line %d)' % (t.ty, node.lineno))

    def eqb(self, ty):
        if ty == LZ:
            return 'list_eqb'
        if ty == 'str':
            return 'String.eqb'
        return FnTranslator.eqb(self, ty)

    def const_int(self, e):
        """literal integer value of an expression, or None"""
        if isinstance(e, ast.Constant) and isinstance(e.value, int) and not isinstance(e.value, bool):
            return e.value
        if isinstance(e, ast.UnaryOp) and isinstance(e.op, ast.USub):
            v = self.const_int(e.operand)
            return None if v is None else -v
        if isinstance(e, ast.BinOp):
            a, b = self.const_int(e.left), self.const_int(e.right)
            if a is None or b is None:
                return None
            if isinstance(e.op, ast.Pow) and b >= 0:
                return a ** b
            if isinstance(e.op, ast.Sub):
                return a - b
            if isinstance(e.op, ast.Add):
                return a + b
            if isinstance(e.op, ast.Mult):
                return a * b
            if isinstance(e.op, ast.LShift) and b >= 0:
                return a << b
        return None

    # ------------------------------------------------------------ expressions
    def expr(self, e, env):
        if isinstance(e, ast.Constant):
            if isinstance(e.value, (bytes, str)) or e.value is None:
                if e.value is None:
                    return Term('None', 'NoneType')
                c, t = const_lit(e.value)
                return Term(c, t)
            return FnTranslator.expr(self, e, env)
        ci = self.const_int(e)
        if ci is not None and not isinstance(e, ast.Constant):
            return Term(str(ci) if ci >= 0 else '(%d)' % ci, 'Z')
        if isinstance(e, ast.Name):
            if e.id in env:
                return Term(e.id, env[e.id])
            if ('', e.id) in self.mod.funcs:
                return Term(e.id, ('fn', ('', e.id)))
            if e.id in self.mod.consts:
                c, t = const_lit(self.mod.consts[e.id])
                return Term(c, t)
            raise Refuse('unbound or maybe-undefined variable %s (line %d)' % (e.id, e.lineno))
        if isinstance(e, ast.Attribute) and e.attr == 'digest_size' and isinstance(e.value, ast.Call) and not e.value.args \
                and isinstance(e.value.func, ast.Call) and isinstance(e.value.func.func, ast.Name) \
                and e.value.func.func.id == 'getattr' and len(e.value.func.args) == 2 \
                and isinstance(e.value.func.args[0], ast.Name) and e.value.func.args[0].id == 'hashlib':
            a = self.expr(e.value.func.args[1], env)           # getattr(hashlib, alg)().digest_size
            if a.ty != 'str':
                raise Refuse('getattr(hashlib, non-str)')
            self.fallible = True
            t = self.fresh()
            return Term(t, 'Z', a.binds + [(t, 'py_digest_size %s' % a.code)])
        if isinstance(e, ast.Attribute):
            ci = self.classref(e.value)
            if ci is not None:
                if isinstance(e.value, ast.Name) and e.value.id == 'self' and e.attr in ci.props:
                    e = ast.copy_location(ast.Attribute(value=e.value, attr=ci.props[e.attr], ctx=e.ctx), e)
                if isinstance(e.value, ast.Name) and e.value.id == 'self' and ci.ftype(e.attr) is not None:
                    nm = 'self_' + e.attr
                    if nm not in env:
                        raise Refuse('self.%s read before assignment (line %d)' % (e.attr, e.lineno))
                    return Term(nm, env[nm])
                if (ci.pyname, e.attr) in self.mod.funcs:
                    return Term(e.attr, ('fn', (ci.pyname, e.attr)))
                if e.attr in ci.pyobj.__dict__ and not callable(ci.pyobj.__dict__[e.attr]):
                    c, t = const_lit(ci.pyobj.__dict__[e.attr])
                    return Term(c, t)
                raise Refuse('attribute %s.%s does not resolve (line %d)' % (ci.pyname, e.attr, e.lineno))
            v = self.expr(e.value, env)
            if v.ty == 'hmac':
                return FnTranslator.expr(self, e, env)
            if isinstance(v.ty, tuple) and v.ty[0] == 'obj':
                oc = self.mod.class_by_rec(v.ty[1])
                ft = oc.ftype(e.attr)
                if ft is None:
                    raise Refuse('field %s of %s' % (e.attr, oc.pyname))
                return Term('(%s%s %s)' % (oc.prefix, e.attr, v.code), ft, v.binds)
            raise Refuse('attribute %s on %r (line %d)' % (e.attr, v.ty, e.lineno))
        if isinstance(e, ast.List):
            ts = [self.expr(x, env) for x in e.elts]
            tys = set(t.ty for t in ts)
            if len(tys) > 1:
                raise Refuse('heterogeneous list (line %d)' % e.lineno)
            t = tys.pop() if tys else 'Z'
            if not ts:
                return Term('(@nil Z)', ('list', 'Z'))
            return Term('[' + '; '.join(x.code for x in ts) + ']', ('list', t), sum((x.binds for x in ts), []))
        if isinstance(e, ast.BinOp):
            return self.binop(e, env)
        if isinstance(e, ast.UnaryOp) and isinstance(e.op, ast.Not):
            a = self.truth(self.expr(e.operand, env), e)
            return Term('(negb %s)' % a.code, 'bool', a.binds)
        if isinstance(e, ast.Compare) and len(e.ops) == 1 and isinstance(e.ops[0], (ast.Is, ast.IsNot)):
            raise Refuse('is/is not (line %d)' % e.lineno)
        if isinstance(e, ast.Compare) and len(e.ops) == 1 and isinstance(e.ops[0], (ast.In, ast.NotIn)) \
                and isinstance(e.comparators[0], ast.List):
            e2 = ast.Compare(left=e.left, ops=e.ops, comparators=[ast.Tuple(elts=e.comparators[0].elts, ctx=ast.Load())])
            ast.copy_location(e2, e)
            return FnTranslator.expr(self, e2, env)
        if isinstance(e, ast.Subscript):
            return self.subscript(e, env)
        if isinstance(e, (ast.ListComp, ast.GeneratorExp)):
            return self.comprehension(e, env)
        if isinstance(e, ast.IfExp):
            c = self.truth(self.expr(e.test, env), e)
            a = self.expr(e.body, env)
            b = self.expr(e.orelse, env)
            if a.binds or b.binds or a.ty != b.ty:
                raise Refuse('ifexp (line %d)' % e.lineno)
            return Term('(if %s then %s else %s)' % (c.code, a.code, b.code), a.ty, c.binds)
        return FnTranslator.expr(self, e, env)

    def binop(self, e, env):
        a = self.expr(e.left, env)
        b = self.expr(e.right, env)
        binds = a.binds + b.binds
        if isinstance(e.op, ast.Add) and is_seq(a.ty) and a.ty == b.ty:
            return Term('(%s ++ %s)' % (a.code, b.code), a.ty, binds)
        if isinstance(e.op, ast.Mult) and is_seq(a.ty) and b.ty == 'Z':
            return Term('(py_repeat %s %s)' % (a.code, b.code), a.ty, binds)
        if a.ty == 'bool' and b.ty == 'Z':
            a = Term('(Z.b2z %s)' % a.code, 'Z', a.binds)
        if b.ty == 'bool' and a.ty == 'Z':
            b = Term('(Z.b2z %s)' % b.code, 'Z', b.binds)
        if a.ty != 'Z' or b.ty != 'Z':
            raise Refuse('binop on %r,%r (line %d)' % (a.ty, b.ty, e.lineno))
        if type(e.op) in BINOPS:
            return Term('(%s %s %s)' % (BINOPS[type(e.op)], a.code, b.code), 'Z', binds)
        if isinstance(e.op, (ast.FloorDiv, ast.Mod)):
            k = self.const_int(e.right)
            if k is None:
                # a class/module constant that resolved to a literal
                try:
                    k = int(b.code)
                except ValueError:
                    k = None
            if k is not None and k > 0:
                fn = 'Z.div' if isinstance(e.op, ast.FloorDiv) else 'Z.modulo'
                return Term('(%s %s %s)' % (fn, a.code, b.code), 'Z', binds)
            self.fallible = True
            t = self.fresh()
            fn = 'py_div' if isinstance(e.op, ast.FloorDiv) else 'py_mod'
            return Term(t, 'Z', binds + [(t, '%s %s %s' % (fn, a.code, b.code))])
        raise Refuse('binop %s (line %d)' % (type(e.op).__name__, e.lineno))

    def slice_parts(self, sl, env):
        binds, parts = [], []
        if sl.step is not None:
            raise Refuse('slice step')
        for bnd in (sl.lower, sl.upper):
            if bnd is None:
                parts.append('None')
            else:
                t = self.expr(bnd, env)
                if t.ty != 'Z':
                    raise Refuse('slice bound type')
                binds += t.binds
                parts.append('(Some %s)' % t.code)
        return parts, binds

    def subscript(self, e, env):
        v = self.expr(e.value, env)
        if isinstance(e.slice, ast.Slice):
            if not is_seq(v.ty):
                raise Refuse('slice of %r' % (v.ty,))
            if e.slice.lower is None and e.slice.upper is None and e.slice.step is None:
                return Term(v.code, v.ty, v.binds)          # x[:] : a copy, same value
            parts, binds = self.slice_parts(e.slice, env)
            return Term('(py_slice %s %s %s)' % (v.code, parts[0], parts[1]), v.ty, v.binds + binds)
        if is_seq(v.ty):
            i = self.expr(e.slice, env)
            if i.ty != 'Z':
                raise Refuse('index type')
            self.fallible = True
            t = self.fresh()
            return Term(t, elt(v.ty), v.binds + i.binds + [(t, 'py_index %s %s' % (v.code, i.code))])
        return FnTranslator.expr(self, e, env)

    def iter_term(self, it, env):
        """iterable expression -> Term of list type"""
        if isinstance(it, ast.Call) and isinstance(it.func, ast.Name) and it.func.id == 'range' and not it.keywords:
            args = [self.expr(a, env) for a in it.args]
            if any(a.ty != 'Z' for a in args) or not 1 <= len(args) <= 3:
                raise Refuse('range arguments')
            binds = sum((a.binds for a in args), [])
            if len(args) == 1:
                return Term('(zrange 0 %s)' % args[0].code, LZ, binds)
            if len(args) == 2:
                return Term('(zrange %s %s)' % (args[0].code, args[1].code), LZ, binds)
            st = self.const_int(it.args[2])
            if st is None or st == 0:
                raise Refuse('range step must be a non-zero literal')
            return Term('(py_range %s %s %s)' % (args[0].code, args[1].code, args[2].code), LZ, binds)
        if isinstance(it, ast.Call) and isinstance(it.func, ast.Name) and it.func.id == 'enumerate' and len(it.args) == 1:
            x = self.iter_term(it.args[0], env)
            return Term('(py_enumerate %s)' % x.code, ('list', ('tup', 'Z', elt(x.ty))), x.binds)
        if isinstance(it, ast.Call) and isinstance(it.func, ast.Name) and it.func.id in ('zip', 'izip') and len(it.args) == 2:
            x = self.iter_term(it.args[0], env)
            y = self.iter_term(it.args[1], env)
            return Term('(combine %s %s)' % (x.code, y.code), ('list', ('tup', elt(x.ty), elt(y.ty))), x.binds + y.binds)
        if isinstance(it, ast.Call) and isinstance(it.func, ast.Name) and it.func.id == 'reversed' and len(it.args) == 1 \
                and not it.keywords:
            x = self.iter_term(it.args[0], env)
            return Term('(rev %s)' % x.code, x.ty if x.ty == 'bytes' else ('list', elt(x.ty)), x.binds)
        t = self.expr(it, env)
        if not is_seq(t.ty):
            raise Refuse('iteration over %r (line %d)' % (t.ty, it.lineno))
        return t

    def pattern(self, tgt, ety, env):
        """loop/comprehension target -> (pattern code, env additions)"""
        if isinstance(tgt, ast.Name):
            return tgt.id, {tgt.id: ety}
        if isinstance(tgt, ast.Tuple) and isinstance(ety, tuple) and ety[0] == 'tup' and len(ety) - 1 == len(tgt.elts):
            names, add = [], {}
            for x, t in zip(tgt.elts, ety[1:]):
                if not isinstance(x, ast.Name):
                    raise Refuse('nested target')
                names.append(x.id)
                if x.id != '_':
                    add[x.id] = t
            return "'(" + ', '.join(names) + ')', add
        raise Refuse('loop target does not match element type %r' % (ety,))

    def comprehension(self, e, env):
        if len(e.generators) != 1 or e.generators[0].ifs or e.generators[0].is_async:
            raise Refuse('comprehension form (line %d)' % e.lineno)
        g = e.generators[0]
        it = self.iter_term(g.iter, env)
        pat, add = self.pattern(g.target, elt(it.ty), env)
        env2 = dict(env)
        env2.update(add)
        body = self.expr(e.elt, env2)
        if body.binds:
            self.fallible = True
            t = self.fresh()
            inner = self.wrap(body.binds, 'Ok %s' % body.code, True)
            return Term(t, ('list', body.ty), it.binds + [(t, 'mapM (fun %s =>\n%s) %s' % (pat, inner, it.code))])
        return Term('(map (fun %s => %s) %s)' % (pat, body.code, it.code), ('list', body.ty), it.binds)

    # ------------------------------------------------------------ calls
    def resolve_fn(self, f, env):
        """call target -> (FnSig, receiver Term or None)"""
        if isinstance(f, ast.Name):
            if f.id in env and isinstance(env[f.id], tuple) and env[f.id][0] == 'fn':
                return self.mod.funcs[env[f.id][1]], None
            if ('', f.id) in self.mod.funcs:
                return self.mod.funcs[('', f.id)], None
            if f.id in self.mod.classes and (f.id, '__init__') in self.mod.funcs:
                return self.mod.funcs[(f.id, '__init__')], None
            return None, None
        if isinstance(f, ast.Attribute) and isinstance(f.value, ast.Call) and isinstance(f.value.func, ast.Name) \
                and f.value.func.id == 'super' and self.cls is not None and self.cls.base:
            fs = self.mod.funcs.get((self.cls.base, f.attr))
            if fs is not None and fs.kind == 'guard':
                return fs, None
            raise Refuse('super().%s does not resolve to a translated guard (line %d)' % (f.attr, f.lineno))
        if isinstance(f, ast.Attribute):
            ci = self.classref(f.value)
            if ci is not None and (ci.pyname, f.attr) in self.mod.funcs:
                fs = self.mod.funcs[(ci.pyname, f.attr)]
                if fs.kind == 'guard':
                    return fs, None
                if fs.kind == 'method':
                    if not (isinstance(f.value, ast.Name) and f.value.id == 'self'):
                        raise Refuse('unbound method call')
                    return fs, Term(self.self_record(env), ('obj', ci.rec))
                return fs, None
            if ci is None:
                # method on an object-valued expression
                try:
                    o = self.expr(f.value, env)
                except Refuse:
                    return None, None
                if isinstance(o.ty, tuple) and o.ty[0] == 'obj':
                    oc = self.mod.class_by_rec(o.ty[1])
                    if (oc.pyname, f.attr) in self.mod.funcs:
                        return self.mod.funcs[(oc.pyname, f.attr)], o
        return None, None

    def bind_args(self, fs, e, env):
        """positional + keyword + default arguments in parameter order"""
        terms = [None] * len(fs.params)
        eargs = list(e.args)
        if fs.kind == 'guard' and eargs and isinstance(eargs[0], ast.Name) and eargs[0].id == 'self' \
                and not (isinstance(e.func, ast.Attribute) and isinstance(e.func.value, ast.Call)):
            eargs = eargs[1:]                 # Base.__init__(self, ...)
        if len(eargs) > len(fs.params):
            raise Refuse('too many arguments for %s' % fs.qual)
        for k, a in enumerate(eargs):
            if isinstance(a, ast.Starred):
                raise Refuse('star argument')
            terms[k] = self.expr(a, env)
        names = [p for p, _ in fs.params]
        for kw in e.keywords:
            if kw.arg not in names or terms[names.index(kw.arg)] is not None:
                raise Refuse('keyword argument %s' % kw.arg)
            terms[names.index(kw.arg)] = self.expr(kw.value, env)
        for k, (p, t) in enumerate(fs.params):
            if terms[k] is None:
                if p not in fs.defaults:
                    raise Refuse('missing argument %s of %s' % (p, fs.qual))
                c, ty = const_lit(fs.defaults[p])
                terms[k] = Term(c, ty)
            if terms[k].ty != t and not (terms[k].ty == 'NoneType' and isinstance(t, tuple) and t[0] == 'opt'):
                raise Refuse('argument %s of %s has type %r, expected %r' % (p, fs.qual, terms[k].ty, t))
        return terms

    def call_code(self, fs, recv, terms):
        args = (['Orc'] if fs.oracle else []) + ([recv.code] if fs.kind == 'method' else []) + [t.code for t in terms]
        binds = (recv.binds if recv is not None else []) + sum((t.binds for t in terms), [])
        return '%s %s' % (fs.gname, ' '.join(args)) if args else fs.gname, binds

    def call(self, e, env):
        f = e.func
        # struct
        if isinstance(f, ast.Attribute) and isinstance(f.value, ast.Name) and f.value.id == 'struct':
            return self.struct_call(e, env)
        if isinstance(f, ast.Attribute) and isinstance(f.value, ast.Name) and f.value.id == 'hmac' and f.attr == 'HMAC' \
                and len(e.args) == 1 and len(e.keywords) == 1 and e.keywords[0].arg == 'digestmod' and self.mod.oracle:
            k = self.expr(e.args[0], env)
            d = self.expr(e.keywords[0].value, env)
            if k.ty != 'bytes' or d.ty != 'str':
                raise Refuse('hmac.HMAC argument types')
            self.fallible = True
            t = self.fresh()
            return Term(t, 'hmac', k.binds + d.binds + [(t, 'mk_hmac Orc %s %s' % (d.code, k.code))])
        if isinstance(f, ast.Attribute) and isinstance(f.value, ast.Attribute) and isinstance(f.value.value, ast.Name) \
                and f.value.value.id == 'self' and self.cls is not None and (f.value.attr, f.attr) in self.cls.field_methods:
            tmpl, ptys, rty, fallible = self.cls.field_methods[(f.value.attr, f.attr)]
            recv = self.expr(f.value, env)
            args = [self.expr(a, env) for a in e.args]
            if [a.ty for a in args] != list(ptys) or e.keywords:
                raise Refuse('argument types of self.%s.%s (line %d)' % (f.value.attr, f.attr, e.lineno))
            code = tmpl.format(*[a.code for a in args], self=recv.code)
            binds = recv.binds + sum((a.binds for a in args), [])
            if fallible:
                self.fallible = True
                t = self.fresh()
                return Term(t, rty, binds + [(t, code)])
            return Term('(%s)' % code, rty, binds)
        if isinstance(f, ast.Attribute) and isinstance(f.value, ast.Name) and f.value.id == 'self' and self.cls is not None \
                and (f.attr, None) in self.cls.field_methods:
            tmpl, ptys, rty, fallible = self.cls.field_methods[(f.attr, None)]
            args = [self.expr(a, env) for a in e.args]
            if [a.ty for a in args] != list(ptys) or e.keywords:
                raise Refuse('argument types of self.%s (line %d)' % (f.attr, e.lineno))
            kt = self.expr(ast.copy_location(ast.Attribute(value=f.value, attr='key', ctx=ast.Load()), f), env)
            code = tmpl.format(*[a.code for a in args], key=kt.code)
            return Term('(%s)' % code, rty, sum((a.binds for a in args), []))
        if isinstance(f, ast.Attribute) and isinstance(f.value, ast.Name) and f.value.id == 'python_aes' and f.attr == 'new' \
                and len(e.args) == 3 and self.const_int(e.args[1]) in (2, 6) and not e.keywords:
            key = ('Python_AES', '__init__') if self.const_int(e.args[1]) == 2 else ('Python_AES_CTR', '__init__')
            fs = self.mod.funcs.get(key)
            if fs is None:
                raise Refuse('python_aes.new: %s.%s is not translated' % key)
            terms = self.bind_args(fs, e, env)
            code, binds = self.call_code(fs, None, terms)
            self.fallible = True
            t = self.fresh()
            return Term(t, ('obj', fs.cls.rec), binds + [(t, code)])
        fs, recv = self.resolve_fn(f, env)
        if fs is not None:
            terms = self.bind_args(fs, e, env)
            code, binds = self.call_code(fs, recv, terms)
            outs = fs.out_types()
            if fs.mutates:
                raise Refuse('call of %s (mutates its argument) in expression position (line %d)' % (fs.qual, e.lineno))
            if len(outs) == 2 and fs.mut_self and recv is not None and not isinstance(f.value, ast.Name):
                # method on a temporary object: the updated object is dropped
                t = self.fresh()
                if fs.fallible:
                    self.fallible = True
                    return Term('(snd %s)' % t, outs[1], binds + [(t, code)])
                return Term('(snd (%s))' % code, outs[1], binds)
            if len(outs) != 1:
                raise Refuse('call of %s in expression position (line %d)' % (fs.qual, e.lineno))
            if fs.fallible:
                self.fallible = True
                t = self.fresh()
                return Term(t, outs[0], binds + [(t, code)])
            return Term('(%s)' % code, outs[0], binds)
        if isinstance(f, ast.Attribute):
            return FnTranslator.call(self, e, env)
        if not isinstance(f, ast.Name):
            raise Refuse('call target (line %d)' % e.lineno)
        name = f.id
        if e.keywords:
            raise Refuse('keyword arguments (line %d)' % e.lineno)
        if name == 'bytearray':
            if len(e.args) == 0:
                return Term('(@nil Z)', 'bytes')
            a0 = e.args[0]
            if isinstance(a0, (ast.GeneratorExp, ast.ListComp, ast.List)) or \
                    (isinstance(a0, ast.BinOp) and isinstance(a0.op, ast.Mult) and isinstance(a0.left, ast.List)):
                x = self.expr(a0, env)
                if x.ty != LZ:
                    raise Refuse('bytearray(list of %r)' % (x.ty,))
                self.fallible = True
                t = self.fresh()
                return Term(t, 'bytes', x.binds + [(t, 'mk_bytes %s' % x.code)])
            x = self.expr(a0, env)
            if x.ty == 'bytes':
                return Term(x.code, 'bytes', x.binds)
            if x.ty == LZ:
                self.fallible = True
                t = self.fresh()
                return Term(t, 'bytes', x.binds + [(t, 'mk_bytes %s' % x.code)])
            if x.ty == 'Z':
                self.fallible = True
                t = self.fresh()
                return Term(t, 'bytes', x.binds + [(t, 'py_zeros %s' % x.code)])
            raise Refuse('bytearray(%r)' % (x.ty,))
        if name == 'len' and len(e.args) == 1:
            x = self.expr(e.args[0], env)
            if is_seq(x.ty):
                return Term('(zlen %s)' % x.code, 'Z', x.binds)
        if name == 'list' and len(e.args) == 1:
            x = self.iter_term(e.args[0], env)
            return Term(x.code, ('list', elt(x.ty)), x.binds)
        if name == 'int' and len(e.args) == 1 and isinstance(e.args[0], ast.Call) and \
                isinstance(e.args[0].func, ast.Name) and e.args[0].func.id == 'bool' and len(e.args[0].args) == 1:
            x = self.truth(self.expr(e.args[0].args[0], env), e)
            return Term('(Z.b2z %s)' % x.code, 'Z', x.binds)
        if name == 'int' and len(e.args) == 1 and isinstance(e.args[0], ast.Call) and isinstance(e.args[0].func, ast.Attribute) \
                and isinstance(e.args[0].func.value, ast.Name) and e.args[0].func.value.id == 'math' \
                and e.args[0].func.attr in ('ceil', 'floor') and len(e.args[0].args) == 1:
            q = e.args[0].args[0]                # int(math.ceil(n / 2.0)), int(math.floor(n / 2.0)) for an int n (exact below 2^53)
            if isinstance(q, ast.BinOp) and isinstance(q.op, ast.Div) and isinstance(q.right, ast.Constant) and q.right.value == 2.0:
                n = self.expr(q.left, env)
                if n.ty != 'Z':
                    raise Refuse('math.%s argument' % e.args[0].func.attr)
                if e.args[0].func.attr == 'ceil':
                    return Term('(Z.div (Z.add %s 1) 2)' % n.code, 'Z', n.binds)
                return Term('(Z.div %s 2)' % n.code, 'Z', n.binds)
            raise Refuse('math.%s form (line %d)' % (e.args[0].func.attr, e.lineno))
        if name == 'divmod' and len(e.args) == 2:
            a, b = self.expr(e.args[0], env), self.expr(e.args[1], env)
            if a.ty != 'Z' or b.ty != 'Z':
                raise Refuse('divmod types')
            self.fallible = True
            t = self.fresh()
            return Term(t, ('tup', 'Z', 'Z'), a.binds + b.binds + [(t, 'py_divmod %s %s' % (a.code, b.code))])
        if name in ('compat26Str', 'compatHMAC', 'bytes') and len(e.args) == 1:
            x = self.expr(e.args[0], env)
            if x.ty == 'bytes':
                return x
        if name in self.mod.builtins:
            gname, ptys, rty, fallible = self.mod.builtins[name]
            args = [self.expr(a, env) for a in e.args]
            if [a.ty for a in args] != list(ptys):
                raise Refuse('builtin %s argument types %r' % (name, [a.ty for a in args]))
            binds = sum((a.binds for a in args), [])
            if '{' in gname:
                code = gname.format(*[a.code for a in args])
            else:
                code = '%s %s' % (gname, ' '.join(a.code for a in args))
            if fallible:
                self.fallible = True
                t = self.fresh()
                return Term(t, rty, binds + [(t, code)])
            return Term('(%s)' % code, rty, binds)
        return FnTranslator.call(self, e, env)

    def struct_call(self, e, env):
        f = e.func
        if not (e.args and isinstance(e.args[0], ast.Constant) and isinstance(e.args[0].value, str)) or e.keywords:
            raise Refuse('struct call form (line %d)' % e.lineno)
        fmt = e.args[0].value
        self.fallible = True
        t = self.fresh()
        if f.attr == 'pack' and fmt.startswith('<') and set(fmt[1:]) == {'L'} and len(e.args) == 2 and \
                isinstance(e.args[1], ast.Starred):
            x = self.expr(e.args[1].value, env)
            if x.ty != LZ:
                raise Refuse('struct.pack *args type')
            return Term(t, 'bytes', x.binds + [(t, 'pack_le32s %d %s' % (len(fmt) - 1, x.code))])
        if f.attr == 'pack' and fmt == '<Q' and len(e.args) == 2:
            x = self.expr(e.args[1], env)
            if x.ty != 'Z':
                raise Refuse('struct.pack <Q type')
            return Term(t, 'bytes', x.binds + [(t, 'pack_le64 %s' % x.code)])
        if f.attr == 'unpack' and fmt == '<L' and len(e.args) == 2:
            x = self.expr(e.args[1], env)
            if x.ty != 'bytes':
                raise Refuse('struct.unpack type')
            return Term(t, ('tup1', 'Z'), x.binds + [(t, 'unpack_le32 %s' % x.code)])
        raise Refuse('struct.%s(%r) (line %d)' % (f.attr, fmt, e.lineno))

    # ------------------------------------------------------------ statements
    def target_name(self, t):
        """assignment target -> the local variable it (re)binds"""
        if isinstance(t, ast.Name):
            return t.id
        if isinstance(t, ast.Attribute) and isinstance(t.value, ast.Name) and t.value.id == 'self' and self.cls is not None:
            if self.cls.ftype(t.attr) is not None:
                return 'self_' + t.attr
            if t.attr in self.cls.ignore:
                return None
            raise Refuse('assignment to undeclared field self.%s (line %d)' % (t.attr, t.lineno))
        if isinstance(t, ast.Subscript):
            return self.target_name(t.value)
        raise Refuse('assignment target (line %d)' % t.lineno)

    def mut_receivers(self, node):
        """names rebound because a call inside `node` updates its receiver object"""
        out = []
        if self.cls is None:
            return out
        for c in ast.walk(node):
            if not (isinstance(c, ast.Call) and isinstance(c.func, ast.Attribute)):
                continue
            f = c.func
            if isinstance(f.value, ast.Name) and f.value.id == 'self':
                g = self.mod.funcs.get((self.cls.pyname, f.attr))
                if g is not None and g.kind == 'method' and g.mut_self:
                    out += ['self_' + fl for fl, _ in self.cls.fields]
            elif isinstance(f.value, ast.Attribute) and isinstance(f.value.value, ast.Name) and f.value.value.id == 'self':
                ft = self.cls.ftype(f.value.attr)
                if isinstance(ft, tuple) and ft[0] == 'obj':
                    oc = self.mod.class_by_rec(ft[1])
                    g = self.mod.funcs.get((oc.pyname, f.attr))
                    if g is not None and g.kind == 'method' and g.mut_self:
                        out.append('self_' + f.value.attr)
        return out

    def assigned(self, stmts):
        out = []
        for s in stmts:
            if isinstance(s, (ast.Assign, ast.AugAssign, ast.Expr)):
                out += self.mut_receivers(s)
            if isinstance(s, ast.Assign):
                for t in s.targets:
                    if isinstance(t, ast.Tuple):
                        out += [self.target_name(x) for x in t.elts]
                    else:
                        out.append(self.target_name(t))
            elif isinstance(s, ast.AugAssign):
                out.append(self.target_name(s.target))
            elif isinstance(s, ast.If):
                out += self.assigned(s.body) + self.assigned(s.orelse)
            elif isinstance(s, (ast.For, ast.While)):
                out += self.assigned(s.body)
                if isinstance(s, ast.For):
                    out += [n.id for n in ast.walk(s.target) if isinstance(n, ast.Name)]
            elif isinstance(s, ast.Expr) and isinstance(s.value, ast.Call):
                c = s.value
                if isinstance(c.func, ast.Attribute) and c.func.attr in ('update', 'extend', 'append') and \
                        isinstance(c.func.value, (ast.Name, ast.Attribute)) and self.classref(c.func.value) is None:
                    try:
                        out.append(self.target_name(c.func.value))
                        continue
                    except Refuse:
                        pass
                out += self.call_rebinds(c)
        seen = []
        for x in out:
            if x is not None and x not in seen:
                seen.append(x)
        return seen

    def call_rebinds(self, c):
        """names rebound by a statement-level call (mutated arguments / receiver)"""
        fs = None
        f = c.func
        if isinstance(f, ast.Name):
            for key, v in self.mod.funcs.items():
                if v.mutates and (key == ('', f.id) or f.id in self.aliases.get(key, ())):
                    fs = v
        elif isinstance(f, ast.Attribute):
            ci = self.classref(f.value)
            if ci is not None:
                fs = self.mod.funcs.get((ci.pyname, f.attr))
        out = []
        if fs is not None:
            names = [p for p, _ in fs.params]
            for m in fs.mutates:
                k = names.index(m)
                if k < len(c.args):
                    out.append(self.target_name(c.args[k]))
            if fs.mut_self and fs.kind == 'method':
                out += ['self_' + fl for fl, _ in fs.cls.fields]
        return out

    aliases = {}

    def ret(self, code, monadic):
        outs = []
        if self.fs.kind == 'init':
            raise Refuse('return with a value inside __init__')
        if self.fs.mut_self:
            outs.append(self.self_record(self.ret_env))
        for m in self.fs.mutates:
            outs.append(m)
        if code is not None:
            outs.append(code)
        c = 'tt' if not outs else (outs[0] if len(outs) == 1 else '(' + ', '.join(outs) + ')')
        return ('Ok %s' % c) if monadic else c

    def final(self, env, monadic):
        """falling off the end of the function"""
        if self.fs.kind == 'init':
            c = self.self_record(env)
            return ('Ok %s' % c) if monadic else c
        if self.fs.kind == 'guard':
            return 'Ok tt' if monadic else 'tt'
        if self.fs.ret != 'None':
            raise Refuse('control reaches end of function without return')
        self.ret_env = env
        return self.ret(None, monadic)

    def store(self, tgt, val, env, monadic, cont):
        """x[i] = val / x[a:b] = val / self.f = val / x = val  then cont(env')"""
        if isinstance(tgt, ast.Attribute) and isinstance(tgt.value, ast.Attribute) and isinstance(tgt.value.value, ast.Name) \
                and tgt.value.value.id == 'self' and self.cls is not None:
            oty = self.cls.ftype(tgt.value.attr)
            if not (isinstance(oty, tuple) and oty[0] == 'obj'):
                raise Refuse('nested store into %r' % (oty,))
            oc = self.mod.class_by_rec(oty[1])
            if tgt.attr in oc.props:
                st = self.mod.funcs.get((oc.pyname, tgt.attr + '@setter'))
                if st is None:
                    raise Refuse('assignment through property %s.%s whose setter is not translated' % (oc.pyname, tgt.attr))
                if [t for _, t in st.params] != [val.ty]:
                    raise Refuse('setter argument type')
                onm0 = 'self_' + tgt.value.attr
                if val.code.isidentifier() and val.code in env and is_seq(val.ty) and oc.props[tgt.attr] in oc.alias_fields:
                    self.lent.setdefault(val.code, 'self.%s.%s (line %d)' % (tgt.value.attr, tgt.attr, tgt.lineno))
                code0 = '%s %s%s %s' % (st.gname, 'Orc ' if st.oracle else '', onm0, val.code)
                self.need_monad(val.binds, monadic, tgt)
                if st.fallible:
                    self.fallible = True
                    self.need_monad([1], monadic, tgt)
                    return self.wrap(val.binds, '%s <- %s ;;\n%s' % (onm0, code0, cont(env)), monadic)
                return self.wrap(val.binds, 'let %s := %s in\n%s' % (onm0, code0, cont(env)), monadic)
            fld = oc.props.get(tgt.attr, tgt.attr)
            if oc.ftype(fld) != val.ty:
                raise Refuse('store into %s.%s of %r' % (oc.pyname, fld, val.ty))
            onm = 'self_' + tgt.value.attr
            codes = [val.code if f_ == fld else '(%s%s %s)' % (oc.prefix, f_, onm) for f_, _ in oc.fields]
            self.need_monad(val.binds, monadic, tgt)
            return self.wrap(val.binds, 'let %s := %s in\n%s' % (onm, oc.mk(codes), cont(env)), monadic)
        nm = self.target_name(tgt)
        if nm is None:
            return self.wrap(val.binds, cont(env), monadic) if val.binds else cont(env)
        self.alias_note(tgt, nm, val, env)
        if isinstance(tgt, (ast.Name, ast.Attribute)):
            if isinstance(tgt, ast.Attribute):
                want = self.cls.ftype(tgt.attr)
                if val.ty != want:
                    raise Refuse('self.%s assigned %r, declared %r (line %d)' % (tgt.attr, val.ty, want, tgt.lineno))
            env2 = dict(env)
            env2[nm] = val.ty
            self.need_monad(val.binds, monadic, tgt)
            return self.wrap(val.binds, 'let %s := %s in\n%s' % (nm, val.code, cont(env2)), monadic)
        # subscript store
        cty = env.get(nm)
        if cty is None or not is_seq(cty):
            raise Refuse('subscript store into %r (line %d)' % (cty, tgt.lineno))
        if not isinstance(tgt.value, (ast.Name, ast.Attribute)):
            raise Refuse('nested subscript store')
        if isinstance(tgt.slice, ast.Slice):
            parts, binds = self.slice_parts(tgt.slice, env)
            if val.ty != cty:
                raise Refuse('slice assignment of %r into %r' % (val.ty, cty))
            self.need_monad(val.binds + binds, monadic, tgt)
            return self.wrap(val.binds + binds, 'let %s := py_slice_assign %s %s %s %s in\n%s' % (
                nm, nm, parts[0], parts[1], val.code, cont(env)), monadic)
        i = self.expr(tgt.slice, env)
        if i.ty != 'Z' or val.ty != elt(cty):
            raise Refuse('store types (line %d)' % tgt.lineno)
        self.fallible = True
        self.need_monad([1], monadic, tgt)
        fn = 'py_store_b' if cty == 'bytes' else 'py_store'
        return self.wrap(val.binds + i.binds, '%s <- %s %s %s %s ;;\n%s' % (nm, fn, nm, i.code, val.code, cont(env)), monadic)

    def alias_note(self, tgt, nm, val, env):
        """book-keeping for the aliasing rules of the module docstring (raises Refuse on a violation)"""
        bare = val is not None and val.code.isidentifier() and val.code in env and is_seq(val.ty)
        line = getattr(tgt, 'lineno', 0)
        if isinstance(tgt, ast.Name):
            if self.nest == 0:
                self.param_alias.discard(tgt.id)          # rebound at top level: no longer the caller's object
                self.lent.pop(tgt.id, None)
            return
        if isinstance(tgt, ast.Attribute):
            if bare and self.cls is not None and self.cls.ftype(tgt.attr) is not None:
                if val.code in self.param_alias:
                    self.cls.alias_fields.setdefault(tgt.attr, '%s line %d' % (self.fs.qual, line))
                else:
                    self.lent.setdefault(val.code, 'self.%s (line %d)' % (tgt.attr, line))
            return
        # subscript / slice store
        base = tgt.value
        if isinstance(base, ast.Name):
            if base.id in self.lent:
                raise Refuse('%s: `%s` was stored into %s without copying and is mutated in place afterwards (line %d): '
                             'aliasing outside the translator\'s value semantics' % (self.fs.qual, base.id, self.lent[base.id], line))
        elif isinstance(base, ast.Attribute) and self.cls is not None and self.cls.ftype(base.attr) is not None:
            self.cls.inplace_fields.setdefault(base.attr, '%s line %d' % (self.fs.qual, line))

    def block(self, stmts, env, k, monadic):
        if not stmts:
            if k is None:
                return self.final(env, monadic)
            return k(env)
        s, rest = stmts[0], stmts[1:]
        cont = lambda env2: self.block(rest, env2, k, monadic)   # noqa: E731
        if isinstance(s, ast.Expr) and isinstance(s.value, ast.Constant) and isinstance(s.value.value, str):
            return cont(env)
        if isinstance(s, ast.Pass):
            return cont(env)
        if isinstance(s, ast.Raise):
            exc = s.exc
            name = exc.func.id if isinstance(exc, ast.Call) and isinstance(exc.func, ast.Name) else \
                (exc.id if isinstance(exc, ast.Name) else None)
            if name not in EXN:
                raise Refuse('raise of %s (line %d)' % (name, s.lineno))
            self.fallible = True
            self.need_monad([1], monadic, s)
            return 'Err %s' % EXN[name]
        if isinstance(s, ast.Return) and isinstance(s.value, ast.Call) and not rest:
            fs0, recv0 = self.resolve_fn(s.value.func, env)
            if fs0 is not None and fs0.kind == 'method' and fs0.mut_self and isinstance(s.value.func, ast.Attribute) \
                    and isinstance(s.value.func.value, (ast.Name, ast.Attribute)):
                tmpn = 'ret_%d_' % s.lineno
                a1 = ast.copy_location(ast.Assign(targets=[ast.Name(id=tmpn, ctx=ast.Store())], value=s.value), s)
                r1 = ast.copy_location(ast.Return(value=ast.Name(id=tmpn, ctx=ast.Load())), s)
                ast.fix_missing_locations(a1)
                ast.fix_missing_locations(r1)
                return self.block([a1, r1], env, k, monadic)
        if isinstance(s, ast.Return):
            if rest:
                raise Refuse('code after return')
            self.ret_env = env
            if s.value is None or (isinstance(s.value, ast.Constant) and s.value.value is None and self.fs.ret == 'None'):
                return self.ret(None, monadic)
            rt = self.fs.ret
            if isinstance(rt, tuple) and rt[0] == 'opt':
                if isinstance(s.value, ast.Constant) and s.value.value is None:
                    return self.ret('None', monadic)
                t = self.expr(s.value, env)
                if t.ty != rt[1]:
                    raise Refuse('return type %r, declared %r (line %d)' % (t.ty, rt, s.lineno))
                self.need_monad(t.binds, monadic, s)
                return self.wrap(t.binds, self.ret('(Some %s)' % t.code, monadic), monadic)
            t = self.expr(s.value, env)
            self.need_monad(t.binds, monadic, s)
            if t.ty != rt:
                raise Refuse('return type %r, declared %r (line %d)' % (t.ty, rt, s.lineno))
            return self.wrap(t.binds, self.ret(t.code, monadic), monadic)
        if isinstance(s, ast.Assign):
            if len(s.targets) != 1:
                raise Refuse('chained assignment (line %d)' % s.lineno)
            tgt = s.targets[0]
            if isinstance(tgt, ast.Tuple):
                return self.tuple_assign(s, tgt, env, monadic, cont)
            # function alias:  f = Class.method
            if isinstance(tgt, ast.Name) and isinstance(s.value, (ast.Attribute, ast.Name)):
                try:
                    v = self.expr(s.value, env)
                except Refuse:
                    v = None
                if v is not None and isinstance(v.ty, tuple) and v.ty[0] == 'fn':
                    env2 = dict(env)
                    env2[tgt.id] = v.ty
                    self.aliases.setdefault(v.ty[1], set()).add(tgt.id)
                    return cont(env2)
            # x = obj.method(...)[a:b] where the method updates obj: evaluate the call first
            if isinstance(s.value, ast.Subscript) and isinstance(s.value.value, ast.Call) and \
                    isinstance(s.value.value.func, ast.Attribute) and isinstance(s.value.value.func.value, (ast.Name, ast.Attribute)):
                fs1, _r = self.resolve_fn(s.value.value.func, env)
                if fs1 is not None and fs1.kind == 'method' and fs1.mut_self:
                    tmpn = 'call_%d_' % s.lineno
                    a1 = ast.copy_location(ast.Assign(targets=[ast.Name(id=tmpn, ctx=ast.Store())], value=s.value.value), s)
                    a2 = ast.copy_location(ast.Assign(targets=[tgt], value=ast.Subscript(
                        value=ast.Name(id=tmpn, ctx=ast.Load()), slice=s.value.slice, ctx=ast.Load())), s)
                    ast.fix_missing_locations(a1)
                    ast.fix_missing_locations(a2)
                    return self.block([a1, a2] + rest, env, k, monadic)
            # x = obj.method(...) where the method updates obj
            if isinstance(s.value, ast.Call):
                fs, recv = self.resolve_fn(s.value.func, env)
                if fs is not None and fs.kind == 'method' and fs.mut_self and not fs.mutates and fs.ret != 'None' \
                        and isinstance(s.value.func.value, (ast.Name, ast.Attribute)):
                    return self.method_stmt(s.value, fs, recv, tgt, env, monadic, cont)
            if isinstance(s.value, ast.List) and not s.value.elts and isinstance(tgt, ast.Attribute):
                ft = self.cls.ftype(tgt.attr) or LZ
                val = Term('(@nil %s)' % ty_str(elt(ft)), ft)
            else:
                val = self.expr(s.value, env)
            if isinstance(val.ty, tuple) and val.ty[0] in ('fn', 'tup1'):
                raise Refuse('assignment of %r (line %d)' % (val.ty, s.lineno))
            return self.store(tgt, val, env, monadic, cont)
        if isinstance(s, ast.AugAssign):
            load = ast.copy_location(_as_load(s.target), s)
            fake = ast.copy_location(ast.BinOp(left=load, op=s.op, right=s.value), s)
            val = self.expr(fake, env)
            return self.store(s.target, val, env, monadic, cont)
        if isinstance(s, ast.Expr) and isinstance(s.value, ast.Call):
            return self.call_stmt(s, env, monadic, cont)
        if isinstance(s, ast.Assert):
            c = self.truth(self.expr(s.test, env), s)
            self.fallible = True
            self.need_monad([1], monadic, s)
            return self.wrap(c.binds, 'if %s then\n%s\nelse Err AssertionError' % (c.code, cont(env)), monadic)
        if isinstance(s, ast.If):
            return self.if_stmt(s, rest, env, k, monadic, cont)
        if isinstance(s, ast.For):
            return self.for_stmt(s, env, monadic, cont)
        if isinstance(s, ast.While):
            return self.while_stmt(s, env, monadic, cont)
        raise Refuse('statement %s (line %d)' % (type(s).__name__, s.lineno))

    def tuple_assign(self, s, tgt, env, monadic, cont):
        v = s.value
        if isinstance(v, ast.Tuple) and len(v.elts) == len(tgt.elts):
            vals = [self.expr(x, env) for x in v.elts]           # all right-hand sides first
            binds = sum((x.binds for x in vals), [])
            self.need_monad(binds, monadic, s)
            tmps = []
            lets = ''
            for x in vals:
                t = self.fresh()
                tmps.append(Term(t, x.ty))
                lets += 'let %s := %s in\n' % (t, x.code)

            def chain(idx, env2):
                if idx == len(tgt.elts):
                    return cont(env2)
                return self.store(tgt.elts[idx], tmps[idx], env2, monadic, lambda e3: chain(idx + 1, e3))
            return self.wrap(binds, lets + chain(0, env), monadic)
        val = self.expr(v, env)
        if not (isinstance(val.ty, tuple) and val.ty[0] == 'tup' and len(val.ty) - 1 == len(tgt.elts)):
            raise Refuse('tuple assignment from %r (line %d)' % (val.ty, s.lineno))
        names = []
        env2 = dict(env)
        for x, t in zip(tgt.elts, val.ty[1:]):
            if not isinstance(x, ast.Name):
                raise Refuse('tuple target')
            names.append(x.id)
            env2[x.id] = t
        self.need_monad(val.binds, monadic, s)
        return self.wrap(val.binds, "let '(%s) := %s in\n%s" % (', '.join(names), val.code, cont(env2)), monadic)

    def method_stmt(self, call, fs, recv, tgt, env, monadic, cont):
        """[tgt =] obj.method(args) where method returns (obj', result)"""
        f = call.func
        terms = self.bind_args(fs, call, env)
        code, binds = self.call_code(fs, recv, terms)
        res = self.fresh()
        env2 = dict(env)
        if isinstance(f.value, ast.Name) and f.value.id == 'self':
            rebind = ''.join('let self_%s := (%s%s (fst %s)) in\n' % (fl, fs.cls.prefix, fl, res) for fl, _ in fs.cls.fields)
        else:
            nm = self.target_name(f.value)
            rebind = 'let %s := (fst %s) in\n' % (nm, res)
        val = Term('(snd %s)' % res, fs.ret)
        if fs.fallible:
            self.fallible = True
            self.need_monad([1], monadic, call)
            head = '%s <- %s ;;\n' % (res, code)
        else:
            head = 'let %s := %s in\n' % (res, code)
        self.need_monad(binds, monadic, call)
        return self.wrap(binds, head + rebind + self.store(tgt, val, env2, monadic, cont), monadic)

    def call_stmt(self, s, env, monadic, cont):
        c = s.value
        f = c.func
        if isinstance(f, ast.Attribute) and f.attr in ('extend', 'append', 'update') and len(c.args) == 1 and not c.keywords \
                and self.classref(f.value) is None:
            nm = self.target_name(f.value)
            cty = env.get(nm)
            if cty == 'hmac' and f.attr == 'update':
                a = self.expr(c.args[0], env)
                if a.ty != 'bytes':
                    raise Refuse('update() argument type')
                self.need_monad(a.binds, monadic, s)
                return self.wrap(a.binds, 'let %s := mac_update %s %s in\n%s' % (nm, nm, a.code, cont(env)), monadic)
            if cty is not None and is_seq(cty) and f.attr in ('extend', 'append'):
                fake = ast.copy_location(ast.Subscript(value=f.value, slice=ast.Constant(value=0), ctx=ast.Store()), s)
                self.alias_note(fake, nm, None, env)
            if cty is not None and is_seq(cty) and f.attr == 'extend':
                a = self.expr(c.args[0], env)
                if a.ty == ('tup1', elt(cty)):
                    code = '[%s]' % a.code
                elif a.ty == cty:
                    code = a.code
                else:
                    raise Refuse('extend(%r) on %r' % (a.ty, cty))
                self.need_monad(a.binds, monadic, s)
                return self.wrap(a.binds, 'let %s := (%s ++ %s) in\n%s' % (nm, nm, code, cont(env)), monadic)
            if cty is not None and is_seq(cty) and f.attr == 'append':
                a = self.expr(c.args[0], env)
                if a.ty != elt(cty):
                    raise Refuse('append(%r) on %r' % (a.ty, cty))
                if cty == 'bytes':
                    raise Refuse('bytearray.append')
                self.need_monad(a.binds, monadic, s)
                return self.wrap(a.binds, 'let %s := (%s ++ [%s]) in\n%s' % (nm, nm, a.code, cont(env)), monadic)
        fs, recv = self.resolve_fn(f, env)
        if fs is None:
            raise Refuse('statement call (line %d)' % s.lineno)
        terms = self.bind_args(fs, c, env)
        code, binds = self.call_code(fs, recv, terms)
        outs = fs.out_types()
        if fs.ret != 'None':
            raise Refuse('result of %s discarded (line %d)' % (fs.qual, s.lineno))
        names = []
        if fs.mut_self:
            if fs.kind != 'method' or not (isinstance(f.value, ast.Name) and f.value.id == 'self'):
                raise Refuse('statement call of self-mutating method on non-self')
            names.append('self__')
        pn = [p for p, _ in fs.params]
        for m in fs.mutates:
            a = c.args[pn.index(m)]
            nm = self.target_name(a)
            if not isinstance(a, (ast.Name, ast.Attribute)):
                raise Refuse('mutated argument must be a variable (line %d)' % s.lineno)
            names.append(nm)
        if not names:
            if fs.kind == 'guard' and fs.fallible:
                self.fallible = True
                self.need_monad([1], monadic, s)
                return self.wrap(binds, '_ <- %s ;;\n%s' % (code, cont(env)), monadic)
            if fs.kind == 'guard':
                return self.wrap(binds, cont(env), monadic) if binds else cont(env)
            raise Refuse('statement call without effect (line %d)' % s.lineno)
        pat = names[0] if len(names) == 1 else "'(" + ', '.join(names) + ')'
        rebind = ''
        if fs.mut_self:
            rebind = ''.join('let self_%s := (%s%s self__) in\n' % (fl, fs.cls.prefix, fl) for fl, _ in fs.cls.fields)
        self.need_monad(binds, monadic, s)
        if fs.fallible:
            self.fallible = True
            self.need_monad([1], monadic, s)
            body = '%s <- %s ;;\n%s%s' % (pat, code, rebind, cont(env))
        else:
            body = 'let %s := %s in\n%s%s' % (pat, code, rebind, cont(env))
        return self.wrap(binds, body, monadic)

    def join(self, mod, envs, env):
        envA, envB = envs
        common = {v: t for v, t in envA.items() if envB.get(v) == t}
        mod = [v for v in mod if v in common]
        env2 = {v: t for v, t in env.items() if v in common}
        for v in mod:
            env2[v] = common[v]
        return mod, env2

    def if_stmt(self, s, rest, env, k, monadic, cont):
        # everything translated from here on may be inside a branch: treat as nested for the aliasing book-keeping
        self.nest += 1
        try:
            return self.if_stmt0(s, rest, env, k, monadic, cont)
        finally:
            self.nest -= 1

    def if_stmt0(self, s, rest, env, k, monadic, cont):
        c = self.truth(self.expr(s.test, env), s)
        self.need_monad(c.binds, monadic, s)
        tb, te = self.terminates(s.body), self.terminates(s.orelse)
        if tb or te:
            if tb and te:
                if rest:
                    raise Refuse('code after terminating if')
                A = self.block(s.body, env, None, monadic)
                B = self.block(s.orelse, env, None, monadic)
            elif tb:
                if self.contains_return(s.orelse):
                    raise Refuse('partial return in else (line %d)' % s.lineno)
                A = self.block(s.body, env, None, monadic)
                B = self.block(s.orelse + rest, env, k, monadic)
            else:
                if self.contains_return(s.body):
                    raise Refuse('partial return in then (line %d)' % s.lineno)
                A = self.block(s.body + rest, env, k, monadic)
                B = self.block(s.orelse, env, None, monadic)
            return self.wrap(c.binds, 'if %s then (\n%s\n) else (\n%s\n)' % (c.code, A, B), monadic)
        def has_return(stmts):
            return any(isinstance(n, ast.Return) for st in stmts for n in ast.walk(st))

        def has_raise(stmts):
            return any(isinstance(n, (ast.Raise, ast.Assert)) for st in stmts for n in ast.walk(st))
        if has_return(s.body) or has_return(s.orelse):
            raise Refuse('partial return inside if (line %d)' % s.lineno)
        if has_raise(s.body) or has_raise(s.orelse):
            self.fallible = True
            self.need_monad([1], monadic, s)
        envs = []

        def grab(e2):
            envs.append(e2)
            return '@@JOIN%d@@' % id(s)
        A = self.block(s.body, env, grab, monadic)
        B = self.block(s.orelse, env, grab, monadic)
        if len(envs) < 2:
            # a branch that always raises has no continuation environment
            envs = (envs + [env, env])[:2]
        mod, env2 = self.join(self.assigned(s.body) + self.assigned(s.orelse), envs, env)
        mod = list(dict.fromkeys(mod))
        if not mod and not monadic:
            raise Refuse('if without effect (line %d)' % s.lineno)
        tup = 'tt' if not mod else (mod[0] if len(mod) == 1 else '(' + ', '.join(mod) + ')')
        pat = '_' if not mod else (mod[0] if len(mod) == 1 else "'" + tup)
        mark = '@@JOIN%d@@' % id(s)
        A = A.replace(mark, ('Ok %s' % tup) if monadic else tup)
        B = B.replace(mark, ('Ok %s' % tup) if monadic else tup)
        ite = 'if %s then (\n%s\n) else (\n%s\n)' % (c.code, A, B)
        if monadic:
            body = '%s <- (%s) ;;\n%s' % (pat, ite, cont(env2))
        else:
            body = 'let %s := (%s) in\n%s' % (pat, ite, cont(env2))
        return self.wrap(c.binds, body, monadic)

    def loop_body(self, body, env_body, tup, monadic, s):
        save = self.fallible
        self.fallible = False
        self.nest += 1
        try:
            try:
                code = self.block(body, env_body, lambda e2: tup, False)
                fallible = False
            except NeedMonad:
                fallible = True
                self.need_monad([1], monadic, s)
                code = self.block(body, env_body, lambda e2: 'Ok ' + tup, True)
        finally:
            self.nest -= 1
        self.fallible = save or fallible
        return code, fallible

    def for_stmt(self, s, env, monadic, cont):
        if s.orelse or self.contains_return(s.body):
            raise Refuse('for with else/return (line %d)' % s.lineno)
        for n in ast.walk(ast.Module(body=s.body, type_ignores=[])):
            if isinstance(n, (ast.Break, ast.Continue)):
                raise Refuse('break/continue (line %d)' % s.lineno)
        it = self.iter_term(s.iter, env)
        self.need_monad(it.binds, monadic, s)
        pat, add = self.pattern(s.target, elt(it.ty), env)
        carried = [v for v in self.assigned(s.body) if v in env and v not in add]
        if not carried:
            raise Refuse('loop without carried state (line %d)' % s.lineno)
        tup = carried[0] if len(carried) == 1 else '(' + ', '.join(carried) + ')'
        cpat = carried[0] if len(carried) == 1 else "'" + tup
        env_body = dict(env)
        env_body.update(add)
        body, fallible = self.loop_body(s.body, env_body, tup, monadic, s)
        if fallible:
            code = '%s <- foldM (fun %s %s =>\n%s) %s %s ;;\n%s' % (cpat, cpat, pat, body, it.code, tup, cont(env))
        else:
            code = 'let %s := fold_left (fun %s %s =>\n%s) %s %s in\n%s' % (cpat, cpat, pat, body, it.code, tup, cont(env))
        return self.wrap(it.binds, code, monadic)

    def while_stmt(self, s, env, monadic, cont):
        if s.orelse or self.contains_return(s.body):
            raise Refuse('while with else/return (line %d)' % s.lineno)
        for n in ast.walk(ast.Module(body=s.body, type_ignores=[])):
            if isinstance(n, (ast.Break, ast.Continue)):
                raise Refuse('break/continue (line %d)' % s.lineno)
        fuel_src = self.fs.fuel.get(self.nwhile)
        self.nwhile += 1
        if fuel_src is None:
            raise Refuse('while loop without a fuel expression in the unit (line %d)' % s.lineno)
        fuel = self.expr(ast.parse(fuel_src, mode='eval').body, env)
        c = self.truth(self.expr(s.test, env), s)
        if c.binds or fuel.binds or fuel.ty != 'Z':
            raise Refuse('fallible while condition / fuel (line %d)' % s.lineno)
        carried = [v for v in self.assigned(s.body) if v in env]
        if not carried:
            raise Refuse('while without carried state')
        tup = carried[0] if len(carried) == 1 else '(' + ', '.join(carried) + ')'
        cpat = carried[0] if len(carried) == 1 else "'" + tup
        self.fallible = True
        self.need_monad([1], monadic, s)
        self.nest += 1
        try:
            body = self.block(s.body, dict(env), lambda e2: 'Ok ' + tup, True)
        finally:
            self.nest -= 1
        return '%s <- while_fuel (Z.to_nat %s) (fun %s => %s) (fun %s =>\n%s) %s ;;\n%s' % (
            cpat, fuel.code, cpat, c.code, cpat, body, tup, cont(env))

    def dealias(self, body):
        """`X = self.F` (F a declared sequence field, X never rebound, self.F never rebound) followed by in-place
        stores through X: X and self.F are the same object, so X is replaced by self.F everywhere."""
        if self.cls is None:
            return body
        cands = {}
        for st in body:
            if isinstance(st, ast.Assign) and len(st.targets) == 1 and isinstance(st.targets[0], ast.Name) and \
                    isinstance(st.value, ast.Attribute) and isinstance(st.value.value, ast.Name) and st.value.value.id == 'self' \
                    and self.cls.ftype(st.value.attr) is not None and is_seq(self.cls.ftype(st.value.attr)):
                cands[st.targets[0].id] = (st, st.value.attr)
        out = {}
        for x, (st0, fld) in cands.items():
            rebound, stored, field_rebound = 0, False, False
            for n in ast.walk(ast.Module(body=body, type_ignores=[])):
                tg = []
                if isinstance(n, ast.Assign):
                    for t in n.targets:
                        tg += t.elts if isinstance(t, ast.Tuple) else [t]
                elif isinstance(n, ast.AugAssign):
                    tg = [n.target]
                elif isinstance(n, ast.For):
                    tg = [m for m in ast.walk(n.target) if isinstance(m, ast.Name)]
                for t in tg:
                    if isinstance(t, ast.Name) and t.id == x:
                        rebound += 1
                    if isinstance(t, ast.Subscript) and isinstance(t.value, ast.Name) and t.value.id == x:
                        stored = True
                    if isinstance(t, ast.Attribute) and isinstance(t.value, ast.Name) and t.value.id == 'self' and t.attr == fld:
                        field_rebound = True
            if rebound == 1 and stored and not field_rebound:
                out[x] = (st0, fld)
        if not out:
            return body

        class R(ast.NodeTransformer):
            def visit_Name(self, node):
                if node.id in out:
                    return ast.copy_location(ast.Attribute(value=ast.Name(id='self', ctx=ast.Load()), attr=out[node.id][1], ctx=node.ctx), node)
                return node
        drop = [st0 for st0, _ in out.values()]
        new = [R().visit(st) for st in body if st not in drop]
        return [ast.fix_missing_locations(st) for st in new]

    def translate(self):
        env = dict(self.fs.params)
        self.fdef.body = self.dealias(self.fdef.body)
        if self.fs.kind == 'method':
            self.fs.mut_self = assigns_self(self.fdef, self.cls, self.mod.funcs)
        prologue = ''
        if self.fs.kind == 'method':
            for f, t in self.cls.fields:
                env['self_' + f] = t
                prologue += 'let self_%s := (%s%s self) in\n' % (f, self.cls.prefix, f)
        body = self.fdef.body
        seq_params = set(p_ for p_, t_ in self.fs.params if is_seq(t_))
        try:
            self.fallible = False
            self.tmp = 0
            self.nwhile = 0
            self.nest, self.param_alias, self.lent = 0, set(seq_params), {}
            code = self.block(body, env, None, False)
            monadic = False
        except NeedMonad:
            self.tmp = 0
            self.nwhile = 0
            self.nest, self.param_alias, self.lent = 0, set(seq_params), {}
            code = self.block(body, env, None, True)
            monadic = True
        return prologue + code, monadic


def _as_load(t):
    if isinstance(t, ast.Name):
        return ast.Name(id=t.id, ctx=ast.Load())
    if isinstance(t, ast.Attribute):
        return ast.Attribute(value=t.value, attr=t.attr, ctx=ast.Load())
    if isinstance(t, ast.Subscript):
        return ast.Subscript(value=t.value, slice=t.slice, ctx=ast.Load())
    raise Refuse('augassign target')


def assigns_self(fdef, cls, funcs=None):
    funcs = funcs or {}
    for n in ast.walk(fdef):
        # self.m(...) where m is a translated method that updates self
        if isinstance(n, ast.Call) and isinstance(n.func, ast.Attribute) and isinstance(n.func.value, ast.Name) \
                and n.func.value.id == 'self':
            g = funcs.get((cls.pyname, n.func.attr))
            if g is not None and g.kind == 'method' and g.mut_self:
                return True
        # self.obj.m(...) where obj is an object-valued field and m updates it
        if isinstance(n, ast.Call) and isinstance(n.func, ast.Attribute) and isinstance(n.func.value, ast.Attribute) \
                and isinstance(n.func.value.value, ast.Name) and n.func.value.value.id == 'self':
            ft = cls.ftype(n.func.value.attr)
            if isinstance(ft, tuple) and ft[0] == 'obj':
                for (cn, mn), g in funcs.items():
                    if mn == n.func.attr and g.cls is not None and g.cls.rec == ft[1] and g.kind == 'method' and g.mut_self:
                        return True
        tg = []
        if isinstance(n, ast.Assign):
            for t in n.targets:
                tg += t.elts if isinstance(t, ast.Tuple) else [t]
        elif isinstance(n, ast.AugAssign):
            tg = [n.target]
        for t in tg:
            while isinstance(t, ast.Subscript):
                t = t.value
            if isinstance(t, ast.Attribute) and isinstance(t.value, ast.Attribute):
                t = t.value
            if isinstance(t, ast.Attribute) and isinstance(t.value, ast.Name) and t.value.id == 'self' \
                    and cls.ftype(t.attr) is not None:
                return True
        # a method of an object-valued field that updates that object
        if isinstance(n, ast.Call) and isinstance(n.func, ast.Attribute) and isinstance(n.func.value, ast.Attribute) \
                and isinstance(n.func.value.value, ast.Name) and n.func.value.value.id == 'self':
            ft = cls.ftype(n.func.value.attr)
            if isinstance(ft, tuple) and ft[0] == 'obj' and getattr(cls, 'mutating_field_calls', None) and \
                    (n.func.value.attr, n.func.attr) in cls.mutating_field_calls:
                return True
    return False


class Module9:
    """One generated file.  items: ClassInfo (emits a Record) and FnSig in dependency order."""

    BUILTINS = {
        # python name -> (Gallina name, argument types, result type, fallible)
        'ct_compare_digest': ('list_eqb', ['bytes', 'bytes'], 'bool', False),     # hmac.compare_digest
        'bytesToNumber': ('bytesToNumber', ['bytes'], 'Z', False),
        'numberToByteArray': ('numberToByteArray', ['Z', 'Z'], 'bytes', False),
    }

    def __init__(self, name, repo, items, requires=(), uses=(), builtins=None, consts=None, oracle=False):
        self.oracle = oracle
        self.module_name = name
        self.repo = repo
        self.items = items
        self.requires = list(requires)
        self.classes = {}
        self.funcs = {}          # (class pyname or '', name) -> FnSig
        self.sigs = {}
        self.fallible = {}
        self.builtins = dict(self.BUILTINS)
        self.builtins.update(builtins or {})
        self.consts = dict(consts or {})
        self.uses = list(uses)   # other Module9 objects (already translated) whose functions may be called

    def class_by_rec(self, rec):
        for c in self.classes.values():
            if c.rec == rec:
                return c
        raise Refuse('unknown record %s' % rec)

    def load(self, relpath):
        path = os.path.join(self.repo, relpath)
        with open(path) as f:
            return ast.parse(f.read())

    def translate(self):
        out = ['(* GENERATED by translator/pylite_c09.py from %s -- do not edit. *)' % self.repo,
               'From Coq Require Import ZArith List Bool String.',
               'From TV Require Import Base.Prelude Base.C09_Lib Base.C09_Oracle%s.' % ''.join(' ' + r for r in self.requires),
               'Import ListNotations.', 'Open Scope list_scope.', 'Open Scope Z_scope.', '']
        for u in self.uses:
            if callable(u):
                u = u()
                u.translate()
            self.classes.update(u.classes)
            self.funcs.update(u.funcs)
        trees = {}
        for it in self.items:
            if isinstance(it, ClassInfo):
                self.classes[it.pyname] = it
                mod = importlib.import_module(it.module)
                it.pyobj = getattr(mod, it.pyname)
                out.append('Record %s := mk%s { %s }.\n' % (
                    it.rec, it.rec, '; '.join('%s%s : %s' % (it.prefix, f, ty_str(t)) for f, t in it.fields)))
                continue
            fs, relpath = it
            if relpath not in trees:
                trees[relpath] = self.load(relpath)
            tree = trees[relpath]
            setter = False
            if '.' in fs.qual:
                cname, fname = fs.qual.split('.')
                if fname.endswith('@setter'):
                    fname, setter = fname[:-len('@setter')], True
                cdefs = [n for n in tree.body if isinstance(n, ast.ClassDef) and n.name == cname]
                if not cdefs:
                    raise Refuse('class %s not found in %s' % (cname, relpath))

                def is_setter(n):
                    return any(isinstance(d, ast.Attribute) and d.attr == 'setter' and isinstance(d.value, ast.Name)
                               and d.value.id == n.name for d in n.decorator_list)
                fdefs = [n for n in cdefs[0].body if isinstance(n, ast.FunctionDef) and n.name == fname and is_setter(n) == setter]
                fs.cls = self.classes[cname]
                # every declared property must have the trivial getter `return self.<field>` and, if the class has a
                # setter for it, that setter must be translated (assignments through the property call it)
                for prop, fld in fs.cls.props.items():
                    getters = [n for n in cdefs[0].body if isinstance(n, ast.FunctionDef) and n.name == prop and not is_setter(n)]
                    ok = len(getters) == 1 and len(getters[0].body) == 1 and isinstance(getters[0].body[0], ast.Return) and \
                        isinstance(getters[0].body[0].value, ast.Attribute) and getters[0].body[0].value.attr == fld and \
                        isinstance(getters[0].body[0].value.value, ast.Name) and getters[0].body[0].value.value.id == 'self'
                    if not ok:
                        raise Refuse('property %s.%s is not the plain getter of %s' % (cname, prop, fld))
            else:
                cname, fname = '', fs.qual
                fdefs = [n for n in tree.body if isinstance(n, ast.FunctionDef) and n.name == fname]
            if len(fdefs) != 1:
                raise Refuse('function %s not found (or ambiguous) in %s' % (fs.qual, relpath))
            fd = fdefs[0]
            decos = [d.id for d in fd.decorator_list if isinstance(d, ast.Name)]
            if len(decos) + (1 if setter else 0) != len(fd.decorator_list):
                raise Refuse('decorator on %s' % fs.qual)
            argnames = [a.arg for a in fd.args.args]
            if cname:
                if 'staticmethod' in decos:
                    fs.kind = 'static'
                elif 'classmethod' in decos:
                    fs.kind = 'classm'
                    argnames = argnames[1:]
                elif fs.kind == 'guard':
                    if argnames[:1] != ['self']:
                        raise Refuse('first parameter of %s' % fs.qual)
                    argnames = argnames[1:]
                else:
                    fs.kind = 'init' if fname == '__init__' else 'method'
                    if argnames[:1] != ['self']:
                        raise Refuse('first parameter of %s' % fs.qual)
                    argnames = argnames[1:]
                    fs.mut_self = fs.kind == 'method' and assigns_self(fd, fs.cls, self.funcs)
            if argnames != [p for p, _ in fs.params]:
                raise Refuse('signature of %s changed: %s' % (fs.qual, argnames))
            if fd.args.vararg or fd.args.kwarg or fd.args.kwonlyargs:
                raise Refuse('varargs in %s' % fs.qual)
            for a, d in zip(reversed(fd.args.args), reversed(fd.args.defaults)):
                if not isinstance(d, ast.Constant):
                    raise Refuse('non-constant default')
                fs.defaults[a.arg] = d.value
            fs.oracle = self.oracle
            if fs.kind == 'guard' and not cname:
                raise Refuse('guard must be a method')
            self.funcs[(cname, fname + ('@setter' if setter else ''))] = fs
            ft = Fn9(self, fd, fs)
            code, monadic = ft.translate()
            fs.fallible = monadic
            params = ' '.join('(%s : %s)' % (p, ty_str(t)) for p, t in
                              ([('Orc', ('raw', fs.oracle if isinstance(fs.oracle, str) else 'Oracles'))] if fs.oracle else []) +
                              ([('self', ('obj', fs.cls.rec))] if fs.kind == 'method' else []) + fs.params)
            outs = fs.out_types()
            rty = 'unit' if not outs else (ty_str(outs[0]) if len(outs) == 1 else '(' + ' * '.join(ty_str(t) for t in outs) + ')')
            if monadic:
                rty = 'res (%s)' % rty
            out.append('(* %s:%d %s%s *)' % (relpath, fd.lineno, fs.qual,
                                             (' defaults=%r' % fs.defaults) if fs.defaults else ''))
            out.append('Definition %s %s : %s :=\n%s.\n' % (fs.gname, params, rty, indent(code)))
        for ci in self.classes.values():
            both = sorted(set(ci.alias_fields) & set(ci.inplace_fields))
            if both:
                f = both[0]
                raise Refuse('class %s: field %s holds a caller-owned sequence stored without copying (%s) and is updated in place (%s): '
                             'aliasing outside the translator\'s value semantics' % (ci.pyname, f, ci.alias_fields[f], ci.inplace_fields[f]))
        return '\n'.join(out)
