"""C14: table of the blocking wrappers of tlslite's generator API, extracted from the ast.

A blocking wrapper is a method whose body (after the docstring) drains a generator obtained from
another method of the same object:
    for x in self.G(args): pass                      (handshakeServer, read, write, close, ...)
    g = self.G(args) ; if async_: return g ; for x in g: pass        (handshakeClient*)
For every parameter p of the wrapper (self and the async_ switch excluded) the table records
whether p is used in the call that builds the generator, and -- when p is passed through as is --
the name of the parameter of G it is bound to (by position or keyword).  The Coq obligation
(Props/C14.v: blocking_wrappers_forward_every_parameter) is: every parameter is used, and every
pass-through reaches a parameter of the same name.  Regenerated from /repo on every run."""
import ast
import os

REPO = os.path.realpath(os.environ.get('VERIF_REPO', '/repo'))
FILES = ['tlslite/tlsconnection.py', 'tlslite/tlsrecordlayer.py', 'tlslite/messagesocket.py']
SWITCHES = ('async_',)
# parameters that legitimately reach a differently named parameter of the generator
RENAMES = {}


def _params(fn):
    a = fn.args
    names = [x.arg for x in a.posonlyargs + a.args]
    if names and names[0] == 'self':
        names = names[1:]
    return names + [x.arg for x in a.kwonlyargs]


def _self_call(node):
    """self.G(...) -> (G, Call) else None"""
    if isinstance(node, ast.Call) and isinstance(node.func, ast.Attribute) and \
            isinstance(node.func.value, ast.Name) and node.func.value.id == 'self':
        return node.func.attr, node
    return None


def _drains(stmt, gens):
    """for x in <self.G(...) | name bound to it>: pass  (body only pass / bare expression)"""
    if not isinstance(stmt, ast.For):
        return None
    if not all(isinstance(b, ast.Pass) for b in stmt.body):
        return None
    sc = _self_call(stmt.iter)
    if sc:
        return sc
    if isinstance(stmt.iter, ast.Name) and stmt.iter.id in gens:
        return gens[stmt.iter.id]
    return None


def extract(repo=REPO):
    """[(file, class, wrapper, generator, [(param, used, bound_to or None)])] , problems"""
    out, problems = [], []
    for rel in FILES:
        with open(os.path.join(repo, rel)) as f:
            tree = ast.parse(f.read())
        for cls in [n for n in tree.body if isinstance(n, ast.ClassDef)]:
            methods = {n.name: n for n in cls.body if isinstance(n, ast.FunctionDef)}
            for name, fn in methods.items():
                gens = {}
                found = None
                for stmt in fn.body:
                    if isinstance(stmt, ast.Assign) and len(stmt.targets) == 1 and isinstance(stmt.targets[0], ast.Name):
                        sc = _self_call(stmt.value)
                        if sc:
                            gens[stmt.targets[0].id] = sc
                    d = _drains(stmt, gens)
                    if d:
                        found = d
                    if isinstance(stmt, ast.If):           # "if not self.closed: for ... : pass"
                        for s2 in stmt.body:
                            d = _drains(s2, gens)
                            if d:
                                found = d
                if not found:
                    continue
                gname, call = found
                if any(isinstance(n, (ast.Yield, ast.YieldFrom)) for n in ast.walk(fn)):
                    continue            # a generator itself, not a blocking wrapper
                callee = methods.get(gname)
                cparams = _params(callee) if callee is not None else None
                rows = []
                for p in _params(fn):
                    if p in SWITCHES:
                        continue
                    used, bound = False, None
                    for i, a in enumerate(call.args):
                        if any(isinstance(n, ast.Name) and n.id == p for n in ast.walk(a)):
                            used = True
                            if isinstance(a, ast.Name):
                                bound = cparams[i] if cparams is not None and i < len(cparams) else '?'
                    for kw in call.keywords:
                        if any(isinstance(n, ast.Name) and n.id == p for n in ast.walk(kw.value)):
                            used = True
                            if isinstance(kw.value, ast.Name):
                                bound = kw.arg
                    if bound is not None and RENAMES.get((name, p)) == bound:
                        bound = p
                    rows.append((p, used, bound))
                out.append((rel, cls.name, name, gname, rows))
    return out, problems


EXPECTED = ['handshakeClientAnonymous', 'handshakeClientSRP', 'handshakeClientCert', 'handshakeServer',
            'read', 'write', 'close', 'send_heartbeat_request']


class _Unit(object):
    def translate(self):
        from pylite import Refuse
        table, _ = extract()
        names = [t[2] for t in table]
        missing = [e for e in EXPECTED if e not in names]
        if missing:
            raise Refuse('blocking wrappers not recognised any more: %s' % missing)

        def s(x):
            return '"%s"%%string' % x
        rows = []
        for rel, cls, w, g, ps in table:
            rows.append('  (%s, %s, [%s])' % (s(cls + '.' + w), s(g), '; '.join(
                '(%s, %s, %s)' % (s(p), 'true' if u else 'false', 'None' if b is None else '(Some %s)' % s(b)) for p, u, b in ps)))
        return ('(* GENERATED by translator/units_c14wrappers.py from %s -- do not edit *)\n'
                'From Coq Require Import String List Bool.\nImport ListNotations.\n\n'
                '(* wrapper, generator, [(parameter, used in the generator call, passed through to) ] *)\n'
                'Definition wrappers : list (string * string * list (string * bool * option string)) := [\n%s\n].\n\n'
                'Definition param_ok (p : string * bool * option string) : bool :=\n'
                '  let \'(name, used, bound) := p in\n'
                '  used && match bound with None => true | Some q => String.eqb name q end.\n'
                'Definition wrapper_ok (w : string * string * list (string * bool * option string)) : bool :=\n'
                '  forallb param_ok (snd w).\n'
                % (', '.join(FILES), ';\n'.join(rows)))


UNITS = {'C14_Wrappers': lambda: _Unit()}

if __name__ == '__main__':
    for row in extract()[0]:
        print(row)
