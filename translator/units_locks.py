"""C18: extraction of lock scopes and shared accesses from the Python ast.

For every analysed method of a class that the documentation declares thread-safe, emit the
ordered list of steps it performs on `self` (coq/Gen/Locks.v, vocabulary in
coq/Model/C18_LockSteps.v):

    XAcq l / XRel l      self.l.acquire() ... try/finally self.l.release(), or `with self.l:`
    XRead a Ref|Obj      the binding self.a / the object behind it is read
    XWrite a Ref|Obj     self.a = ... / self.a[...] = ..., del self.a[...], self.a.unknown_method()
    XClock               time.time() (any call into the time/datetime modules): a read of shared state
                         written by the environment; must happen at the linearization point
    XLocal               everything else a statement does (locals, arguments, external functions)

Conventions (conservative: when in doubt an access is reported, and reported as a write):
  * a bare `self.a` in any expression reads both the binding and the object (Ref, Obj), except in
    a comparison with the constant None, which reads only the binding;
  * a local name assigned directly from `self.a`, or from `self.a.keys()/items()/values()` (live
    dict views), is an alias: later uses of the name read (method calls: write) the object
    behind self.a;
  * `self.m(...)` / `Base.m(self, ...)` are inlined through the class's MRO (recursion refused); a
    parameter that receives `self.a` or an alias of it is an alias inside the callee;
  * if/while/for/try are flattened: test, then every branch in source order; branches must not
    contain lock operations;
  * a bare `self.l.acquire()` must be followed immediately by `try: ... finally: self.l.release()`,
    otherwise an exception or return could leak the lock: refused;
  * every write to any attribute of self is reported (XWrite), whatever the attribute; an attribute of self
    that no `__init__` of the MRO creates is refused (unknown shared state);
  * passing `self` itself anywhere, nested functions, lambdas, yield, global, subscript stores on
    non-self targets and every ast node not listed here are refused (fail closed).
The decision whether the lists respect the lock discipline is NOT taken here: it is
`all_methods_ok Locks.all_methods = true`, checked by vm_compute in Coq (Proofs/C18_Locks.v).
"""
import ast
import hashlib
import os

from pylite import Refuse

REPO = os.path.realpath(os.environ.get('VERIF_REPO', '/repo'))

# (class name, [(file, class)] in MRO order, methods NOT analysed with the reason)
# Entry points are discovered, not listed: every method of the MRO classes that takes `self` and is public
# or a dunder (names with one leading underscore are helpers: analysed where they are called) -- a method
# added to a shared class is analysed automatically.
CLASSES = [
    ('SessionCache', [('tlslite/sessioncache.py', 'SessionCache')],
     {'__init__': 'constructor'}),
    ('VerifierDB', [('tlslite/verifierdb.py', 'VerifierDB'), ('tlslite/basedb.py', 'BaseDB')],
     {'__init__': 'constructor',
      'create': 'set-up: rebinds self.db; documented to be called before the database is used',
      'open': 'set-up: rebinds self.db; documented to be called before the database is used'}),
    ('Python_RSAKey', [('tlslite/utils/python_rsakey.py', 'Python_RSAKey'), ('tlslite/utils/rsakey.py', 'RSAKey')],
     {'__init__': 'constructor',
      'write': 'abstract in these classes (raises NotImplementedError)'}),
]
# entry points that must be present (the property names them); discovery may only add to these
REQUIRED = {
    'SessionCache': ['__getitem__', '__setitem__'],
    'VerifierDB': ['__getitem__', '__setitem__', '__delitem__', '__contains__', 'check', 'keys'],
    'Python_RSAKey': ['sign', 'verify', 'encrypt', 'decrypt', 'hashAndSign', 'hashAndVerify',
                      'RSASSA_PSS_sign', 'RSASSA_PSS_verify'],
}
# decorators that only rename keyword arguments
TRANSPARENT_DECORATORS = {'deprecated_params', 'deprecated_method'}
# sources of randomness: a value computed from them is not reproducible
RANDOM_FUNCTIONS = {'getRandomBytes', 'getRandomNumber', 'getRandomPrime', 'getRandomSafePrime', 'urandom', 'random',
                    'randrange', 'randint', 'getrandbits'}

# calls that read a clock: any function of these modules, or these bare names
CLOCK_MODULES = {'time', 'datetime'}
CLOCK_FUNCTIONS = {'time', 'monotonic', 'perf_counter', 'time_ns', 'monotonic_ns'}

# methods of contained objects known not to modify them
PURE_METHODS = {'keys', 'get', 'items', 'values', '__contains__', 'copy'}
# methods that return a live view of a dict: the result aliases the object
VIEW_METHODS = {'keys', 'items', 'values'}


FRESH_CTORS = {'bytearray', 'list', 'dict', 'set', 'bytes'}


def is_fresh_expr(v):
    """an expression whose value is a new object nobody else can hold"""
    if isinstance(v, (ast.List, ast.Dict, ast.Set, ast.ListComp, ast.DictComp, ast.SetComp, ast.BinOp)):
        return True
    return isinstance(v, ast.Call) and isinstance(v.func, ast.Name) and v.func.id in FRESH_CTORS


def is_self(e):
    return isinstance(e, ast.Name) and e.id == 'self'


def self_attr(e):
    """'a' if e is exactly self.a"""
    if isinstance(e, ast.Attribute) and is_self(e.value):
        return e.attr
    return None


class MethodExtractor:
    def __init__(self, cls):
        self.cls = cls
        self.aliases = {}
        self.locals = set()
        self.fresh = set()        # local names bound to an object created in this call (may be mutated freely)
        self.stack = []

    # ------------------------------------------------------------ expressions
    def bare(self, a):
        return [('R', a, 'Ref'), ('R', a, 'Obj')]

    def acc(self, e):
        if e is None:
            return []
        if isinstance(e, ast.Constant):
            return []
        if isinstance(e, ast.Name):
            if e.id == 'self':
                raise Refuse('bare use of self (line %d): the object escapes' % e.lineno)
            if e.id in self.aliases:
                return [('R', self.aliases[e.id], 'Obj')]
            return []
        a = self_attr(e)
        if a is not None:
            if a in self.cls.locks:
                raise Refuse('lock attribute used as a value (line %d)' % e.lineno)
            return self.bare(a)
        if isinstance(e, ast.Attribute):
            return self.acc(e.value)
        if isinstance(e, ast.Subscript):
            return self.acc(e.slice) + self.acc(e.value)
        if isinstance(e, ast.Slice):
            return self.acc(e.lower) + self.acc(e.upper) + self.acc(e.step)
        if isinstance(e, ast.Call):
            return self.call(e)
        if isinstance(e, ast.Compare):
            operands = [e.left] + list(e.comparators)
            none_cmp = (len(operands) == 2 and isinstance(e.ops[0], (ast.Eq, ast.NotEq, ast.Is, ast.IsNot))
                        and any(isinstance(o, ast.Constant) and o.value is None for o in operands))
            out = []
            for o in operands:
                a = self_attr(o)
                if a is not None and none_cmp:
                    out += [('R', a, 'Ref')]
                else:
                    out += self.acc(o)
            return out
        if isinstance(e, (ast.BinOp,)):
            return self.acc(e.left) + self.acc(e.right)
        if isinstance(e, ast.BoolOp):
            return sum((self.acc(v) for v in e.values), [])
        if isinstance(e, ast.UnaryOp):
            return self.acc(e.operand)
        if isinstance(e, ast.IfExp):
            return self.acc(e.test) + self.acc(e.body) + self.acc(e.orelse)
        if isinstance(e, (ast.Tuple, ast.List, ast.Set)):
            return sum((self.acc(v) for v in e.elts), [])
        if isinstance(e, ast.Dict):
            return sum((self.acc(k) + self.acc(v) for k, v in zip(e.keys, e.values)), [])
        if isinstance(e, (ast.ListComp, ast.GeneratorExp, ast.SetComp)):
            out = []
            for g in e.generators:
                if g.is_async:
                    raise Refuse('async comprehension')
                out += self.acc(g.iter) + sum((self.acc(c) for c in g.ifs), [])
            return out + self.acc(e.elt)
        if isinstance(e, ast.JoinedStr):
            return sum((self.acc(v) for v in e.values), [])
        if isinstance(e, ast.FormattedValue):
            return self.acc(e.value)
        raise Refuse('expression %s (line %d)' % (type(e).__name__, getattr(e, 'lineno', 0)))

    def args(self, e):
        out = []
        for x in list(e.args) + [k.value for k in e.keywords]:
            if isinstance(x, ast.Starred):
                raise Refuse('starred argument (line %d)' % e.lineno)
            out += self.acc(x)
        return out

    def call(self, e):
        f = e.func
        if (isinstance(f, ast.Attribute) and isinstance(f.value, ast.Name) and f.value.id in CLOCK_MODULES) or \
                (isinstance(f, ast.Name) and f.id in CLOCK_FUNCTIONS):
            # a clock read: shared state written by the environment (see XClock in Model/C18_LockSteps.v)
            return self.args(e) + [('C',)]
        if isinstance(f, ast.Attribute):
            inner = self_attr(f.value)
            if inner is not None:                       # self.a.m(...)
                if inner in self.cls.locks:
                    raise Refuse('lock operation in an unsupported position (line %d)' % e.lineno)
                eff = ('R', inner, 'Obj') if f.attr in PURE_METHODS else ('W', inner, 'Obj')
                return self.args(e) + [('R', inner, 'Ref'), eff]
            if is_self(f.value):                        # self.m(...)
                return self.args(e) + self.inline(f.attr, e.lineno, shared=self.shared_args(e))
            if isinstance(f.value, ast.Name) and f.value.id in self.cls.mro_names:     # Base.m(self, ...)
                if not (e.args and is_self(e.args[0])):
                    raise Refuse('unbound base method call without self (line %d)' % e.lineno)
                rest = ast.Call(func=f, args=e.args[1:], keywords=e.keywords, lineno=e.lineno)
                return self.args(rest) + self.inline(f.attr, e.lineno, start_after=f.value.id,
                                                     shared=self.shared_args(rest))
            if isinstance(f.value, ast.Name) and f.value.id in self.aliases:            # alias.m(...)
                a = self.aliases[f.value.id]
                eff = ('R', a, 'Obj') if f.attr in PURE_METHODS else ('W', a, 'Obj')
                return self.args(e) + [eff]
            return self.acc(f.value) + self.args(e) + [('L',)]
        if isinstance(f, ast.Name):
            if f.id == 'self':
                raise Refuse('call of self')
            if f.id in ('hasattr', 'getattr') and len(e.args) >= 2 and is_self(e.args[0]) and \
                    isinstance(e.args[1], ast.Constant) and isinstance(e.args[1].value, str) and not e.keywords:
                a = e.args[1].value                     # hasattr(self, 'a') / getattr(self, 'a'[, default])
                if a in self.cls.locks:
                    raise Refuse('lock attribute used as a value (line %d)' % e.lineno)
                self.cls.check_attr(a, e.lineno)
                return sum((self.acc(x) for x in e.args[2:]), []) + (
                    [('R', a, 'Ref')] if f.id == 'hasattr' else self.bare(a))
            if f.id in RANDOM_FUNCTIONS:
                return self.args(e) + [('N',), ('L',)]      # 'N': non-reproducible value
            return self.args(e) + [('L',)]
        return self.acc(f) + self.args(e) + [('L',)]       # computed callee, e.g. getattr(hashlib, name)()

    def shared_args(self, e):
        """arguments that are self attributes or aliases: {position or keyword: attribute}; the callee's
        parameter becomes a tracked alias"""
        out = {}
        for k, x in list(enumerate(e.args)) + [(kw.arg, kw.value) for kw in e.keywords]:
            a = self_attr(x)
            if a is None and isinstance(x, ast.Name) and x.id in self.aliases:
                a = self.aliases[x.id]
            if a is not None:
                if k is None:
                    raise Refuse('**kwargs in an inlined call (line %d)' % e.lineno)
                out[k] = a
        return out

    def inline(self, name, lineno, start_after=None, shared=None):
        key = (name, start_after)
        if key in self.stack or len(self.stack) > 6:
            raise Refuse('recursive or too deep self call %s (line %d)' % (name, lineno))
        fd = self.cls.find_method(name, start_after)
        if fd is None:
            raise Refuse('self.%s does not resolve in %s (line %d)' % (name, self.cls.name, lineno))
        sub = MethodExtractor(self.cls)
        sub.stack = self.stack + [key]
        sub.aliases = {}
        params = [a.arg for a in (fd.args.args if method_kind(fd) == 'static' else fd.args.args[1:])]
        for k, attr in (shared or {}).items():
            if isinstance(k, int):
                if k >= len(params):
                    raise Refuse('too many arguments for %s (line %d)' % (name, lineno))
                sub.aliases[params[k]] = attr
            else:
                if k not in params:
                    raise Refuse('unknown keyword %s for %s (line %d)' % (k, name, lineno))
                sub.aliases[k] = attr
        return sub.method(fd)

    # ------------------------------------------------------------ statements
    def branch(self, stmts, what, lineno):
        """a branch that may contain whole critical sections (only through inlined calls / with / the
        acquire-try-finally idiom, i.e. balanced)"""
        steps = self.block(stmts)
        for pth in expand(steps):
            depth = 0
            for x in pth:
                if x[0] == 'A':
                    depth += 1
                elif x[0] == 'X':
                    depth -= 1
                if depth < 0 or depth > 1:
                    raise Refuse('unbalanced lock operations inside %s (line %d)' % (what, lineno))
            if depth != 0:
                raise Refuse('unbalanced lock operations inside %s (line %d)' % (what, lineno))
        return steps

    def store(self, t):
        if isinstance(t, ast.Name):
            return []
        if isinstance(t, (ast.Tuple, ast.List)):
            return sum((self.store(x) for x in t.elts), [])
        a = self_attr(t)
        if a is not None:
            if a in self.cls.locks:
                raise Refuse('lock attribute reassigned (line %d)' % t.lineno)
            return [('W', a, 'Ref')]
        if isinstance(t, ast.Subscript):
            a = self_attr(t.value)
            if a is not None:
                return self.acc(t.slice) + [('R', a, 'Ref'), ('W', a, 'Obj')]
            if isinstance(t.value, ast.Name) and t.value.id in self.aliases:
                return self.acc(t.slice) + [('W', self.aliases[t.value.id], 'Obj')]
            if isinstance(t.value, ast.Name) and t.value.id in self.fresh:
                return self.acc(t.slice)                 # in-place change of an object this call created
            raise Refuse('subscript store on a non-self target that this call did not create (line %d): '
                         'it may be shared' % t.lineno)
        raise Refuse('assignment target %s (line %d)' % (type(t).__name__, t.lineno))

    def note_aliases(self, targets, value):
        pairs = []
        for t in targets:
            if isinstance(t, ast.Name):
                pairs.append((t, value))
            elif isinstance(t, (ast.Tuple, ast.List)) and isinstance(value, (ast.Tuple, ast.List)) \
                    and len(t.elts) == len(value.elts):
                pairs += list(zip(t.elts, value.elts))
            elif isinstance(t, (ast.Tuple, ast.List)):
                for x in t.elts:
                    if isinstance(x, ast.Name):
                        self.aliases.pop(x.id, None)
        for t, v in pairs:
            if isinstance(t, ast.Name):
                if is_fresh_expr(v):
                    self.fresh.add(t.id)
                else:
                    self.fresh.discard(t.id)
                a = self_attr(v)
                if a is None and isinstance(v, ast.Call) and isinstance(v.func, ast.Attribute) \
                        and v.func.attr in VIEW_METHODS:
                    a = self_attr(v.func.value)     # x = self.a.keys(): a live view of self.a (dict) -- still the object
                if a is not None:
                    self.aliases[t.id] = a
                else:
                    self.aliases.pop(t.id, None)

    def lock_call(self, s, which):
        """'l' if statement s is exactly self.l.<which>()"""
        if isinstance(s, ast.Expr) and isinstance(s.value, ast.Call):
            f = s.value.func
            if isinstance(f, ast.Attribute) and f.attr == which and not s.value.args and not s.value.keywords:
                a = self_attr(f.value)
                if a is not None and a in self.cls.locks:
                    return a
        return None

    @staticmethod
    def has_lock_ops(steps):
        for x in steps:
            if x[0] in ('A', 'X'):
                return True
            if x[0] == 'ALT' and any(MethodExtractor.has_lock_ops(p) for p in x[1]):
                return True
        return False

    def nolock(self, stmts, what, lineno):
        steps = self.block(stmts)
        if self.has_lock_ops(steps):
            raise Refuse('lock operation inside %s (line %d)' % (what, lineno))
        return steps

    def block(self, stmts):
        out = []
        i = 0
        while i < len(stmts):
            s = stmts[i]
            lk = self.lock_call(s, 'acquire')
            if lk is not None:
                nxt = stmts[i + 1] if i + 1 < len(stmts) else None
                if not (isinstance(nxt, ast.Try) and len(nxt.finalbody) == 1
                        and self.lock_call(nxt.finalbody[0], 'release') == lk):
                    raise Refuse('acquire() not followed by try/finally release() (line %d)' % s.lineno)
                inner = self.nolock(nxt.body, 'locked region', nxt.lineno)
                for h in nxt.handlers:
                    inner += self.acc(h.type) + self.nolock(h.body, 'except handler', h.lineno)
                inner += self.nolock(nxt.orelse, 'try-else', nxt.lineno)
                out += [('A', lk)] + inner + [('X', lk)]
                i += 2
                continue
            if self.lock_call(s, 'release') is not None:
                raise Refuse('release() outside a finally clause (line %d)' % s.lineno)
            out += self.stmt(s)
            i += 1
        return out

    def stmt(self, s):
        if isinstance(s, ast.Expr):
            if isinstance(s.value, ast.Constant):
                return []
            return self.acc(s.value) + [('L',)]
        if isinstance(s, ast.Assign):
            r = self.acc(s.value)
            for t in s.targets:
                st = self.store(t)
                a = self_attr(t)
                names = [x.id for x in ast.walk(s.value) if isinstance(x, ast.Name) and x.id != 'self']
                if a is not None and st == [('W', a, 'Ref')] and not any(x[0] in ('N', 'C', 'W', 'A', 'X', 'ALT') for x in r) \
                        and all(nm in self.aliases or nm not in self.locals for nm in names):
                    # self.a = E with E free of clock, randomness, writes, lock operations and of local
                    # variables other than copies of attributes: a candidate for "idempotent initialisation"
                    # (decided in Coq: every attribute E reads must be immutable and different from a)
                    st = [('I', a, tuple(sorted(set((x[1], x[2]) for x in r if x[0] == 'R'))),
                           hashlib.sha256(ast.dump(s.value).encode()).hexdigest()[:12])]
                r += st
            self.note_aliases(s.targets, s.value)
            return r + [('L',)]
        if isinstance(s, ast.AugAssign):
            a = self_attr(s.target)
            if a is not None:
                return self.acc(s.value) + self.bare(a) + [('W', a, 'Ref'), ('L',)]
            if isinstance(s.target, ast.Name):
                self.aliases.pop(s.target.id, None)
                return self.acc(s.value) + [('L',)]
            if isinstance(s.target, ast.Subscript):
                return self.acc(s.value) + self.store(s.target) + [('L',)]
            raise Refuse('augmented assignment target (line %d)' % s.lineno)
        if isinstance(s, ast.Delete):
            r = []
            for t in s.targets:
                if isinstance(t, ast.Name):
                    continue
                if not isinstance(t, ast.Subscript):
                    raise Refuse('del target (line %d)' % s.lineno)
                r += self.store(t)
            return r + [('L',)]
        if isinstance(s, ast.Return):
            return self.acc(s.value) + [('L',)]
        if isinstance(s, ast.Raise):
            return self.acc(s.exc) + self.acc(s.cause) + [('L',)]
        if isinstance(s, ast.Assert):
            return self.acc(s.test) + self.acc(s.msg) + [('L',)]
        if isinstance(s, (ast.Pass, ast.Break, ast.Continue)):
            return []
        if isinstance(s, ast.If):
            saved = dict(self.aliases)
            b = self.branch(s.body, 'if', s.lineno)
            self.aliases = dict(saved)
            o = self.branch(s.orelse, 'else', s.lineno)
            self.aliases = saved
            if self.has_lock_ops(b) or self.has_lock_ops(o):
                # a critical section inside a branch: the two branches are separate paths
                return self.acc(s.test) + [('L',), ('ALT', [b, o])]
            return self.acc(s.test) + [('L',)] + b + o
        if isinstance(s, ast.While):
            return (self.acc(s.test) + [('L',)] + self.nolock(s.body, 'while', s.lineno)
                    + self.nolock(s.orelse, 'while-else', s.lineno))
        if isinstance(s, ast.For):
            r = self.acc(s.iter) + self.store(s.target) + [('L',)]
            return r + self.nolock(s.body, 'for', s.lineno) + self.nolock(s.orelse, 'for-else', s.lineno)
        if isinstance(s, ast.With):
            if len(s.items) != 1 or s.items[0].optional_vars is not None:
                raise Refuse('with form (line %d)' % s.lineno)
            a = self_attr(s.items[0].context_expr)
            if a is None or a not in self.cls.locks:
                raise Refuse('with on something that is not a lock of self (line %d)' % s.lineno)
            return [('A', a)] + self.nolock(s.body, 'with', s.lineno) + [('X', a)]
        if isinstance(s, ast.Try):
            r = self.branch(s.body, 'try', s.lineno)
            for h in s.handlers:
                r += self.acc(h.type) + self.nolock(h.body, 'except handler', h.lineno)
            return r + self.nolock(s.orelse, 'try-else', s.lineno) + self.nolock(s.finalbody, 'finally', s.lineno)
        raise Refuse('statement %s (line %d)' % (type(s).__name__, s.lineno))

    def method(self, fd):
        for n in ast.walk(fd):
            a = self_attr(n)
            if a is not None:
                self.cls.check_attr(a, n.lineno)
        if fd.args.vararg or fd.args.kwarg:
            raise Refuse('varargs in %s' % fd.name)
        kind = method_kind(fd)
        self.locals = set(a.arg for a in fd.args.args + fd.args.kwonlyargs)
        for n in ast.walk(fd):
            if isinstance(n, ast.Name) and isinstance(n.ctx, (ast.Store, ast.Del)):
                self.locals.add(n.id)
        if kind == 'instance' and (not fd.args.args or fd.args.args[0].arg != 'self'):
            raise Refuse('%s is not an instance method' % fd.name)
        for n in ast.walk(fd):
            if isinstance(n, (ast.Yield, ast.YieldFrom, ast.Await, ast.Lambda, ast.Global, ast.Nonlocal,
                              ast.FunctionDef, ast.AsyncFunctionDef, ast.ClassDef)) and n is not fd:
                raise Refuse('%s in %s (line %d)' % (type(n).__name__, fd.name, n.lineno))
        return self.block(fd.body)


MAX_PATHS = 64


def expand(steps):
    """all paths of a step list with ('ALT', [alternatives]) markers"""
    paths = [[]]
    for x in steps:
        if x[0] == 'ALT':
            alts = [q for alt in x[1] for q in expand(alt)]
            paths = [pth + q for pth in paths for q in alts]
        else:
            for pth in paths:
                pth.append(x)
        if len(paths) > MAX_PATHS:
            raise Refuse('more than %d lock-relevant paths' % MAX_PATHS)
    return paths


def method_kind(fd):
    """'instance' | 'static' | 'class'; unknown decorators are refused"""
    kind = 'instance'
    for d in fd.decorator_list:
        name = d.id if isinstance(d, ast.Name) else (
            d.func.id if isinstance(d, ast.Call) and isinstance(d.func, ast.Name) else None)
        if name == 'staticmethod':
            kind = 'static'
        elif name == 'classmethod':
            kind = 'class'
        elif name in TRANSPARENT_DECORATORS:
            pass
        else:
            raise Refuse('decorator on %s (line %d)' % (fd.name, fd.lineno))
    return kind


class ClassInfo:
    def __init__(self, name, mro, entries):
        self.name = name
        self.entries = entries
        self.mro = []
        for rel, cname in mro:
            path = os.path.join(REPO, rel)
            with open(path) as f:
                tree = ast.parse(f.read())
            cds = []
            for n in ast.walk(tree):          # the class may sit under `if cond:` at module level
                if isinstance(n, ast.ClassDef) and n.name == cname:
                    cds.append(n)
            if len(cds) != 1:
                raise Refuse('class %s not found exactly once in %s' % (cname, rel))
            self.mro.append((cname, cds[0], rel))
        self.mro_names = [c for c, _, _ in self.mro]
        # attributes the constructors create; an analysed method touching any other attribute of self
        # (state that springs into existence later, e.g. an ad-hoc cache) is refused: fail closed
        self.init_attrs = set()
        self.method_names = set()
        for _, cd, _ in self.mro:
            for n in cd.body:
                if isinstance(n, ast.FunctionDef):
                    self.method_names.add(n.name)
                    if n.name == '__init__':
                        for x in ast.walk(n):
                            if isinstance(x, (ast.Assign, ast.AugAssign, ast.AnnAssign)):
                                ts = x.targets if isinstance(x, ast.Assign) else [x.target]
                                for t in ts:
                                    for y in ast.walk(t):
                                        a = self_attr(y)
                                        if a is not None:
                                            self.init_attrs.add(a)
        self.locks = set()
        for _, cd, _ in self.mro:
            for n in ast.walk(cd):
                if isinstance(n, ast.Assign) and isinstance(n.value, ast.Call):
                    f = n.value.func
                    if isinstance(f, ast.Attribute) and f.attr in ('Lock', 'RLock') and \
                            isinstance(f.value, ast.Name) and f.value.id == 'threading':
                        if f.attr == 'RLock':
                            raise Refuse('RLock: re-entrant locking is outside the model')
                        for t in n.targets:
                            a = self_attr(t)
                            if a is not None:
                                self.locks.add(a)

    def check_attr(self, a, lineno):
        if a not in self.init_attrs and a not in self.method_names:
            raise Refuse('attribute self.%s (line %d) is not created by __init__: unknown shared state' % (a, lineno))

    def find_method(self, name, start_after=None):
        seen = start_after is None
        for cname, cd, _ in self.mro:
            if not seen:
                # Base.m(self,...) : lookup starts AT the named base class
                if cname == start_after:
                    seen = True
                else:
                    continue
            for n in cd.body:
                if isinstance(n, ast.FunctionDef) and n.name == name:
                    return n
        return None


def coq_step(x):
    if x[0] == 'A':
        return 'XAcq "%s"' % x[1]
    if x[0] == 'X':
        return 'XRel "%s"' % x[1]
    if x[0] == 'R':
        return 'XRead "%s" %s' % (x[1], x[2])
    if x[0] == 'W':
        return 'XWrite "%s" %s' % (x[1], x[2])
    if x[0] == 'C':
        return 'XClock'
    if x[0] == 'N':
        return 'XLocal'
    if x[0] == 'I':
        return 'XInit "%s" [%s] "%s"' % (x[1], '; '.join('("%s", %s)' % d for d in x[2]), x[3])
    return 'XLocal'


def entry_points(ci, excluded):
    names = []
    for cname, cd, _ in ci.mro:
        for n in cd.body:
            if not isinstance(n, ast.FunctionDef) or n.name in names or n.name in excluded:
                continue
            if n.name.startswith('_') and not (n.name.startswith('__') and n.name.endswith('__')):
                continue                      # helper: analysed where it is called
            if method_kind(n) != 'instance':
                continue                      # no instance: cannot touch the shared object
            names.append(n.name)
    return names


def extract_all():
    """[(class, method, [path, ...])], a path being a list of steps ; raises Refuse"""
    out = []
    for name, mro, excluded in CLASSES:
        ci = ClassInfo(name, mro, None)
        if not ci.locks:
            raise Refuse('%s creates no threading.Lock' % name)
        entries = entry_points(ci, excluded)
        for m in REQUIRED[name]:
            if m not in entries:
                raise Refuse('method %s.%s not found' % (name, m))
        if name == 'Python_RSAKey':
            entries = ['_rawPrivateKeyOp'] + entries      # also analysed on its own (tie of the RSA step program)
        for m in entries:
            fd = ci.find_method(m)
            ex = MethodExtractor(ci)
            ex.stack = [(m, None)]
            out.append((name, m, expand(ex.method(fd))))
    return out


class LocksUnit:
    def translate(self):
        ms = extract_all()
        lines = ['(* GENERATED by translator/units_locks.py from tlslite/sessioncache.py, basedb.py, verifierdb.py,',
                 '   utils/python_rsakey.py, utils/rsakey.py -- do not edit.  Vocabulary: Model/C18_LockSteps.v.',
                 '   A method whose critical section sits inside a conditional has one step list per path. *)',
                 'From Coq Require Import List String.',
                 'From TV Require Import Model.C18_LockSteps.',
                 'Import ListNotations.', 'Open Scope string_scope.', '']
        table = []
        for cls, m, paths in ms:
            base = '%s_%s' % (cls, m.strip('_'))
            idents = []
            for k, steps in enumerate(paths):
                ident = base if len(paths) == 1 else '%s_path%d' % (base, k + 1)
                idents.append(ident)
                body = ';\n  '.join(coq_step(x) for x in steps)
                lines.append('Definition %s : list xstep := [\n  %s\n].\n' % (ident, body))
            table.append('("%s", "%s", [%s])' % (cls, m, '; '.join(idents)))
        lines.append('Definition all_method_paths : list (string * string * list (list xstep)) := [\n  %s\n].\n'
                     % ';\n  '.join(table))
        lines.append('Definition all_methods : list xmethod :=\n'
                     '  flat_map (fun e : string * string * list (list xstep) =>\n'
                     "              let '(c, m, ps) := e in map (fun p => (c, m, p)) ps) all_method_paths.")
        return '\n'.join(lines)


UNITS = {'Locks': LocksUnit}
