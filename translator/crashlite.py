"""crashlite: fail-closed translator from straight-line *decision regions* of tlslite-ng's
handshake coroutines to a Gallina *crash-analysis model*.

The model of a region is a function from an abstract parsed-message value (schema below:
every extension absent / present-with-fields, every None-able attribute an `option`, lists
possibly empty) to

    outcome unit  =  OK tt | Alert d | Raised cls | Crash kind site

where EVERY partial operation of the Python text is explicit:

  x.a        x : option _      -> None branch = Crash "AttributeError"
  C.name     C an enum/class of tlslite resolved by IMPORTING the module at generation time;
             a name that does not resolve is  Crash "AttributeError" "C.name#k"  at that point
  x[i]                           -> Crash "IndexError" outside the range
  for v in x / e in x / len(x) / S.intersection(x)  with x : option (list _)
                                 -> None branch = Crash "TypeError"
  a <= b with a None-able int    -> None branch = Crash "TypeError"
  b.decode('ascii','strict')     -> Crash "UnicodeDecodeError" unless inside a try that catches it
  m.getExtension(t)              -> Raised "TLSInternalError" when the type occurs twice
  "..{1}..".format(x)            -> Crash "IndexError" when a placeholder has no argument
  for result in self._sendError(d, msg): yield result      -> Alert d   (d and msg evaluated first)

No flow-sensitive refinement is done here: `if not x: <alert>` followed by `x.a` still emits
the None branch; excluding it is the job of the Coq proof (Proofs/C08_Hello.v), so Gallina's
totality is never used as a substitute for Python exception-freedom.

Anything outside the subset raises Refuse (the check reports the translator tie as broken).
Evaluation order is Python's (left to right, short-circuit and/or), expressed with the
outcome monad of Base/C08_Lib.v.  Code after each statement is put into a named continuation
`<unit>_k<N>` taking the inputs and all live locals, so that proofs can unfold lazily.
"""
import ast
import re

from pylite import Refuse

Z = ('Z',)
BOOL = ('bool',)
VER = ('ver',)
BYTES = ('bytes',)
STR = ('str',)
NONE = ('none',)
EXT = ('ext',)
UNIT = ('unit',)
TAG = ('tag',)      # a non-empty string constant (only its truthiness matters)


def LIST(t):
    return ('list', t)


def OPT(t):
    return ('opt', t)


def OBJ(c):
    return ('obj', c)


def PAIR(a, b):
    return ('pair', a, b)


def FUN(args, ret):
    return ('fun', tuple(args), ret)


def gty(t):
    k = t[0]
    if k == 'Z':
        return 'Z'
    if k == 'bool':
        return 'bool'
    if k == 'ver':
        return 'ver'
    if k == 'bytes':
        return '(list Z)'
    if k in ('str', 'unit', 'tag'):
        return 'unit'
    if k == 'ext':
        return 'ext'
    if k == 'list':
        return '(list %s)' % gty(t[1])
    if k == 'opt':
        return '(option %s)' % gty(t[1])
    if k == 'obj':
        return t[1] + '_r'
    if k == 'pair':
        return '(%s * %s)' % (gty(t[1]), gty(t[2]))
    if k == 'fun':
        return '(' + ' -> '.join([gty(a) for a in t[1]] + [gty(t[2])]) + ')'
    raise Refuse('no Gallina type for %r' % (t,))


def eqb(t):
    k = t[0]
    if k == 'Z':
        return 'Z.eqb'
    if k == 'bool':
        return 'Bool.eqb'
    if k == 'ver':
        return 'ver_eqb'
    if k == 'bytes':
        return 'list_eqb'
    if k == 'list':
        return '(lst_eqb %s)' % eqb(t[1])
    if k == 'opt':
        return '(opt_eqb %s)' % eqb(t[1])
    raise Refuse('no equality for %r' % (t,))


def zl(n):
    return str(n) if n >= 0 else '(%d)' % n


def gstr(s):
    return '"' + s.replace('"', '""') + '"%string'


class Term:
    """code: Gallina text; ty: type; pure: code : T  (else code : outcome T)"""

    def __init__(self, code, ty, pure=True):
        self.code, self.ty, self.pure = code, ty, pure


class Schema:
    """classes: name -> dict(fields=[(pyname, type)], derived={pyname: (type, gallina_fn)},
                              ext=None | [numeric ext types] | 'generic', truthy=True)
       The Gallina record of class C is C_r with projections C_<field>."""

    def __init__(self, classes, ext_classes, prelude=''):
        self.classes = classes
        self.ext_classes = ext_classes      # ordered list of class names that are constructors of `ext`
        self.prelude = prelude

    def mfield(self, cls, name):
        """property whose body can raise: (type, gallina function : C_r -> outcome T)"""
        return self.classes[cls].get('mderived', {}).get(name)

    def field(self, cls, name):
        c = self.classes[cls]
        for f, t in c['fields']:
            if f == name:
                return t, '%s_%s' % (cls, f)
        if name in c.get('derived', {}):
            t, fn = c['derived'][name]
            return t, fn
        return None

    def emit_types(self):
        out = []
        done = set()

        def emit_record(cn):
            if cn in done:
                return
            done.add(cn)
            c = self.classes[cn]
            fs = c['fields']
            if fs:
                out.append('Record %s_r := { %s }.' % (cn, '; '.join('%s_%s : %s' % (cn, f, gty(t)) for f, t in fs)))
            else:
                out.append('Record %s_r := { %s_unit_ : unit }.' % (cn, cn))

        def uses_ext(t):
            return t == EXT or any(isinstance(x, tuple) and uses_ext(x) for x in t[1:])

        first = [cn for cn in self.classes
                 if not any(uses_ext(t) for _, t in self.classes[cn]['fields'])]
        # records that do not mention ext, in dependency order (simple: as listed)
        for cn in first:
            emit_record(cn)
        out.append('Inductive ext :=\n' + '\n'.join('| X_%s (r : %s_r)' % (cn, cn) for cn in self.ext_classes) + '.')
        arms = []
        for cn in self.ext_classes:
            e = self.classes[cn]['ext']
            if e == 'generic':
                arms.append('| X_%s r => %s_extType r' % (cn, cn))
            else:
                arms.append('| X_%s _ => %s' % (cn, zl(e)))
        out.append('Definition ext_type (e : ext) : Z :=\n  match e with\n  %s\n  end.' % '\n  '.join(arms))
        for cn in self.ext_classes:
            out.append('Definition as_%s (e : ext) : option %s_r := match e with X_%s r => Some r | _ => None end.'
                       % (cn, cn, cn))
        out.append(GETEXT)
        for cn in self.classes:
            emit_record(cn)
        return '\n'.join(out) + '\n' + self.prelude


GETEXT = '''
(* HelloMessage.getExtension: None when there is no extension list or no extension of the
   type, TLSInternalError when the type occurs more than once *)
Definition getExtension (exts : option (list ext)) (t : Z) : outcome (option ext) :=
  match exts with
  | None => OK None
  | Some l =>
    match filter (fun e => ext_type e =? t) l with
    | [] => OK None
    | [e] => OK (Some e)
    | _ => Raised "TLSInternalError"
    end
  end.
Definition getExtensionAs {R} (cast : ext -> option R) (exts : option (list ext)) (t : Z)
  : outcome (option R) :=
  bindo (getExtension exts t) (fun o =>
    match o with
    | None => OK None
    | Some e => OK (cast e)      (* a class that does not match its type cannot come from the parser *)
    end).
'''


class RegionTranslator:
    def __init__(self, unit_name, schema, namespace, fdef, start, end, inputs, ext_registry,
                 externals=None, ignore_self_stores=True, opaque=None, boundaries=True, effects=None):
        self.unit = unit_name
        self.schema = schema
        self.ns = namespace
        self.fdef = fdef
        self.start, self.end = start, end
        self.inputs = list(inputs)            # [(name, type)]
        self.ext_registry = ext_registry      # {input/class name -> function(ext_type_int) -> class name}
        self.externals = externals or {}
        # source text of an expression over the endpoint's own state -> (input name, type): the value is an
        # arbitrary input of the model (the theorems quantify over it; the tie observes the real value)
        self.opaque = opaque or {}
        # boundaries=False: small regions are proved by plain path enumeration (no statement-boundary lemmas,
        # hence guards of earlier top-level statements stay available to later ones)
        self.use_boundaries = boundaries
        self.effects = set(effects or ())
        self.defs = []                        # emitted continuation definitions (text)
        self.nk = 0
        self.boundaries = []
        self.kont_params = {}
        self.tmpn = 0
        self.site_count = {}
        self.sites = []                       # [(kind, site, lineno)]
        self.handlers = []                    # stack of {exception name: code}
        self.lines = None

    # ------------------------------------------------------------ utilities
    def tmp(self, base='t'):
        self.tmpn += 1
        return '%s%d_' % (base, self.tmpn)

    def site(self, kind, node_or_text, lineno=0):
        text = node_or_text if isinstance(node_or_text, str) else ast.unparse(node_or_text)
        text = re.sub(r'\s+', ' ', text)[:80]
        n = self.site_count.get(text, 0) + 1
        self.site_count[text] = n
        s = '%s#%d' % (text, n)
        self.sites.append((kind, s, lineno or getattr(node_or_text, 'lineno', 0)))
        return 'Crash %s %s' % (gstr(kind), gstr(s))

    def seq(self, terms, fn, ty, pure_result=True):
        """Evaluate terms left to right, then apply fn(list of pure codes) -> code."""
        codes, binds = [], []
        for t in terms:
            if t.pure:
                codes.append(t.code)
            else:
                v = self.tmp()
                binds.append((v, t.code))
                codes.append(v)
        body = fn(codes)
        if not binds and pure_result:
            return Term(body, ty, True)
        if pure_result:
            body = 'OK %s' % paren(body)
        for v, c in reversed(binds):
            body = '%s <~ %s ;;\n%s' % (v, mparen(c), body)
        return Term(body, ty, False)

    def mon(self, t):
        """code of type outcome T"""
        return t.code if not t.pure else 'OK %s' % paren(t.code)

    # ------------------------------------------------------------ constants
    def resolve_const(self, e):
        """Try to evaluate a Name/Attribute chain in the module namespace.  Returns
        ('ok', value) | ('missing', text) | None (not a constant chain)."""
        chain = []
        n = e
        while isinstance(n, ast.Attribute):
            chain.append(n.attr)
            n = n.value
        if not isinstance(n, ast.Name) or n.id not in self.ns:
            return None
        v = self.ns[n.id]
        for a in reversed(chain):
            if not hasattr(v, a):
                return ('missing', ast.unparse(e))
            v = getattr(v, a)
        return ('ok', v)

    def const_term(self, v, e):
        if isinstance(v, bool):
            return Term('true' if v else 'false', BOOL)
        if isinstance(v, int):
            return Term(zl(v), Z)
        if isinstance(v, tuple) and len(v) == 2 and all(isinstance(x, int) for x in v):
            return Term('(%s, %s)' % (zl(v[0]), zl(v[1])), VER)
        if isinstance(v, (list, tuple, set, frozenset)):
            items = sorted(v) if isinstance(v, (set, frozenset)) else list(v)
            if all(isinstance(x, int) and not isinstance(x, bool) for x in items):
                return Term('[%s]' % '; '.join(zl(x) for x in items), LIST(Z))
            if all(isinstance(x, tuple) and len(x) == 2 for x in items):
                return Term('[%s]' % '; '.join('(%s, %s)' % (zl(a), zl(b)) for a, b in items), LIST(VER))
        if isinstance(v, str):
            return Term('tt', STR)
        raise Refuse('constant %s of unsupported type %s (line %d)' % (ast.unparse(e), type(v).__name__, e.lineno))

    # ------------------------------------------------------------ truthiness
    def truthy_fn(self, ty, node):
        k = ty[0]
        if k == 'bool':
            return '(fun b_ : bool => b_)'
        if k == 'Z':
            return '(fun z_ : Z => negb (z_ =? 0))'
        if k in ('list', 'bytes'):
            return 'nonempty'
        if k in ('ver', 'tag', 'ext'):      # extension objects define neither __len__ nor __bool__ (checked per class)
            return 'always_true'
        if k == 'none':
            return '(fun _ : unit => false)'
        if k == 'opt':
            return '(truthy_opt %s)' % self.truthy_fn(ty[1], node)
        if k == 'obj':
            if not self.schema.classes[ty[1]].get('truthy', True):
                raise Refuse('truthiness of %s is not modelled (line %d)' % (ty[1], node.lineno))
            return 'always_true'
        raise Refuse('truthiness of %r (line %d)' % (ty, node.lineno))

    def cond(self, e, env):
        """Python truth value of e  ->  Term of type bool"""
        if isinstance(e, ast.UnaryOp) and isinstance(e.op, ast.Not):
            t = self.cond(e.operand, env)
            return self.seq([t], lambda c: 'negb %s' % paren(c[0]), BOOL)
        if isinstance(e, ast.BoolOp):
            ts = [self.cond(x, env) for x in e.values]
            is_and = isinstance(e.op, ast.And)
            if all(t.pure for t in ts):
                return Term('(' + (' && ' if is_and else ' || ').join(paren(t.code) for t in ts) + ')', BOOL)
            code = self.mon(ts[-1])
            for t in reversed(ts[:-1]):
                v = self.tmp('b')
                if is_and:
                    code = '%s <~ %s ;;\nif %s then (%s) else OK false' % (v, mparen(self.mon(t)), v, code)
                else:
                    code = '%s <~ %s ;;\nif %s then OK true else (%s)' % (v, mparen(self.mon(t)), v, code)
            return Term(code, BOOL, False)
        t = self.expr(e, env)
        if t.ty == BOOL:
            return t
        f = self.truthy_fn(t.ty, e)
        return self.seq([t], lambda c: '%s %s' % (f, paren(c[0])), BOOL)

    # ------------------------------------------------------------ expressions
    def expr(self, e, env):
        if self.opaque and isinstance(e, (ast.Call, ast.Attribute)) and ast.unparse(e) in self.opaque:
            name, ty = self.opaque[ast.unparse(e)]
            return Term(name, ty)
        if isinstance(e, ast.Constant):
            v = e.value
            if v is None:
                return Term('tt', NONE)
            if isinstance(v, bool):
                return Term('true' if v else 'false', BOOL)
            if isinstance(v, int):
                return Term(zl(v), Z)
            if isinstance(v, str):
                return Term('tt', STR)
            raise Refuse('constant %r (line %d)' % (v, e.lineno))
        if isinstance(e, ast.Tuple):
            if len(e.elts) == 2 and all(isinstance(x, ast.Constant) and isinstance(x.value, int) for x in e.elts):
                return Term('(%s, %s)' % (zl(e.elts[0].value), zl(e.elts[1].value)), VER)
            raise Refuse('tuple expression %s (line %d)' % (ast.unparse(e), e.lineno))
        if isinstance(e, ast.Name):
            if e.id in env:
                return Term(e.id, env[e.id])
            r = self.resolve_const(e)
            if r and r[0] == 'ok':
                return self.const_term(r[1], e)
            raise Refuse('unbound or maybe-undefined variable %s (line %d)' % (e.id, e.lineno))
        if isinstance(e, ast.Attribute):
            r = self.resolve_const(e)
            if r is not None:
                if r[0] == 'missing':
                    return Term(self.site('AttributeError', e), Z, False)
                return self.const_term(r[1], e)
            return self.attribute(e, env)
        if isinstance(e, ast.BinOp):
            if isinstance(e.op, ast.Pow) and all(isinstance(x, ast.Constant) for x in (e.left, e.right)):
                return Term(zl(e.left.value ** e.right.value), Z)
            if isinstance(e.op, ast.Mod) or isinstance(e.op, ast.Add):
                a = self.expr(e.left, env)
                if a.ty == STR:
                    return self.message(e, env)
            a, b = self.expr(e.left, env), self.expr(e.right, env)
            if a.ty == Z and b.ty == Z and isinstance(e.op, (ast.Add, ast.Sub)):
                op = 'Z.add' if isinstance(e.op, ast.Add) else 'Z.sub'
                return self.seq([a, b], lambda c: '%s %s %s' % (op, paren(c[0]), paren(c[1])), Z)
            if a.ty[0] == 'list' and b.ty == a.ty and isinstance(e.op, ast.Sub) and a.ty[0] == 'list':
                # set difference (only produced by set(..) - set(..))
                q = eqb(a.ty[1])
                return self.seq([a, b], lambda c: 'filter (fun x_ => negb (mem %s x_ %s)) %s' % (q, paren(c[1]), paren(c[0])),
                                a.ty)
            raise Refuse('binop %s (line %d)' % (ast.unparse(e), e.lineno))
        if isinstance(e, ast.UnaryOp) and isinstance(e.op, ast.USub) and isinstance(e.operand, ast.Constant) \
                and isinstance(e.operand.value, int):
            return Term(zl(-e.operand.value), Z)
        if isinstance(e, (ast.BoolOp, ast.UnaryOp)):
            if isinstance(e, ast.UnaryOp) and not isinstance(e.op, ast.Not):
                raise Refuse('unary %s' % ast.unparse(e))
            return self.cond(e, env)
        if isinstance(e, ast.Compare):
            return self.compare(e, env)
        if isinstance(e, ast.Subscript):
            v = self.expr(e.value, env)
            if isinstance(e.slice, ast.Slice):
                raise Refuse('slice (line %d)' % e.lineno)
            i = self.expr(e.slice, env)
            if i.ty != Z:
                raise Refuse('index type (line %d)' % e.lineno)
            return self.index(v, i, e)
        if isinstance(e, ast.Call):
            return self.call(e, env)
        if isinstance(e, ast.ListComp):
            return self.listcomp(e, env)
        if isinstance(e, ast.List) and e.elts:
            ts = [self.expr(x, env) for x in e.elts]
            if any(t.ty != ts[0].ty for t in ts):
                raise Refuse('heterogeneous list literal (line %d)' % e.lineno)
            return self.seq(ts, lambda c: '[%s]' % '; '.join(c), LIST(ts[0].ty))
        if isinstance(e, ast.IfExp):
            c = self.cond(e.test, env)
            a, b = self.expr(e.body, env), self.expr(e.orelse, env)
            if a.ty != b.ty:
                raise Refuse('ifexp branch types (line %d)' % e.lineno)
            if a.pure and b.pure:
                return self.seq([c], lambda x: 'if %s then %s else %s' % (x[0], a.code, b.code), a.ty)
            v = self.tmp('b')
            return Term('%s <~ %s ;;\nif %s then (%s) else (%s)' % (v, mparen(self.mon(c)), v, self.mon(a), self.mon(b)), a.ty, False)
        raise Refuse('expression %s (line %d)' % (type(e).__name__, getattr(e, 'lineno', 0)))

    def index(self, v, i, node):
        if v.ty[0] == 'opt' and v.ty[1][0] in ('list', 'bytes'):
            s1 = self.site('TypeError', 'subscript:' + ast.unparse(node.value), node.lineno)
            s2 = self.site('IndexError', node)
            inner = v.ty[1]
            ety = Z if inner == BYTES else inner[1]
            return self.seq([v, i], lambda c: 'match %s with None => %s | Some l_ => seq_index %s l_ %s end'
                            % (c[0], s1, _site_arg(s2), paren(c[1])), ety, pure_result=False)
        if v.ty[0] in ('list', 'bytes'):
            s2 = self.site('IndexError', node)
            ety = Z if v.ty == BYTES else v.ty[1]
            return self.seq([v, i], lambda c: 'seq_index %s %s %s' % (_site_arg(s2), paren(c[0]), paren(c[1])), ety,
                            pure_result=False)
        raise Refuse('subscript on %r (line %d)' % (v.ty, node.lineno))

    def attribute(self, e, env):
        # self.<x> reads are not modelled
        if isinstance(e.value, ast.Name) and e.value.id == 'self':
            raise Refuse('read of self.%s (line %d)' % (e.attr, e.lineno))
        v = self.expr(e.value, env)
        return self.getattr_term(v, e.attr, e)

    def getattr_term(self, v, attr, node):
        ty = v.ty
        if ty == EXT and attr == 'extType':
            return self.seq([v], lambda c: 'ext_type %s' % paren(c[0]), Z)
        if ty[0] == 'obj' and self.schema.mfield(ty[1], attr) is not None:
            fty, fn = self.schema.mfield(ty[1], attr)
            return self.seq([v], lambda c: '%s %s' % (fn, paren(c[0])), fty, pure_result=False)
        if ty[0] == 'obj':
            f = self.schema.field(ty[1], attr)
            if f is None:
                if attr in self.schema.classes[ty[1]].get('unmodelled', ()):
                    raise Refuse('attribute %s.%s exists but is not modelled (line %d)' % (ty[1], attr, node.lineno))
                c = self.site('AttributeError', node)
                return Term(c, Z, False)
            fty, proj = f
            return self.seq([v], lambda c: '%s %s' % (proj, paren(c[0])), fty)
        if ty[0] == 'opt' and ty[1][0] == 'obj':
            f = self.schema.field(ty[1][1], attr)
            if f is None:
                raise Refuse('attribute %s on optional %s not in schema (line %d)' % (attr, ty[1][1], node.lineno))
            fty, proj = f
            c = self.site('AttributeError', node)
            return self.seq([v], lambda x: 'match %s with None => %s | Some o_ => OK (%s o_) end' % (x[0], c, proj), fty,
                            pure_result=False)
        if ty == NONE:
            return Term(self.site('AttributeError', node), Z, False)
        raise Refuse('attribute %s on %r (line %d)' % (attr, ty, node.lineno))

    def as_list(self, t, node, what):
        """t : list T or option (list T) -> (Term of list, elem type); None => TypeError"""
        if t.ty == BYTES:
            return t, Z
        if t.ty[0] == 'list':
            return t, t.ty[1]
        if t.ty[0] == 'opt' and t.ty[1][0] in ('list', 'bytes'):
            inner = t.ty[1]
            ety = Z if inner == BYTES else inner[1]
            c = self.site('TypeError', what + ':' + ast.unparse(node), node.lineno)
            r = self.seq([t], lambda x: 'match %s with None => %s | Some l_ => OK l_ end' % (x[0], c), inner,
                         pure_result=False)
            return r, ety
        if t.ty == NONE:
            return Term(self.site('TypeError', what + ':' + ast.unparse(node), node.lineno), LIST(Z), False), Z
        raise Refuse('%s over %r (line %d)' % (what, t.ty, node.lineno))

    def compare(self, e, env):
        if len(e.ops) == 2 and all(isinstance(o, (ast.LtE, ast.Lt)) for o in e.ops):
            # a <= m <= b : m evaluated once; a None-able m raises TypeError at the first comparison
            a, m, b = self.expr(e.left, env), self.expr(e.comparators[0], env), self.expr(e.comparators[1], env)
            if a.ty != Z or b.ty != Z or not b.pure:
                raise Refuse('chained comparison operands (line %d)' % e.lineno)
            o1 = '<?' if isinstance(e.ops[0], ast.Lt) else '<=?'
            o2 = '<?' if isinstance(e.ops[1], ast.Lt) else '<=?'
            if m.ty == Z:
                return self.seq([a, m, b], lambda c: '(%s %s %s) && (%s %s %s)' % (paren(c[0]), o1, paren(c[1]), paren(c[1]), o2,
                                                                                 paren(c[2])), BOOL)
            if m.ty == OPT(Z):
                c0 = self.site('TypeError', e)
                return self.seq([a, m, b], lambda c: 'match %s with None => %s | Some m_ => OK ((%s %s m_) && (m_ %s %s)) end'
                                % (c[1], c0, paren(c[0]), o1, o2, paren(c[2])), BOOL, pure_result=False)
            raise Refuse('chained comparison of %r (line %d)' % (m.ty, e.lineno))
        if len(e.ops) != 1:
            raise Refuse('chained comparison (line %d)' % e.lineno)
        op = e.ops[0]
        right = e.comparators[0]
        if isinstance(op, (ast.Is, ast.IsNot)):
            neg = isinstance(op, ast.IsNot)
            if isinstance(right, ast.Constant) and right.value is None:
                a = self.expr(e.left, env)
                if a.ty[0] == 'opt':
                    return self.seq([a], lambda c: ('is_some %s' if neg else 'is_none %s') % paren(c[0]), BOOL)
                if a.ty == NONE:
                    return Term('false' if neg else 'true', BOOL)
                return self.seq([a], lambda c: 'true' if neg else 'false', BOOL)
            # identity with the last extension:  X is [not] M.extensions[-1]
            a = self.expr(e.left, env)
            b = self.expr(right, env)
            if a.ty[0] == 'obj' and b.ty == EXT and self.schema.classes[a.ty[1]].get('ext') not in (None, 'generic'):
                t = self.schema.classes[a.ty[1]]['ext']
                # sound because getExtension returned the unique extension of that type
                return self.seq([a, b], lambda c: ('negb (ext_type %s =? %s)' if neg else '(ext_type %s =? %s)')
                                % (paren(c[1]), zl(t)), BOOL)
            if a.ty[0] == 'opt' and a.ty[1][0] == 'obj' and b.ty == EXT and \
                    self.schema.classes[a.ty[1][1]].get('ext') not in (None, 'generic'):
                t = self.schema.classes[a.ty[1][1]]['ext']
                return self.seq([a, b], lambda c: ('negb (is_some %s && (ext_type %s =? %s))' if neg
                                                   else '(is_some %s && (ext_type %s =? %s))')
                                % (paren(c[0]), paren(c[1]), zl(t)), BOOL)
            raise Refuse('identity comparison %s (line %d)' % (ast.unparse(e), e.lineno))
        if isinstance(op, (ast.In, ast.NotIn)):
            a = self.expr(e.left, env)
            b = self.expr(right, env)
            lst, ety = self.as_list(b, right, 'in')
            if a.ty != ety:
                if a.ty[0] == 'opt' and a.ty[1] == ety:      # None in [ints] is simply False
                    q = eqb(ety)
                    body = lambda c: 'match %s with None => false | Some a_ => mem %s a_ %s end' % (c[0], q, paren(c[1]))
                else:
                    raise Refuse('membership of %r in list of %r (line %d)' % (a.ty, ety, e.lineno))
            else:
                q = eqb(ety)
                body = lambda c: 'mem %s %s %s' % (q, paren(c[0]), paren(c[1]))
            r = self.seq([a, lst], body, BOOL)
            if isinstance(op, ast.NotIn):
                r = self.seq([r], lambda c: 'negb %s' % paren(c[0]), BOOL)
            return r
        a = self.expr(e.left, env)
        b = self.expr(right, env)
        if isinstance(op, (ast.Eq, ast.NotEq)):
            neg = isinstance(op, ast.NotEq)
            if a.ty == b.ty:
                q = eqb(a.ty)
                body = lambda c: '%s %s %s' % (q, paren(c[0]), paren(c[1]))
            elif a.ty[0] == 'opt' and a.ty[1] == b.ty:
                q = eqb(b.ty)
                body = lambda c: 'match %s with None => false | Some a_ => %s a_ %s end' % (c[0], q, paren(c[1]))
            elif b.ty[0] == 'opt' and b.ty[1] == a.ty:
                q = eqb(a.ty)
                body = lambda c: 'match %s with None => false | Some b_ => %s %s b_ end' % (c[1], q, paren(c[0]))
            else:
                raise Refuse('equality of %r and %r (line %d)' % (a.ty, b.ty, e.lineno))
            r = self.seq([a, b], body, BOOL)
            if neg:
                r = self.seq([r], lambda c: 'negb %s' % paren(c[0]), BOOL)
            return r
        if isinstance(op, (ast.Lt, ast.LtE, ast.Gt, ast.GtE)):
            swap = isinstance(op, (ast.Gt, ast.GtE))
            strict = isinstance(op, (ast.Lt, ast.Gt))

            def cmp_code(x, y, ty):
                if swap:
                    x, y = y, x
                if ty == Z:
                    return '(%s %s %s)' % (paren(x), '<?' if strict else '<=?', paren(y))
                return '%s %s %s' % ('ver_ltb' if strict else 'ver_leb', paren(x), paren(y))
            if a.ty == b.ty and a.ty in (Z, VER):
                return self.seq([a, b], lambda c: cmp_code(c[0], c[1], a.ty), BOOL)
            # ordering comparison with a None-able operand: TypeError on None (Python 3)
            if a.ty[0] == 'opt' and a.ty[1] == b.ty and b.ty in (Z, VER):
                c0 = self.site('TypeError', e)
                return self.seq([a, b], lambda c: 'match %s with None => %s | Some a_ => OK %s end'
                                % (c[0], c0, cmp_code('a_', c[1], b.ty)), BOOL, pure_result=False)
            if b.ty[0] == 'opt' and b.ty[1] == a.ty and a.ty in (Z, VER):
                c0 = self.site('TypeError', e)
                return self.seq([a, b], lambda c: 'match %s with None => %s | Some b_ => OK %s end'
                                % (c[1], c0, cmp_code(c[0], 'b_', a.ty)), BOOL, pure_result=False)
            raise Refuse('ordering of %r and %r (line %d)' % (a.ty, b.ty, e.lineno))
        raise Refuse('comparison %s (line %d)' % (ast.unparse(e), e.lineno))

    # ------------------------------------------------------------ comprehensions
    def comp_parts(self, gens, env, node):
        if len(gens) != 1 or gens[0].is_async:
            raise Refuse('comprehension form (line %d)' % node.lineno)
        g = gens[0]
        if not isinstance(g.target, ast.Name):
            raise Refuse('comprehension target (line %d)' % node.lineno)
        it = self.expr(g.iter, env)
        lst, ety = self.as_list(it, g.iter, 'iter')
        env2 = dict(env)
        env2[g.target.id] = ety
        conds = [self.cond(c, env2) for c in g.ifs]
        return lst, ety, g.target.id, env2, conds

    def lam(self, var, ety, body):
        return '(fun %s : %s => %s)' % (var, gty(ety), body)

    def conj(self, conds, var, ety):
        """conjunction of comprehension conditions as (lambda text, pure?)"""
        if not conds:
            return self.lam(var, ety, 'true'), True
        if all(c.pure for c in conds):
            return self.lam(var, ety, ' && '.join(paren(c.code) for c in conds)), True
        code = self.mon(conds[-1])
        for c in reversed(conds[:-1]):
            v = self.tmp('b')
            code = '%s <~ %s ;;\nif %s then (%s) else OK false' % (v, mparen(self.mon(c)), v, code)
        return self.lam(var, ety, code), False

    def listcomp(self, e, env):
        lst, ety, var, env2, conds = self.comp_parts(e.generators, env, e)
        elt = self.expr(e.elt, env2)
        ident = isinstance(e.elt, ast.Name) and e.elt.id == var
        plam, ppure = self.conj(conds, var, ety)
        if ppure and (elt.pure or ident):
            def body(c):
                src = c[0]
                if conds:
                    src = 'filter %s %s' % (plam, paren(src))
                if ident:
                    return src
                return 'map %s %s' % (self.lam(var, ety, elt.code), paren(src))
            return self.seq([lst], body, LIST(elt.ty))
        # element by element: Python evaluates condition then element for each item; a model that
        # filters first and maps afterwards reaches the same first failure only when at most one of
        # the two can fail
        if not ppure and not (elt.pure or ident):
            raise Refuse('comprehension with fallible condition and fallible element (line %d)' % e.lineno)
        if not ppure:
            r = self.seq([lst], lambda c: 'filterM %s %s' % (plam, paren(c[0])), LIST(ety), pure_result=False)
            if ident:
                return r
            return self.seq([r], lambda c: 'map %s %s' % (self.lam(var, ety, elt.code), paren(c[0])), LIST(elt.ty))
        src = self.seq([lst], lambda c: ('filter %s %s' % (plam, paren(c[0]))) if conds else c[0], LIST(ety))
        return self.seq([src], lambda c: 'mapM %s %s' % (self.lam(var, ety, self.mon(elt)), paren(c[0])), LIST(elt.ty),
                        pure_result=False)

    # ------------------------------------------------------------ calls
    def message(self, e, env):
        """A string-valued expression used as an alert message: evaluated only for crashes."""
        subs = []

        def walk(x):
            if isinstance(x, ast.Constant) and isinstance(x.value, str):
                return
            if isinstance(x, ast.BinOp) and isinstance(x.op, ast.Add):
                walk(x.left)
                walk(x.right)
                return
            if isinstance(x, ast.BinOp) and isinstance(x.op, ast.Mod) and isinstance(x.left, ast.Constant) \
                    and isinstance(x.left.value, str):
                n = len(re.findall(r'%[sdr]', x.left.value))
                if isinstance(x.right, ast.Tuple):
                    args = x.right.elts
                elif isinstance(x.right, ast.Call) and isinstance(x.right.func, ast.Name) and \
                        x.right.func.id in ('str', 'repr'):
                    args = [x.right]
                else:
                    # a tuple-valued right operand would be unpacked by %: demand str/int
                    t = self.expr(x.right, env)
                    if t.ty not in (STR, Z):
                        raise Refuse('%% formatting with operand of type %r (line %d)' % (t.ty, x.lineno))
                    subs.append(t)
                    args = []
                    n = 0
                if n != len(args):
                    subs.append(Term(self.site('TypeError', x), STR, False))
                for a in args:
                    walk(a)
                return
            if isinstance(x, ast.Call) and isinstance(x.func, ast.Attribute) and x.func.attr == 'format' and \
                    isinstance(x.func.value, ast.Constant) and isinstance(x.func.value.value, str) and not x.keywords:
                idx = [int(i) for i in re.findall(r'\{(\d+)', x.func.value.value)]
                auto = len(re.findall(r'\{[:!}]', x.func.value.value))
                need = max([i + 1 for i in idx] + [auto])
                if need > len(x.args):
                    subs.append(Term(self.site('IndexError', x), STR, False))
                for a in x.args:
                    walk(a)
                return
            if isinstance(x, ast.Call) and isinstance(x.func, ast.Name) and x.func.id in ('str', 'repr') and len(x.args) == 1:
                walk(x.args[0])
                return
            if isinstance(x, ast.Call) and isinstance(x.func, ast.Attribute) and x.func.attr == 'toStr' and len(x.args) == 1:
                r = self.resolve_const(x.func)
                if r is None:
                    raise Refuse('toStr target (line %d)' % x.lineno)
                if r[0] == 'missing':
                    subs.append(Term(self.site('AttributeError', x.func), STR, False))
                walk(x.args[0])
                return
            if isinstance(x, ast.Call) and isinstance(x.func, ast.Name) and x.func.id == 'formatExceptionTrace':
                return
            t = self.expr(x, env)
            subs.append(t)
        walk(e)
        return self.seq(subs, lambda c: 'tt', STR)

    def call(self, e, env):
        f = e.func
        if isinstance(f, ast.Attribute) and f.attr in ('format',) or \
                (isinstance(f, ast.Name) and f.id in ('str', 'repr')) or \
                (isinstance(f, ast.Attribute) and f.attr == 'toStr'):
            return self.message(e, env)
        if isinstance(f, ast.Attribute) and f.attr == 'getExtension' and len(e.args) == 1 and not e.keywords:
            recv = self.expr(f.value, env)
            a = e.args[0]
            r = self.resolve_const(a)
            if recv.ty[0] != 'obj' or recv.ty[1] not in self.ext_registry:
                raise Refuse('getExtension on %r (line %d)' % (recv.ty, e.lineno))
            fld = self.schema.field(recv.ty[1], 'extensions')
            if r is None:
                raise Refuse('getExtension with non-constant type (line %d)' % e.lineno)
            if r[0] == 'missing':
                return Term(self.site('AttributeError', a), OPT(OBJ(self.schema.ext_classes[-1])), False)
            tnum = r[1]
            cls = self.ext_registry[recv.ty[1]](tnum)
            if cls not in self.schema.classes:
                raise Refuse('extension class %s (type %d) is not in the schema (line %d)' % (cls, tnum, e.lineno))
            return self.seq([recv], lambda c: 'getExtensionAs as_%s (%s %s) %s' % (cls, fld[1], paren(c[0]), zl(tnum)),
                            OPT(OBJ(cls)), pure_result=False)
        if isinstance(f, ast.Attribute) and f.attr == 'decode' and len(e.args) == 2 and \
                [getattr(a, 'value', None) for a in e.args] == ['ascii', 'strict']:
            b = self.expr(f.value, env)
            if b.ty != BYTES:
                raise Refuse('decode on %r (line %d)' % (b.ty, e.lineno))
            handler = None
            for h in reversed(self.handlers):
                if 'UnicodeDecodeError' in h:
                    handler = h['UnicodeDecodeError']
                    break
            if handler is None:
                handler = self.site('UnicodeDecodeError', e)
            else:
                handler = 'bindo (%s) (fun _ : unit => %s)' % (handler, self.site('UnboundLocalError', 'after handler of ' + ast.unparse(e), e.lineno))
            # the decoded text is represented by its (ASCII) bytes
            return self.seq([b], lambda c: 'if is_ascii %s then OK %s else (%s)' % (paren(c[0]), paren(c[0]), handler), BYTES,
                            pure_result=False)
        if isinstance(f, ast.Attribute) and f.attr == 'intersection' and len(e.args) == 1:
            r = self.resolve_const(f.value)
            if r is None or r[0] != 'ok':
                raise Refuse('intersection receiver (line %d)' % e.lineno)
            s = self.const_term(r[1], f.value)
            arg = self.expr(e.args[0], env)
            lst, ety = self.as_list(arg, e.args[0], 'iter')
            if s.ty != LIST(ety):
                raise Refuse('intersection types (line %d)' % e.lineno)
            q = eqb(ety)
            return self.seq([lst], lambda c: 'filter (fun x_ => mem %s x_ %s) %s' % (q, paren(c[0]), s.code), LIST(ety))
        if isinstance(f, ast.Name):
            name = f.id
            if name == 'len' and len(e.args) == 1:
                a = self.expr(e.args[0], env)
                lst, _ = self.as_list(a, e.args[0], 'len')
                return self.seq([lst], lambda c: 'zlen %s' % paren(c[0]), Z)
            if name in ('min', 'max') and len(e.args) == 2 and not e.keywords:
                a, b = self.expr(e.args[0], env), self.expr(e.args[1], env)
                fn = 'Z.min' if name == 'min' else 'Z.max'
                if a.ty == Z and b.ty == Z:
                    return self.seq([a, b], lambda c: '%s %s %s' % (fn, paren(c[0]), paren(c[1])), Z)
                # comparing an int with None raises TypeError
                if a.ty == Z and b.ty == OPT(Z):
                    c0 = self.site('TypeError', e)
                    return self.seq([a, b], lambda c: 'match %s with None => %s | Some v_ => OK (%s %s v_) end'
                                    % (c[1], c0, fn, paren(c[0])), Z, pure_result=False)
                if a.ty == OPT(Z) and b.ty == Z:
                    c0 = self.site('TypeError', e)
                    return self.seq([a, b], lambda c: 'match %s with None => %s | Some v_ => OK (%s v_ %s) end'
                                    % (c[0], c0, fn, paren(c[1])), Z, pure_result=False)
                raise Refuse('%s of %r and %r (line %d)' % (name, a.ty, b.ty, e.lineno))
            if name == 'any' and len(e.args) == 1 and isinstance(e.args[0], ast.GeneratorExp):
                g = e.args[0]
                lst, ety, var, env2, conds = self.comp_parts(g.generators, env, g)
                elt = self.cond(g.elt, env2)
                if conds:
                    raise Refuse('any() with a filter (line %d)' % e.lineno)
                if elt.pure:
                    return self.seq([lst], lambda c: 'existsb %s %s' % (self.lam(var, ety, elt.code), paren(c[0])), BOOL)
                return self.seq([lst], lambda c: 'existsbM %s %s' % (self.lam(var, ety, self.mon(elt)), paren(c[0])), BOOL,
                                pure_result=False)
            if name == 'next' and len(e.args) == 2 and isinstance(e.args[0], ast.GeneratorExp) and \
                    isinstance(e.args[1], ast.Constant) and e.args[1].value is None:
                g = e.args[0]
                lst, ety, var, env2, conds = self.comp_parts(g.generators, env, g)
                if not (isinstance(g.elt, ast.Name) and g.elt.id == var):
                    raise Refuse('next() element (line %d)' % e.lineno)
                plam, ppure = self.conj(conds, var, ety)
                if ppure:
                    return self.seq([lst], lambda c: 'find_first %s %s' % (plam, paren(c[0])), OPT(ety))
                return self.seq([lst], lambda c: 'find_firstM %s %s' % (plam, paren(c[0])), OPT(ety), pure_result=False)
            if name == 'set' and len(e.args) == 1 and isinstance(e.args[0], ast.GeneratorExp):
                g = e.args[0]
                lc = self.listcomp(ast.ListComp(elt=g.elt, generators=g.generators, lineno=e.lineno), env)
                q = eqb(lc.ty[1])
                return self.seq([lc], lambda c: 'dedup %s %s' % (q, paren(c[0])), lc.ty)
            if name == 'set' and len(e.args) == 1:
                a = self.expr(e.args[0], env)
                lst, ety = self.as_list(a, e.args[0], 'iter')
                q = eqb(ety)
                return self.seq([lst], lambda c: 'dedup %s %s' % (q, paren(c[0])), LIST(ety))
            if name in self.externals:
                argtys, rty = self.externals[name]
                args = [self.expr(a, env) for a in e.args]
                if e.keywords or [a.ty for a in args] != list(argtys):
                    raise Refuse('external %s called with %r (line %d)' % (name, [a.ty for a in args], e.lineno))
                return self.seq(args, lambda c: '%s %s' % (name, ' '.join(paren(x) for x in c)), rty)
        if isinstance(f, ast.Attribute):
            r = self.resolve_const(f)
            key = ast.unparse(f)
            if key in self.externals:
                argtys, rty = self.externals[key]
                if not key.startswith('self.') and (r is None or r[0] == 'missing' or not callable(r[1])):
                    return Term(self.site('AttributeError', f), rty, False)
                args = [self.expr(a, env) for a in e.args] + [self.expr(k.value, env) for k in e.keywords]
                if [a.ty for a in args] != list(argtys):
                    raise Refuse('external %s called with %r (line %d)' % (key, [a.ty for a in args], e.lineno))
                gname = key.replace('.', '_')
                return self.seq(args, lambda c: '%s %s' % (gname, ' '.join(paren(x) for x in c)), rty)
            # method of a modelled object (e.g. tackExt.verifySignatures())
            recv = self.expr(f.value, env)
            base = recv.ty[1] if recv.ty[0] == 'opt' else recv.ty
            if base[0] == 'obj':
                m = self.schema.classes[base[1]].get('methods', {}).get(f.attr)
                if m is not None and not e.args and not e.keywords:
                    rty, gfn = m
                    if recv.ty[0] == 'opt':
                        c0 = self.site('AttributeError', f)
                        return self.seq([recv], lambda c: 'match %s with None => %s | Some o_ => OK (%s o_) end' % (c[0], c0, gfn),
                                        rty, pure_result=False)
                    return self.seq([recv], lambda c: '%s %s' % (gfn, paren(c[0])), rty)
        raise Refuse('call %s (line %d)' % (ast.unparse(e)[:60], e.lineno))

    # ------------------------------------------------------------ statements
    def is_alert_idiom(self, s):
        """for result in self._sendError(d[, msg]): yield result"""
        if not isinstance(s, ast.For) or s.orelse or len(s.body) != 1:
            return None
        b = s.body[0]
        if not (isinstance(b, ast.Expr) and isinstance(b.value, ast.Yield) and isinstance(b.value.value, ast.Name)
                and isinstance(s.target, ast.Name) and b.value.value.id == s.target.id):
            return None
        c = s.iter
        if isinstance(c, ast.Call) and isinstance(c.func, ast.Attribute) and c.func.attr == '_sendError' and \
                isinstance(c.func.value, ast.Name) and c.func.value.id == 'self' and 1 <= len(c.args) <= 2 and not c.keywords:
            return c
        return None

    def contains_yield(self, s):
        return any(isinstance(n, (ast.Yield, ast.YieldFrom)) for n in ast.walk(s))

    def assigned_vars(self, stmts):
        out = []
        for s in stmts:
            for n in ast.walk(s):
                if isinstance(n, ast.Assign):
                    for t in n.targets:
                        if isinstance(t, ast.Name):
                            out.append(t.id)
                elif isinstance(n, ast.AugAssign) and isinstance(n.target, ast.Name):
                    out.append(n.target.id)
                elif isinstance(n, ast.For) and isinstance(n.target, ast.Name) and not self.is_alert_idiom(n):
                    out.append(n.target.id)
        return list(dict.fromkeys(out))

    def param_list(self, env):
        names = [n for n, _ in self.inputs] + sorted(v for v in env if v not in dict(self.inputs))
        return names

    def make_kont(self, code, env, boundary=False):
        """Emit `code` as a named definition over the inputs and the locals in env;
        returns the call text.  boundary: the code after a top-level compound statement of the
        region (proved crash-free for ALL values of its parameters, see emit_proofs)."""
        self.nk += 1
        name = '%s_k%d' % (self.unit, self.nk)
        if boundary:
            self.boundaries.append(name)
        names = self.param_list(env)
        params = ' '.join('(%s : %s)' % (n, gty(env[n])) for n in names)
        self.defs.append('Definition %s %s : outcome unit :=\n%s.\n' % (name, params, indent(code)))
        self.kont_params[name] = names
        return '%s %s' % (name, ' '.join(names))

    def shared(self, k, keep=None, limit=120, boundary=False):
        """Wrap continuation k so that it is translated once per join environment and, when
        long, emitted as a named definition.  keep: the variables that survive the join."""
        cache = {}

        def k2(env2):
            if keep is not None:
                env2 = {v: t for v, t in env2.items() if v in keep}
            key = tuple(sorted(env2.items()))
            if key not in cache:
                code = k(env2)
                cache[key] = self.make_kont(code, env2, boundary) if len(code) > limit else code
            return cache[key]
        return k2

    @staticmethod
    def definite(stmts):
        """variables assigned by a top-level statement of the list (definitely assigned)"""
        out = set()
        for s in stmts:
            if isinstance(s, ast.Assign) and len(s.targets) == 1 and isinstance(s.targets[0], ast.Name):
                out.add(s.targets[0].id)
        return out

    def block(self, stmts, env, k):
        """Code (outcome unit) for stmts followed by k(env) (k returns code)."""
        if not stmts:
            return k(env)
        s, rest = stmts[0], stmts[1:]

        def cont(env2):
            return self.block(rest, env2, k)
        # alert idiom: terminal
        c = self.is_alert_idiom(s)
        if c is not None:
            d = self.expr(c.args[0], env)
            terms = [d]
            if len(c.args) == 2:
                terms.append(self.message(c.args[1], env))
            if d.ty != Z:
                raise Refuse('alert description type (line %d)' % s.lineno)
            return self.seq(terms, lambda x: 'Alert %s' % paren(x[0]), UNIT, pure_result=False).code
        if self.contains_yield(s) and not isinstance(s, (ast.If, ast.Try)) and \
                not (isinstance(s, ast.For) and not any(self.contains_yield(x) and self.is_alert_idiom(x) is None
                                                        and not isinstance(x, (ast.If, ast.For, ast.Try))
                                                        for x in s.body)):
            raise Refuse('yield outside the _sendError idiom (line %d)' % s.lineno)
        if isinstance(s, ast.Expr) and isinstance(s.value, ast.Constant):
            return cont(env)
        if isinstance(s, ast.Expr) and isinstance(s.value, ast.Call) and isinstance(s.value.func, ast.Attribute) and \
                s.value.func.attr == 'add' and isinstance(s.value.func.value, ast.Name) and \
                env.get(s.value.func.value.id, (None,))[0] == 'list' and len(s.value.args) == 1:
            # S.add(v) on a local set (represented as a list): rebinding
            name = s.value.func.value.id
            v = self.expr(s.value.args[0], env)
            if v.ty != env[name][1]:
                raise Refuse('set.add of %r into %r (line %d)' % (v.ty, env[name], s.lineno))
            r = self.seq([v], lambda c: '%s :: %s' % (paren(c[0]), name), env[name])
            if r.pure:
                return 'let %s := %s in\n%s' % (name, r.code, cont(env))
            return '%s <~ %s ;;\n%s' % (name, mparen(r.code), cont(env))
        if isinstance(s, ast.Expr) and isinstance(s.value, ast.Call) and ast.unparse(s.value) in self.effects:
            # a call made only for its effect on the endpoint's OWN objects (declared in the unit, with the
            # reason why the rest of the region does not observe the effect): arguments evaluated, effect dropped
            args = [self.expr(a, env) for a in s.value.args]
            recv = self.expr(s.value.func.value, env) if isinstance(s.value.func, ast.Attribute) else None
            ts = ([recv] if recv is not None else []) + args
            r = self.seq(ts, lambda c: 'tt', UNIT)
            if r.pure:
                return cont(env)
            return '%s <~ %s ;;\n%s' % (self.tmp('u'), mparen(r.code), cont(env))
        if isinstance(s, ast.Assign):
            if len(s.targets) != 1:
                raise Refuse('multiple assignment (line %d)' % s.lineno)
            t = s.targets[0]
            if isinstance(t, ast.Name) and self.local_types.get(t.id) == OPT(TAG):
                # a variable holding None or a non-empty string constant (e.g. key_exchange)
                if isinstance(s.value, ast.Constant) and s.value.value is None:
                    v = Term('None', OPT(TAG))
                elif isinstance(s.value, ast.Constant) and isinstance(s.value.value, str) and s.value.value:
                    v = Term('(Some tt)', OPT(TAG))
                else:
                    raise Refuse('assignment to tag variable %s (line %d)' % (t.id, s.lineno))
            else:
                v = self.expr(s.value, env)
            if isinstance(t, ast.Name):
                if v.ty == NONE:
                    decl = self.local_types.get(t.id)
                    if decl is None or decl[0] != 'opt':
                        raise Refuse('x = None needs a declared optional type for %s (line %d)' % (t.id, s.lineno))
                    v = Term('None', decl)
                elif t.id in self.local_types:
                    decl = self.local_types[t.id]
                    if decl == v.ty:
                        pass
                    elif decl[0] == 'opt' and decl[1] == v.ty:
                        v = self.seq([v], lambda c: 'Some %s' % paren(c[0]), decl)
                    else:
                        raise Refuse('assignment to %s : %r of a %r (line %d)' % (t.id, decl, v.ty, s.lineno))
                # (rebinding a local with a value of another type is fine: the new let shadows the old one;
                #  at joins the continuation is translated per environment, see `shared`)
                if t.id in dict(self.inputs):
                    raise Refuse('assignment to input %s (line %d)' % (t.id, s.lineno))
                env2 = dict(env)
                env2[t.id] = v.ty
                if v.pure:
                    return 'let %s := %s in\n%s' % (t.id, v.code, cont(env2))
                return '%s <~ %s ;;\n%s' % (t.id, mparen(v.code), cont(env2))
            # self.a.b = value : evaluated, store not modelled
            n = t
            while isinstance(n, ast.Attribute):
                n = n.value
            if isinstance(t, ast.Attribute) and isinstance(n, ast.Name) and n.id == 'self':
                if v.pure:
                    return cont(env)
                return '%s <~ %s ;;\n%s' % (self.tmp('u'), mparen(v.code), cont(env))
            if isinstance(t, ast.Attribute) and isinstance(t.value, ast.Name) and t.value.id in env and \
                    ast.unparse(t) in self.effects:
                # store into an attribute of a local OWN object (declared effect): the receiver must not be None
                recv = Term(t.value.id, env[t.value.id])
                if recv.ty[0] == 'opt':
                    c0 = self.site('AttributeError', t)
                    chk = 'match %s with None => %s | Some _ => OK tt end' % (t.value.id, c0)
                    code = '%s <~ %s ;;\n%s' % (self.tmp('u'), mparen(chk), cont(env))
                else:
                    code = cont(env)
                if v.pure:
                    return code
                return '%s <~ %s ;;\n%s' % (self.tmp('u'), mparen(v.code), code)
            raise Refuse('assignment target %s (line %d)' % (ast.unparse(t), s.lineno))
        if isinstance(s, ast.If):
            c = self.cond(s.test, env)
            keep = set(env) | (self.definite(s.body) & self.definite(s.orelse))
            after = self.shared(cont, keep=keep)
            A = self.block(s.body, env, after)
            B = self.block(s.orelse, env, after)
            if c.pure:
                return 'if %s then (\n%s\n) else (\n%s\n)' % (c.code, A, B)
            v = self.tmp('b')
            return '%s <~ %s ;;\nif %s then (\n%s\n) else (\n%s\n)' % (v, mparen(c.code), v, A, B)
        if isinstance(s, ast.For):
            if s.orelse or not isinstance(s.target, ast.Name):
                raise Refuse('for form (line %d)' % s.lineno)
            it = self.expr(s.iter, env)
            lst, ety = self.as_list(it, s.iter, 'iter')
            carried = [v for v in self.assigned_vars(s.body) if v in env and v != s.target.id]
            if s.target.id in env:
                raise Refuse('loop variable %s shadows a live variable (line %d)' % (s.target.id, s.lineno))
            env_b = dict(env)
            env_b[s.target.id] = ety
            tup = 'tt' if not carried else (carried[0] if len(carried) == 1 else '(' + ', '.join(carried) + ')')
            pat = '_' if not carried else (carried[0] if len(carried) == 1 else "'" + tup)
            sty = 'unit' if not carried else ' * '.join(gty(env[v]) for v in carried)

            def body_end(env_e):
                for v in carried:
                    if env_e.get(v) != env[v]:
                        raise Refuse('loop changes the type of %s (line %d)' % (v, s.lineno))
                return 'OK %s' % tup
            body = self.block(s.body, env_b, body_end)
            rest_code = self.shared(cont)(env)
            lv = self.tmp('l')
            fold = "foldMo (fun (st_ : %s) (%s : %s) => let %s := st_ in\n%s) %s %s" % (
                sty, s.target.id, gty(ety), pat, body, lv, tup)
            code = '%s <~ %s ;;\n%s <~ %s ;;\n%s' % (lv, mparen(self.mon(lst)), pat if carried else self.tmp('u'), mparen(fold), rest_code)
            return code
        if isinstance(s, ast.Try):
            if s.orelse or s.finalbody or len(s.handlers) != 1 or not isinstance(s.handlers[0].type, ast.Name):
                raise Refuse('try form (line %d)' % s.lineno)
            h = s.handlers[0]
            # the handler's code is inlined at the raising point (see `decode`)
            hcode = self.block(h.body, env, lambda e2: 'OK tt')
            after = self.shared(cont, keep=set(env) | self.definite(s.body))
            self.handlers.append({h.type.id: hcode})
            try:
                return self.block(s.body, env, after)
            finally:
                self.handlers.pop()
        if isinstance(s, ast.Pass):
            return cont(env)
        if isinstance(s, ast.Raise) and isinstance(s.exc, ast.Call) and isinstance(s.exc.func, ast.Name) and \
                s.exc.func.id in self.ns and isinstance(self.ns[s.exc.func.id], type) and \
                issubclass(self.ns[s.exc.func.id], BaseException):
            msgs = [self.message(a, env) for a in s.exc.args]
            return self.seq(msgs, lambda c: 'Raised %s' % gstr(s.exc.func.id), UNIT, pure_result=False).code
        raise Refuse('statement %s (line %d)' % (type(s).__name__, s.lineno))

    # ------------------------------------------------------------ driver
    def translate(self, local_types=None):
        self.local_types = local_types or {}
        def find(body):
            """the statement list (at any nesting depth) that contains the start marker, with the end marker
            later in the SAME list"""
            idx0 = idx1 = None
            for i, s in enumerate(body):
                txt = ast.unparse(s)
                if idx0 is None and txt.startswith(self.start):
                    idx0 = i
                elif idx0 is not None and txt.startswith(self.end):
                    idx1 = i
                    break
            if idx0 is not None and idx1 is not None:
                return body, idx0, idx1
            for s in body:
                for fld in ('body', 'orelse', 'finalbody'):
                    sub = getattr(s, fld, None)
                    if isinstance(sub, list) and sub and isinstance(sub[0], ast.stmt):
                        r = find(sub)
                        if r is not None:
                            return r
                for h in getattr(s, 'handlers', []) or []:
                    r = find(h.body)
                    if r is not None:
                        return r
            return None
        r = find(self.fdef.body)
        if r is None:
            raise Refuse('region markers not found in %s (start=%r end=%r)' % (self.fdef.name, self.start, self.end))
        body, idx0, idx1 = r
        region = body[idx0:idx1]
        self.lines = (region[0].lineno, region[-1].end_lineno)
        env = dict(self.inputs)
        # every top-level statement boundary becomes a named continuation
        code = self.top(region, env)
        names = [n for n, _ in self.inputs]
        params = ' '.join('(%s : %s)' % (n, gty(t)) for n, t in self.inputs)
        self.defs.append('Definition %s %s : outcome unit :=\n%s.\n' % (self.unit, params, indent(code)))
        self.kont_params[self.unit] = names
        return '\n'.join(self.defs)

    def top(self, stmts, env):
        if not stmts:
            return 'OK tt'
        s = stmts[0]
        if self.use_boundaries and isinstance(s, (ast.If, ast.For, ast.Try)) and self.is_alert_idiom(s) is None \
                and len(stmts) > 1:
            k = self.shared(lambda e2: self.top(stmts[1:], e2), limit=-1, boundary=True)
        else:
            def k(e2):
                return self.top(stmts[1:], e2)
        return self.block([s], env, k)

    def emit_proofs(self, sites_name, pre=None, entry_assumes=False):
        """Generated proof script: one lemma per boundary continuation (in definition order, i.e.
        last statement first) and one for the entry point, all by the generic symbolic-execution
        tactic; the kernel checks them like any other proof.
        pre = (predicate name, [input names]): a fact about the (immutable) inputs that the code
        BEFORE the first boundary establishes (e.g. by a guard that alerts otherwise).  Every
        boundary lemma assumes it, the entry lemma does not: there it has to be proved, from the
        path condition, at the first boundary (Hint Extern -> c08_pre).  Nothing is trusted: a
        wrong predicate makes the entry proof or a boundary proof fail."""
        out = []
        hyp = ''
        if pre is not None:
            hyp = '%s %s -> ' % (pre[0], ' '.join(pre[1]))
            out.append('#[local] Hint Extern 1 (%s %s) => c08_pre : c08gen.\n' % (pre[0], ' '.join('_' for _ in pre[1])))
        for name in self.boundaries + [self.unit]:
            # entry_assumes: the fact is a HYPOTHESIS about the endpoint's own state (visible in the exported theorem)
            h = hyp if (name != self.unit or entry_assumes) else ''
            out.append('Lemma %s_ok : forall %s, %scrash_in %s (%s %s).' % (
                name, ' '.join(self.kont_params[name]), h, sites_name, name, ' '.join(self.kont_params[name])))
            out.append('Proof. intros. unfold %s. c08_symex. Qed.' % name)
            out.append('#[local] Hint Resolve %s_ok : c08gen.' % name)
            # from here on the continuation is used only through its lemma (a failing premise must
            # make the script fail at once instead of re-enumerating the paths behind the boundary)
            out.append('#[local] Opaque %s.\n' % name)
        return '\n'.join(out)


def _site_arg(crash_code):
    # 'Crash "Kind"%string "site"%string' -> the site literal
    m = re.match(r'Crash ".*?"%string (".*"%string)$', crash_code, flags=re.S)
    return m.group(1)


def mparen(c):
    """parenthesise a monadic computation that is bound with <~"""
    c2 = c.strip()
    if ';;' in c2 or c2.startswith(('if ', 'match ', 'let ')):
        return '(' + c2 + ')'
    return c2


def paren(c):
    c = c.strip()
    if re.match(r'^[\w\.\']+$', c) or (c.startswith('(') and c.endswith(')') and balanced(c[1:-1])) or \
            (c.startswith('[') and c.endswith(']')) or re.match(r'^"[^"]*"%string$', c):
        return c
    return '(' + c + ')'


def balanced(s):
    d = 0
    for ch in s:
        if ch == '(':
            d += 1
        elif ch == ')':
            d -= 1
            if d < 0:
                return False
    return d == 0


def indent(code):
    out, depth = [], 1
    for line in code.split('\n'):
        line = line.strip()
        if not line:
            continue
        d = depth
        if line.startswith(')'):
            d -= 1
        out.append('  ' * max(d, 1) + line)
        depth += line.count('(') - line.count(')')
    return '\n'.join(out)
