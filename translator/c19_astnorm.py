"""Normal form of the closure of HandshakeSettings.validate() used for the C19 drift digest.

The hand model of validate() is tied to the code by correspondence; the digest only answers "is this still the text
the model was written against?".  To keep behaviour-preserving rewrites from breaking that tie, the digest is taken
over a normal form of the *flattened* validate():

  1. doc strings dropped, the message arguments of `raise X(...)` dropped (reworded texts);
  2. aliases `name = HandshakeSettings._m` / `self._m` removed, every reference to a method written canonically;
  3. statement-level calls of methods of the class (`self._m(other)`, `HandshakeSettings._m(other)`) inlined with
     parameter substitution, recursively (extracted / merged helpers); pure one-line helpers (`return <expr>`) inlined
     inside expressions;
  4. locals that are assigned exactly once (outside try/loops) by a call-free expression inlined at their uses;
  5. `for a, b in ((x1, y1), (x2, y2)): body` over a literal tuple unrolled; `if c: continue; rest` -> `if not c: rest`;
  6. negations pushed inwards (De Morgan, `not x in y`, `not a == b`), `x not in (A + B)` distributed,
     comprehension variables renamed canonically.

A wrong rule here can only hide a drift *warning*: the vm_compute correspondence and the direct oracles run in any case.
"""
import ast
import copy
import hashlib

CLS = 'HandshakeSettings'


def _is_method_ref(e, methods):
    """self._m or HandshakeSettings._m -> name"""
    if isinstance(e, ast.Attribute) and isinstance(e.value, ast.Name) and e.value.id in ('self', CLS) \
            and e.attr in methods:
        return e.attr
    return None


class Subst(ast.NodeTransformer):
    def __init__(self, mapping):
        self.mapping = mapping

    def visit_Name(self, node):
        if isinstance(node.ctx, ast.Load) and node.id in self.mapping:
            return copy.deepcopy(self.mapping[node.id])
        return node


def _strip_doc(body):
    return [s for s in body if not (isinstance(s, ast.Expr) and isinstance(s.value, ast.Constant)
                                    and isinstance(s.value.value, str))]


class Normaliser(object):
    def __init__(self, classdef):
        self.funs = {n.name: n for n in classdef.body if isinstance(n, ast.FunctionDef)}
        self.methods = set(self.funs)
        self.depth = 0

    # ------------------------------------------------------------------ helpers
    def params(self, fn):
        a = [x.arg for x in self.funs[fn].args.args]
        if a and a[0] == 'self':
            a = a[1:]
        return a

    def pure_return(self, fn):
        """The returned expression of a helper whose body is a single `return <expr>`."""
        body = _strip_doc(self.funs[fn].body)
        if len(body) == 1 and isinstance(body[0], ast.Return) and body[0].value is not None:
            return body[0].value
        return None

    def has_value_return(self, fn):
        return any(isinstance(n, ast.Return) and n.value is not None for n in ast.walk(self.funs[fn]))

    # ------------------------------------------------------------------ statement level
    def flatten(self, fn, args=None):
        """Normalised statement list of method fn with its parameters replaced by args."""
        self.depth += 1
        if self.depth > 12:
            raise RecursionError('method inlining too deep')
        body = copy.deepcopy(_strip_doc(self.funs[fn].body))
        if args is not None:
            mapping = dict(zip(self.params(fn), args))
            body = [Subst(mapping).visit(s) for s in body]
        body = self.remove_aliases(body)
        out = self.block(body)
        self.depth -= 1
        return out

    def remove_aliases(self, body):
        aliases = {}
        keep = []
        for s in body:
            if isinstance(s, ast.Assign) and len(s.targets) == 1 and isinstance(s.targets[0], ast.Name):
                m = _is_method_ref(s.value, self.methods)
                if m:
                    aliases[s.targets[0].id] = ast.Attribute(value=ast.Name(id=CLS, ctx=ast.Load()), attr=m, ctx=ast.Load())
                    continue
            keep.append(s)
        if aliases:
            keep = [Subst(aliases).visit(s) for s in keep]
        return keep

    def block(self, stmts):
        out = []
        for s in stmts:
            out.extend(self.stmt(s))
        return self.continue_to_if(out)

    def stmt(self, s):
        # statement-level call of a method of the class: inline
        if isinstance(s, ast.Expr) and isinstance(s.value, ast.Call):
            m = _is_method_ref(s.value.func, self.methods)
            if m and not s.value.keywords and not self.has_value_return(m) and len(s.value.args) == len(self.params(m)):
                return self.flatten(m, [self.expr(a) for a in s.value.args])
        if isinstance(s, ast.If):
            s.test = self.expr(s.test)
            s.body = self.block(s.body) or [ast.Pass()]
            s.orelse = self.block(s.orelse)
            return [s]
        if isinstance(s, ast.For):
            un = self.unroll(s)
            if un is not None:
                return un
            s.iter = self.expr(s.iter)
            s.body = self.block(s.body) or [ast.Pass()]
            s.orelse = self.block(s.orelse)
            return [s]
        if isinstance(s, ast.Try):
            s.body = self.block(s.body) or [ast.Pass()]
            for h in s.handlers:
                h.body = self.block(h.body) or [ast.Pass()]
            s.orelse = self.block(s.orelse)
            s.finalbody = self.block(s.finalbody)
            return [s]
        if isinstance(s, ast.Raise):
            if isinstance(s.exc, ast.Call):
                s.exc = s.exc.func            # reworded messages do not matter
            return [s]
        for f, v in ast.iter_fields(s):
            if isinstance(v, ast.expr):
                setattr(s, f, self.expr(v))
            elif isinstance(v, list):
                setattr(s, f, [self.expr(x) if isinstance(x, ast.expr) else x for x in v])
        return [s]

    def unroll(self, s):
        """for a, b in ((x1, y1), (x2, y2)): body  -> body[a:=x1,b:=y1]; body[a:=x2,b:=y2]"""
        if s.orelse or not isinstance(s.iter, (ast.Tuple, ast.List)):
            return None
        if isinstance(s.target, ast.Name):
            names = [s.target.id]
        elif isinstance(s.target, ast.Tuple) and all(isinstance(e, ast.Name) for e in s.target.elts):
            names = [e.id for e in s.target.elts]
        else:
            return None
        if any(isinstance(n, ast.Break) for n in ast.walk(s)):
            return None
        out = []
        for item in s.iter.elts:
            vals = [item] if len(names) == 1 else (item.elts if isinstance(item, (ast.Tuple, ast.List)) else None)
            if vals is None or len(vals) != len(names):
                return None
            body = [Subst(dict(zip(names, vals))).visit(copy.deepcopy(b)) for b in s.body]
            out.extend(self.block(self.loop_continue(body)))
        return out

    @staticmethod
    def loop_continue(body):
        """inside an unrolled iteration: `if c: continue; rest` -> `if not c: rest`"""
        for i, st in enumerate(body):
            if isinstance(st, ast.If) and not st.orelse and len(st.body) == 1 and isinstance(st.body[0], ast.Continue):
                rest = Normaliser.loop_continue(body[i + 1:])
                new = ast.If(test=ast.UnaryOp(op=ast.Not(), operand=st.test), body=rest or [ast.Pass()], orelse=[])
                return body[:i] + [new]
        return body

    @staticmethod
    def continue_to_if(stmts):
        return stmts

    # ------------------------------------------------------------------ expressions
    def expr(self, e):
        e = self.inline_pure_calls(e)
        e = NNF().visit(e)
        return e

    def inline_pure_calls(self, e):
        norm = self

        class T(ast.NodeTransformer):
            def visit_Call(self, node):
                self.generic_visit(node)
                m = _is_method_ref(node.func, norm.methods)
                if m and not node.keywords:
                    r = norm.pure_return(m)
                    ps = norm.params(m)
                    if r is not None and len(ps) == len(node.args):
                        return Subst(dict(zip(ps, node.args))).visit(copy.deepcopy(r))
                return node
        return T().visit(e)


class NNF(ast.NodeTransformer):
    def visit_UnaryOp(self, node):
        self.generic_visit(node)
        if isinstance(node.op, ast.Not):
            x = node.operand
            if isinstance(x, ast.UnaryOp) and isinstance(x.op, ast.Not):
                return x.operand
            if isinstance(x, ast.BoolOp):
                op = ast.Or() if isinstance(x.op, ast.And) else ast.And()
                return self.visit(ast.BoolOp(op=op, values=[ast.UnaryOp(op=ast.Not(), operand=v) for v in x.values]))
            if isinstance(x, ast.Compare) and len(x.ops) == 1:
                flip = {ast.In: ast.NotIn, ast.NotIn: ast.In, ast.Eq: ast.NotEq, ast.NotEq: ast.Eq,
                        ast.Is: ast.IsNot, ast.IsNot: ast.Is}
                t = type(x.ops[0])
                if t in flip:
                    return self.visit(ast.Compare(left=x.left, ops=[flip[t]()], comparators=x.comparators))
        return node

    def visit_BoolOp(self, node):
        self.generic_visit(node)
        vals = []
        for v in node.values:       # flatten nested and/and, or/or
            if isinstance(v, ast.BoolOp) and type(v.op) is type(node.op):
                vals.extend(v.values)
            else:
                vals.append(v)
        node.values = vals
        return node

    def visit_Compare(self, node):
        self.generic_visit(node)
        if len(node.ops) == 1 and isinstance(node.ops[0], (ast.In, ast.NotIn)):
            c = node.comparators[0]
            if isinstance(c, ast.BinOp) and isinstance(c.op, ast.Add):
                parts = []

                def split(x):
                    if isinstance(x, ast.BinOp) and isinstance(x.op, ast.Add):
                        split(x.left)
                        split(x.right)
                    else:
                        parts.append(x)
                split(c)
                op = ast.And() if isinstance(node.ops[0], ast.NotIn) else ast.Or()
                return ast.BoolOp(op=op, values=[ast.Compare(left=copy.deepcopy(node.left), ops=[type(node.ops[0])()],
                                                            comparators=[p]) for p in parts])
        return node


def inline_single_assignments(stmts):
    """Locals assigned exactly once (at statement level, outside try/for) by a call-free expression are replaced by
    that expression."""
    counts = {}
    for s in stmts:
        for n in ast.walk(s):
            if isinstance(n, ast.Name) and isinstance(n.ctx, ast.Store):
                counts[n.id] = counts.get(n.id, 0) + 1
            if isinstance(n, ast.arg):
                counts[n.arg] = counts.get(n.arg, 0) + 2
    out = list(stmts)
    changed = True
    while changed:
        changed = False
        for i, s in enumerate(out):
            if isinstance(s, ast.Assign) and len(s.targets) == 1 and isinstance(s.targets[0], ast.Name) \
                    and counts.get(s.targets[0].id) == 1 \
                    and not any(isinstance(n, (ast.Call, ast.ListComp, ast.GeneratorExp)) for n in ast.walk(s.value)):
                name, val = s.targets[0].id, s.value
                rest = [Subst({name: val}).visit(x) for x in out[i + 1:]]
                out = out[:i] + rest
                counts.pop(name, None)
                changed = True
                break
    return out


class AlphaComp(ast.NodeTransformer):
    """canonical names for comprehension variables"""

    def __init__(self):
        self.n = 0

    def _comp(self, node):
        mapping = {}
        for g in node.generators:
            for t in ast.walk(g.target):
                if isinstance(t, ast.Name):
                    mapping[t.id] = ast.Name(id='_v%d' % self.n, ctx=ast.Load())
                    self.n += 1

        class R(ast.NodeTransformer):
            def visit_Name(self, nd):
                if nd.id in mapping:
                    return ast.Name(id=mapping[nd.id].id, ctx=nd.ctx)
                return nd
        node = R().visit(node)
        self.generic_visit(node)
        return node

    visit_ListComp = _comp
    visit_GeneratorExp = _comp
    visit_SetComp = _comp


def closure_text(classdef, root='validate'):
    n = Normaliser(classdef)
    stmts = n.flatten(root)
    stmts = inline_single_assignments(stmts)
    # expressions may have become normalisable only after inlining
    stmts = [NNF().visit(s) for s in stmts]
    mod = ast.Module(body=stmts, type_ignores=[])
    mod = AlphaComp().visit(mod)
    ast.fix_missing_locations(mod)
    return ast.unparse(mod)


def closure_digest(classdef, root='validate'):
    return hashlib.sha256(closure_text(classdef, root).encode()).hexdigest()[:16]
