"""C06 translator unit: the ordered table of every self._getMsg(...) call site.

Regenerated on every run from the Python ast of tlslite/tlsconnection.py and
tlslite/tlsrecordlayer.py (VERIF_REPO respected).  For every method of every class in those
files, in source order, each call `self._getMsg(expectedType, secondaryType, ...)` becomes a
row

    (function name, ordinal within the function, guard text, alternatives)

where `alternatives` is a list of (condition text, content types, handshake types) --
one entry when both arguments are literals, several when an argument is a local variable
assigned differently in the branches of an `if` (reaching definitions are computed by a small
walker, the branch conditions are kept as text).  `ContentType.x` / `HandshakeType.x` are
resolved to integers by importing tlslite.constants from the tree under test.

Fail closed (Refuse) on: any mention of `_getMsg` that is not a direct call on `self`, a
positional argument form that cannot be resolved, keyword/star arguments, a gate variable
assigned in a loop body or by something that is not a tuple/attribute literal.
"""
import ast
import copy
import importlib
import os
import sys

sys.path.insert(0, os.path.dirname(os.path.abspath(__file__)))
try:
    from pylite import Refuse  # noqa: E402
except Exception:  # pragma: no cover
    class Refuse(Exception):
        pass

REPO = os.path.realpath(os.environ.get('VERIF_REPO', '/repo'))
FILES = ['tlslite/tlsconnection.py', 'tlslite/tlsrecordlayer.py']
NAME = 'C06_Gates'


def _constants():
    if REPO not in sys.path:
        sys.path.insert(0, REPO)
    mod = importlib.import_module('tlslite.constants')
    if not os.path.realpath(mod.__file__).startswith(REPO):
        raise Refuse('tlslite.constants imported from %s, not from %s' % (mod.__file__, REPO))
    return mod


def _src(node):
    try:
        s = ast.unparse(node)
    except Exception as e:  # pragma: no cover
        raise Refuse('cannot unparse guard: %s' % e)
    return ' '.join(s.split())


class _Resolver(object):
    def __init__(self, consts):
        self.c = consts

    def const(self, node):
        """-> tuple of ints, or None when the node is not a resolvable literal."""
        if isinstance(node, ast.Constant) and node.value is None:
            return ()
        if isinstance(node, ast.Attribute) and isinstance(node.value, ast.Name) and \
                node.value.id in ('ContentType', 'HandshakeType'):
            cls = getattr(self.c, node.value.id)
            if not hasattr(cls, node.attr):
                raise Refuse('%s.%s does not resolve in tlslite.constants (line %d)'
                             % (node.value.id, node.attr, node.lineno))
            v = getattr(cls, node.attr)
            if not isinstance(v, int):
                raise Refuse('%s.%s is not an integer' % (node.value.id, node.attr))
            return (int(v),)
        if isinstance(node, ast.Tuple):
            out = ()
            for e in node.elts:
                v = self.const(e)
                if v is None:
                    return None
                out += v
            return out
        return None


class _FnWalker(object):
    """Walks one function body in source order keeping reaching definitions of local names that
    hold gate literals: env[name] = list of (condition text, tuple of ints)."""

    def __init__(self, fname, res, prog=None, inl=(), roots=(), fn=None):
        self.fname = fname
        self.res = res
        self.prog = prog or {}      # method name -> FunctionDef (both files)
        self.inl = set(inl)         # helper generators that are flattened into their single caller
        self.roots = set(roots)     # gate-carrying methods that stay rows of their own
        self.pure = _pure_locals(fn) if fn is not None else {}
        self.stack = [fname]
        self.callrows = []          # (fname, ordinal, callee, guard text, argument text)
        self.rows = []
        self.checks = []            # (fname, ordinal, guard text) of unexpected_message aborts
        self.early = []             # (fname, ordinal, guard text, value) of early_data_ok assignments
        self.tracked_in_loop = set()

    def gtext(self, node):
        """condition text with single-assignment side-effect-free locals replaced by their value
        (so that hoisting a sub-expression into a local does not change the table)"""
        pure = self.pure

        class T(ast.NodeTransformer):
            depth = 0

            def visit_Name(self, n):
                if isinstance(n.ctx, ast.Load) and n.id in pure and T.depth < 4:
                    T.depth += 1
                    r = self.visit(copy.deepcopy(pure[n.id]))
                    T.depth -= 1
                    return r
                return n
        return _src(T().visit(copy.deepcopy(node)))

    # ---- expressions: find _getMsg calls in evaluation order
    def calls_in(self, node):
        found = []
        for n in ast.walk(node):
            if isinstance(n, ast.Attribute) and n.attr == '_getMsg':
                found.append(n)
        return found

    def scan_expr(self, node, env, guards):
        if node is None:
            return
        calls = []
        for n in ast.walk(node):
            if isinstance(n, ast.Call) and isinstance(n.func, ast.Attribute) and n.func.attr == '_getMsg':
                calls.append(n)
        call_funcs = set(id(c.func) for c in calls)
        for n in ast.walk(node):
            if isinstance(n, ast.Attribute) and n.attr == '_getMsg' and id(n) not in call_funcs:
                raise Refuse('%s: _getMsg referenced without being called (line %d)' % (self.fname, n.lineno))
            if isinstance(n, ast.Name) and n.id == '_getMsg':
                raise Refuse('%s: bare name _getMsg (line %d)' % (self.fname, n.lineno))
        calls.sort(key=lambda c: (c.lineno, c.col_offset))
        for c in calls:
            self.add_call(c, env, guards)
        for n in sorted([n for n in ast.walk(node)
                         if isinstance(n, ast.Call) and isinstance(n.func, ast.Attribute)
                         and isinstance(n.func.value, ast.Name) and n.func.value.id == 'self'
                         and n.func.attr in self.roots], key=lambda c: (c.lineno, c.col_offset)):
            args = [self.gtext(a) for a in n.args] + ['%s=%s' % (k.arg, self.gtext(k.value)) for k in n.keywords]
            self.callrows.append((self.fname, len(self.callrows), n.func.attr, ' && '.join(guards), ', '.join(args)))
        errs = [n for n in ast.walk(node)
                if isinstance(n, ast.Call) and isinstance(n.func, ast.Attribute) and n.func.attr == '_sendError'
                and n.args and isinstance(n.args[0], ast.Attribute) and n.args[0].attr == 'unexpected_message']
        errs.sort(key=lambda c: (c.lineno, c.col_offset))
        for c in errs:
            self.checks.append((self.fname, len(self.checks), ' && '.join(guards)))

    def arg_alts(self, node, env, what):
        v = self.res.const(node)
        if v is not None:
            return [('', v)]
        if isinstance(node, ast.Name):
            if node.id in self.tracked_in_loop:
                raise Refuse('%s: gate variable %s assigned inside a loop' % (self.fname, node.id))
            if node.id not in env:
                raise Refuse('%s: gate argument %s is not a literal and has no resolvable assignment (line %d)'
                             % (self.fname, node.id, node.lineno))
            return list(env[node.id])
        raise Refuse('%s: unresolvable %s argument %s (line %d)' % (self.fname, what, _src(node), node.lineno))

    def add_call(self, c, env, guards):
        if not (isinstance(c.func.value, ast.Name) and c.func.value.id == 'self'):
            raise Refuse('%s: _getMsg called on %s, not self (line %d)' % (self.fname, _src(c.func.value), c.lineno))
        if c.keywords or any(isinstance(a, ast.Starred) for a in c.args):
            raise Refuse('%s: keyword/star arguments in _getMsg call (line %d)' % (self.fname, c.lineno))
        if not 1 <= len(c.args) <= 3:
            raise Refuse('%s: _getMsg with %d arguments (line %d)' % (self.fname, len(c.args), c.lineno))
        cts = self.arg_alts(c.args[0], env, 'content-type')
        hts = self.arg_alts(c.args[1], env, 'handshake-type') if len(c.args) > 1 else [('', ())]
        alts = []
        for (g1, v1) in cts:
            for (g2, v2) in hts:
                a1 = [a for a in g1.split(' && ') if a]
                a2 = [a for a in g2.split(' && ') if a]
                # branch conditions are conjunctions of atoms X / not (X): a pair of alternatives
                # whose conditions contradict each other can never be taken together
                if any(('not (%s)' % a) in a2 for a in a1) or any(('not (%s)' % a) in a1 for a in a2):
                    continue
                alts.append((' && '.join(a1 + [a for a in a2 if a not in a1]), v1, v2))
        if not alts:
            raise Refuse('%s: no consistent alternative for gate (line %d)' % (self.fname, c.lineno))
        self.rows.append((self.fname, len(self.rows), ' && '.join(guards), alts))

    # ---- statements
    def assign_value(self, value):
        return self.res.const(value)

    def filter_form(self, s, env):
        """x = tuple(i for i in x if i != HandshakeType.c) on a tracked gate variable"""
        if len(s.targets) != 1 or not isinstance(s.targets[0], ast.Name):
            return None
        v = s.value
        if not (isinstance(v, ast.Call) and isinstance(v.func, ast.Name) and v.func.id == 'tuple'
                and len(v.args) == 1 and not v.keywords and isinstance(v.args[0], ast.GeneratorExp)):
            return None
        ge = v.args[0]
        if len(ge.generators) != 1:
            return None
        g = ge.generators[0]
        if not (isinstance(ge.elt, ast.Name) and isinstance(g.target, ast.Name) and ge.elt.id == g.target.id
                and isinstance(g.iter, ast.Name) and g.iter.id in env and not g.is_async and len(g.ifs) == 1):
            return None
        c = g.ifs[0]
        if not (isinstance(c, ast.Compare) and len(c.ops) == 1 and isinstance(c.ops[0], ast.NotEq)
                and isinstance(c.left, ast.Name) and c.left.id == g.target.id):
            return None
        drop = self.res.const(c.comparators[0])
        if drop is None or len(drop) != 1:
            return None
        return s.targets[0].id, [(gd, tuple(x for x in val if x != drop[0])) for (gd, val) in env[g.iter.id]]

    def walk(self, stmts, env, guards, in_loop=False):
        for s in stmts:
            self.stmt(s, env, guards, in_loop)

    def stmt(self, s, env, guards, in_loop):
        if isinstance(s, (ast.FunctionDef, ast.AsyncFunctionDef, ast.ClassDef, ast.Lambda)):
            if self.calls_in(s):
                raise Refuse('%s: _getMsg inside a nested definition (line %d)' % (self.fname, s.lineno))
            return
        if isinstance(s, ast.Assign):
            self.scan_expr(s.value, env, guards)
            for t in s.targets:
                if isinstance(t, ast.Attribute) and t.attr == 'early_data_ok':
                    self.early.append((self.fname, len(self.early), ' && '.join(guards), _src(s.value)))
            flt = self.filter_form(s, env)
            if flt is not None:
                name, alts = flt
                env[name] = alts
                if in_loop:
                    self.tracked_in_loop.add(name)
                return
            for t in s.targets:
                for n in ast.walk(t):
                    if isinstance(n, ast.Name):
                        v = self.assign_value(s.value) if (len(s.targets) == 1 and isinstance(t, ast.Name)) else None
                        if v is not None:
                            env[n.id] = [('', v)]
                            if in_loop:
                                self.tracked_in_loop.add(n.id)
                        else:
                            env.pop(n.id, None)
            return
        if isinstance(s, (ast.AugAssign, ast.AnnAssign)):
            self.scan_expr(s.value, env, guards)
            for n in ast.walk(s.target):
                if isinstance(n, ast.Name):
                    env.pop(n.id, None)
            return
        if isinstance(s, ast.If):
            self.scan_expr(s.test, env, guards)
            t = self.gtext(s.test)
            e1 = dict((k, list(v)) for k, v in env.items())
            e2 = dict((k, list(v)) for k, v in env.items())
            self.walk(s.body, e1, guards + [t], in_loop)
            self.walk(s.orelse, e2, guards + ['not (%s)' % t], in_loop)
            env.clear()
            for k in set(e1) & set(e2):
                if e1[k] == e2[k]:
                    env[k] = e1[k]
                else:
                    env[k] = [((t + (' && ' + g if g else '')), v) for (g, v) in e1[k]] + \
                             [(('not (%s)' % t) + (' && ' + g if g else ''), v) for (g, v) in e2[k]]
            return
        if isinstance(s, (ast.For, ast.AsyncFor)) and isinstance(s.iter, ast.Call) and \
                isinstance(s.iter.func, ast.Attribute) and isinstance(s.iter.func.value, ast.Name) and \
                s.iter.func.value.id == 'self' and s.iter.func.attr in self.inl:
            # `for result in self._helper(...): yield result` with a helper that has no other caller:
            # its sites are listed here, in execution order, under the conditions of the call
            name = s.iter.func.attr
            if name in self.stack:
                raise Refuse('%s: recursive helper %s' % (self.fname, name))
            for a in list(s.iter.args) + [k.value for k in s.iter.keywords]:
                self.scan_expr(a, env, guards)
            callee = self.prog[name]
            saved = self.pure
            self.pure = _pure_locals(callee)
            self.stack.append(name)
            self.walk(callee.body, {}, guards, in_loop)
            self.stack.pop()
            self.pure = saved
            for n in ast.walk(s.target):
                if isinstance(n, ast.Name):
                    env.pop(n.id, None)
            self.walk(s.body, env, guards, True)
            self.walk(s.orelse, env, guards, in_loop)
            return
        if isinstance(s, (ast.For, ast.AsyncFor)):
            # `for result in self._getMsg(...)`: the call sits in the iterator expression
            self.scan_expr(s.iter, env, guards)
            for n in ast.walk(s.target):
                if isinstance(n, ast.Name):
                    env.pop(n.id, None)
            self.walk(s.body, env, guards, True)
            self.walk(s.orelse, env, guards, in_loop)
            return
        if isinstance(s, ast.While):
            self.scan_expr(s.test, env, guards)
            self.walk(s.body, env, guards, True)
            self.walk(s.orelse, env, guards, in_loop)
            return
        if isinstance(s, ast.Try):
            self.walk(s.body, env, guards, in_loop)
            for h in s.handlers:
                self.walk(h.body, env, guards + ['except %s' % (_src(h.type) if h.type is not None else '')], in_loop)
            self.walk(s.orelse, env, guards, in_loop)
            self.walk(s.finalbody, env, guards, in_loop)
            return
        if isinstance(s, (ast.With, ast.AsyncWith)):
            for it in s.items:
                self.scan_expr(it.context_expr, env, guards)
            self.walk(s.body, env, guards, in_loop)
            return
        if isinstance(s, (ast.Expr, ast.Return, ast.Raise, ast.Assert, ast.Delete)):
            for n in ast.iter_child_nodes(s):
                self.scan_expr(n, env, guards)
            return
        if isinstance(s, (ast.Pass, ast.Break, ast.Continue, ast.Import, ast.ImportFrom, ast.Global, ast.Nonlocal)):
            return
        if hasattr(ast, 'Match') and isinstance(s, ast.Match):
            raise Refuse('%s: match statement (line %d)' % (self.fname, s.lineno))
        raise Refuse('%s: statement form %s not handled (line %d)' % (self.fname, type(s).__name__, s.lineno))


def _own_nodes(fn):
    """nodes of fn without those of nested definitions"""
    out = []
    stack = list(fn.body)
    while stack:
        n = stack.pop()
        out.append(n)
        for c in ast.iter_child_nodes(n):
            if isinstance(c, (ast.FunctionDef, ast.AsyncFunctionDef, ast.ClassDef, ast.Lambda)):
                continue
            stack.append(c)
    return out


def _pure_locals(fn):
    """locals of fn assigned exactly once, by `name = <expression without calls>`"""
    params = set(a.arg for a in fn.args.args + fn.args.kwonlyargs)
    if fn.args.vararg:
        params.add(fn.args.vararg.arg)
    if fn.args.kwarg:
        params.add(fn.args.kwarg.arg)
    stores = {}
    for n in _own_nodes(fn):
        if isinstance(n, ast.Name) and isinstance(n.ctx, (ast.Store, ast.Del)):
            stores[n.id] = stores.get(n.id, 0) + 1
    out = {}
    for n in _own_nodes(fn):
        if isinstance(n, ast.Assign) and len(n.targets) == 1 and isinstance(n.targets[0], ast.Name):
            nm = n.targets[0].id
            if stores.get(nm) != 1 or nm in params:
                continue
            bad = any(isinstance(x, (ast.Call, ast.Yield, ast.YieldFrom, ast.Await, ast.Lambda, ast.ListComp,
                                     ast.SetComp, ast.DictComp, ast.GeneratorExp, ast.NamedExpr,
                                     ast.List, ast.Dict, ast.Set, ast.Subscript))
                      for x in ast.walk(n.value))
            if isinstance(n.value, (ast.Constant, ast.Tuple)) or bad:
                continue
            out[nm] = n.value
    return out


def _interesting_direct(fn):
    for n in _own_nodes(fn):
        if isinstance(n, ast.Attribute) and n.attr == '_getMsg':
            return True
        if isinstance(n, ast.Call) and isinstance(n.func, ast.Attribute) and n.func.attr == '_sendError' and n.args \
                and isinstance(n.args[0], ast.Attribute) and n.args[0].attr == 'unexpected_message':
            return True
        if isinstance(n, ast.Attribute) and n.attr == 'early_data_ok' and isinstance(n.ctx, ast.Store):
            return True
    return False


def _program(repo):
    """-> (prog, order, inlinable, roots): methods of the classes in FILES.
    A helper is flattened into its caller when it carries sites (directly or through flattened
    helpers), is called at exactly one place in the two files and that place is the iterator of a
    `for` (generator delegation)."""
    prog, order, dup = {}, [], set()
    trees = []
    for rel in FILES:
        with open(os.path.join(repo, rel)) as f:
            tree = ast.parse(f.read(), rel)
        trees.append((rel, tree))
        for cls in tree.body:
            if isinstance(cls, ast.ClassDef):
                for fn in cls.body:
                    if isinstance(fn, (ast.FunctionDef, ast.AsyncFunctionDef)):
                        if fn.name in prog:
                            dup.add(fn.name)
                        prog[fn.name] = fn
                        order.append(fn.name)
    ncalls, foriter = {}, {}
    for rel, tree in trees:
        for n in ast.walk(tree):
            if isinstance(n, ast.Call) and isinstance(n.func, ast.Attribute) and isinstance(n.func.value, ast.Name) \
                    and n.func.value.id == 'self' and n.func.attr in prog:
                ncalls[n.func.attr] = ncalls.get(n.func.attr, 0) + 1
            if isinstance(n, ast.Attribute) and n.attr in prog and not (isinstance(n.value, ast.Name) and n.value.id == 'self'):
                ncalls[n.attr] = ncalls.get(n.attr, 0) + 2      # reached through something else: never flatten
            if isinstance(n, (ast.For, ast.AsyncFor)) and isinstance(n.iter, ast.Call) and \
                    isinstance(n.iter.func, ast.Attribute) and isinstance(n.iter.func.value, ast.Name) and \
                    n.iter.func.value.id == 'self' and n.iter.func.attr in prog:
                foriter[n.iter.func.attr] = foriter.get(n.iter.func.attr, 0) + 1
    cand = set(n for n in prog if n not in dup and n != '_getMsg' and n.startswith('_') and not n.startswith('__')
               and ncalls.get(n, 0) == 1 and foriter.get(n, 0) == 1)
    # interesting = carries sites itself or through candidate helpers it delegates to
    interesting = set(n for n in prog if _interesting_direct(prog[n]))
    gate_owner = set(n for n in prog if n != '_getMsg' and
                     any(isinstance(x, ast.Attribute) and x.attr == '_getMsg' for x in _own_nodes(prog[n])))
    changed = True
    while changed:
        changed = False
        for n, fn in prog.items():
            if n in interesting or not n.startswith('_'):
                continue
            for x in _own_nodes(fn):
                if isinstance(x, ast.Call) and isinstance(x.func, ast.Attribute) and isinstance(x.func.value, ast.Name) \
                        and x.func.value.id == 'self' and x.func.attr in interesting and \
                        (x.func.attr in cand or x.func.attr in gate_owner):
                    interesting.add(n)
                    changed = True
                    break
    inl = cand & interesting
    roots = [n for n in order if n in interesting and n not in inl and n != '_getMsg' or n == '_getMsg' and n in interesting]
    GATE_OWNERS.clear()
    GATE_OWNERS.update(gate_owner - inl)
    return prog, order, inl, roots, trees


def flat_functions(prog, inl, root):
    out, todo = [], [root]
    while todo:
        n = todo.pop()
        out.append(n)
        for x in _own_nodes(prog[n]):
            if isinstance(x, (ast.For, ast.AsyncFor)) and isinstance(x.iter, ast.Call) and \
                    isinstance(x.iter.func, ast.Attribute) and isinstance(x.iter.func.value, ast.Name) and \
                    x.iter.func.value.id == 'self' and x.iter.func.attr in inl:
                todo.append(x.iter.func.attr)
    return out


def extract(repo=None):
    """-> list of rows (root method, ordinal, guard, [(cond, ctypes, hstypes)]).
    Rows are listed per ROOT method: helper generators with a single caller are flattened into it
    (so extracting or merging such helpers does not change the table)."""
    repo = repo or REPO
    consts = _constants()
    res = _Resolver(consts)
    rows = []
    del CHECKS[:]
    del EARLY[:]
    del CALLS[:]
    prog, order, inl, roots, trees = _program(repo)
    n_attr = sum(1 for rel, tree in trees for n in ast.walk(tree) if isinstance(n, ast.Attribute) and n.attr == '_getMsg')
    for rel, tree in trees:
        for top in tree.body:
            if not isinstance(top, ast.ClassDef) and \
                    any(isinstance(n, ast.Attribute) and n.attr == '_getMsg' for n in ast.walk(top)):
                raise Refuse('%s: _getMsg used outside a class (line %d)' % (rel, top.lineno))
            if isinstance(top, ast.ClassDef):
                for fn in top.body:
                    if not isinstance(fn, (ast.FunctionDef, ast.AsyncFunctionDef)) and \
                            any(isinstance(n, ast.Attribute) and n.attr == '_getMsg' for n in ast.walk(fn)):
                        raise Refuse('%s: _getMsg used in class body of %s' % (rel, top.name))
    gate_roots = set(GATE_OWNERS)        # calls of these are listed with their arguments
    n_seen = 0
    walked = set()
    for r in roots:
        w = _FnWalker(r, res, prog, inl, gate_roots, prog[r])
        w.walk(prog[r].body, {}, [])
        rows += w.rows
        CHECKS.extend(w.checks)
        EARLY.extend(w.early)
        CALLS.extend(w.callrows)
        n_seen += len(w.rows)
        walked.update(flat_functions(prog, inl, r))
    FLAT.clear()
    for r in roots:
        FLAT[r] = flat_functions(prog, inl, r)
    if n_seen != n_attr:
        raise Refuse('%d mentions of _getMsg but %d call sites extracted' % (n_attr, n_seen))
    if not rows:
        raise Refuse('no _getMsg call sites found')
    # the record layer's side of the early-data window
    with open(os.path.join(repo, 'tlslite/recordlayer.py')) as f:
        tree = ast.parse(f.read())
    n_mentions = 0
    for cls in tree.body:
        if isinstance(cls, ast.ClassDef):
            for fn in cls.body:
                if isinstance(fn, (ast.FunctionDef, ast.AsyncFunctionDef)):
                    if fn.name == 'early_data_ok':
                        continue            # the property itself
                    w = _FnWalker('RecordLayer.' + fn.name if cls.name == 'RecordLayer' else cls.name + '.' + fn.name,
                                  res, fn=fn)
                    w.walk(fn.body, {}, [])
                    EARLY.extend(w.early)
                    n_mentions += sum(1 for n in ast.walk(fn) if isinstance(n, ast.Attribute) and n.attr == 'early_data_ok'
                                      and isinstance(n.ctx, ast.Store))
    if n_mentions != sum(1 for e in EARLY if e[0].startswith(('RecordLayer.', 'RecordSocket.', 'ConnectionState.'))):
        raise Refuse('recordlayer.py: early_data_ok is stored to in a form that was not extracted')
    if not EARLY:
        raise Refuse('no early_data_ok assignment found')
    return rows


CHECKS = []
EARLY = []
CALLS = []
FLAT = {}
GATE_OWNERS = set()


def defrag_sources(repo=None):
    """normalised source text of the defragmenter pieces the ordering checks rely on"""
    repo = repo or REPO
    out = []
    with open(os.path.join(repo, 'tlslite/defragmenter.py')) as f:
        tree = ast.parse(f.read())
    want = ('is_empty', 'get_message', 'add_data', 'clear_buffers')
    found = {}
    for cls in tree.body:
        if isinstance(cls, ast.ClassDef) and cls.name == 'Defragmenter':
            for fn in cls.body:
                if isinstance(fn, ast.FunctionDef) and fn.name in want:
                    body = fn.body
                    if body and isinstance(body[0], ast.Expr) and isinstance(body[0].value, ast.Constant) \
                            and isinstance(body[0].value.value, str):
                        body = body[1:]
                    found[fn.name] = ' ; '.join(_src(b) for b in body)
    for n in want:
        if n not in found:
            raise Refuse('Defragmenter.%s not found' % n)
        out.append(('Defragmenter.' + n, found[n]))
    # how the record layer configures it (priority order = order of registration)
    with open(os.path.join(repo, 'tlslite/tlsrecordlayer.py')) as f:
        tree = ast.parse(f.read())
    regs = []
    for n in ast.walk(tree):
        if isinstance(n, ast.Call) and isinstance(n.func, ast.Attribute) and \
                n.func.attr in ('add_static_size', 'add_dynamic_size') and \
                isinstance(n.func.value, ast.Attribute) and n.func.value.attr == '_defragmenter':
            regs.append((n.lineno, _src(n)))
    if not regs:
        raise Refuse('defragmenter registrations not found in tlsrecordlayer.py')
    out.append(('TLSRecordLayer.defragmenter_setup', ' ; '.join(t for _, t in sorted(regs))))
    # users of is_empty() per root method (every one must be a modelled check)
    prog, order, inl, roots, trees = _program(repo)
    users = []
    for r in roots:
        k = 0
        for fnm in flat_functions(prog, inl, r):
            k += sum(1 for n in _own_nodes(prog[fnm]) if isinstance(n, ast.Attribute) and n.attr == 'is_empty')
        if k:
            users.append('%s:%d' % (r, k))
    other = sum(1 for rel, tree in trees for n in ast.walk(tree) if isinstance(n, ast.Attribute) and n.attr == 'is_empty')
    if other != sum(int(u.split(':')[1]) for u in users):
        users.append('elsewhere:%d' % (other - sum(int(u.split(':')[1]) for u in users)))
    out.append(('is_empty.users', ' ; '.join(users)))
    return out


def _s(x):
    return '"' + x.replace('"', '""') + '"'


def _zl(v):
    return '[' + '; '.join(str(i) for i in v) + ']'


def to_coq(rows):
    out = ['(* GENERATED by translator/units_gates.py from tlslite/tlsconnection.py and',
           '   tlslite/tlsrecordlayer.py -- every self._getMsg(...) call site, in source order. *)',
           'From Coq Require Import ZArith List String.',
           'From TV Require Import Model.C06_GateTypes.',
           'Import ListNotations.',
           'Local Open Scope Z_scope.',
           'Local Open Scope string_scope.',
           '',
           'Definition extracted_gates : list gate_row := [']
    lines = []
    for (fn, k, guard, alts) in rows:
        a = '; '.join('(%s, %s, %s)' % (_s(g), _zl(c), _zl(h)) for (g, c, h) in alts)
        lines.append('  mk_row %s %d %s\n     [%s]' % (_s(fn), k, _s(guard), a))
    out.append(';\n'.join(lines))
    out.append('].')
    out.append('')
    out.append('(* every self._sendError(AlertDescription.unexpected_message, ...) site: method, ordinal,')
    out.append('   text of the enclosing conditions -- the ordering checks that are not gates *)')
    out.append('Definition extracted_order_checks : list (string * Z * string) := [')
    out.append(';\n'.join('  (%s, %d, %s)' % (_s(f), k, _s(g)) for (f, k, g) in CHECKS))
    out.append('].')
    out.append('')
    out.append('(* every call of a gate-carrying method that is not flattened (it has several callers): caller root,')
    out.append('   ordinal, callee, enclosing conditions, arguments -- how each flow instantiates the expectations *)')
    out.append('Definition extracted_gate_calls : list (string * Z * string * string * string) := [')
    out.append(';\n'.join('  (%s, %d, %s, %s, %s)' % (_s(f), k, _s(c), _s(g), _s(a)) for (f, k, c, g, a) in CALLS))
    out.append('].')
    out.append('')
    out.append('(* every assignment to early_data_ok (the window in which undecryptable records are dropped):')
    out.append('   method, ordinal, enclosing conditions, assigned value *)')
    out.append('Definition extracted_early_data : list (string * Z * string * string) := [')
    out.append(';\n'.join('  (%s, %d, %s, %s)' % (_s(f), k, _s(g), _s(v)) for (f, k, g, v) in EARLY))
    out.append('].')
    out.append('')
    out.append('(* the defragmenter pieces those checks rely on, as normalised source text *)')
    out.append('Definition extracted_defrag : list (string * string) := [')
    out.append(';\n'.join('  (%s, %s)' % (_s(a), _s(b2)) for (a, b2) in defrag_sources()))
    out.append('].')
    return '\n'.join(out)


class GatesUnit(object):
    def translate(self):
        return to_coq(extract())


UNITS = {NAME: GatesUnit}


def generate(coq_dir):
    """Stand-alone generation (does not depend on other agents' units_*.py importing cleanly)."""
    from vlib import write_if_changed
    path = os.path.join(coq_dir, 'Gen', NAME + '.v')
    try:
        text = GatesUnit().translate()
    except Refuse as e:
        try:
            os.unlink(path)
        except OSError:
            pass
        return False, 'translator refused %s: %s' % (NAME, e)
    except SyntaxError as e:
        try:
            os.unlink(path)
        except OSError:
            pass
        return False, 'source does not parse: %s' % e
    write_if_changed(path, text + '\n')
    return True, path


if __name__ == '__main__':
    for r in extract():
        print(r)
    for c in CHECKS:
        print('CHECK', c)
    for c in EARLY:
        print('EARLY', c)
    for c in CALLS:
        print('CALL', c)
    for d in defrag_sources():
        print('DEFRAG', d)
