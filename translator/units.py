"""Translation units: which functions of /repo are regenerated into coq/Gen/ on every run."""
import os
import sys

sys.path.insert(0, os.path.dirname(os.path.abspath(__file__)))
from pylite import Unit, Refuse  # noqa: E402

REPO = os.path.realpath(os.environ.get('VERIF_REPO', '/repo'))
Z2 = ('tup', 'Z', 'Z')


def u32(name, n):
    return {'params': [(p, 'Z') for p in (['val_a', 'val_b'] if n == 2 else ['val'])], 'ret': 'Z'}


def constanttime_unit():
    sigs = {
        'ct_lt_u32': u32('ct_lt_u32', 2),
        'ct_gt_u32': u32('ct_gt_u32', 2),
        'ct_le_u32': u32('ct_le_u32', 2),
        'ct_lsb_prop_u8': u32('ct_lsb_prop_u8', 1),
        'ct_lsb_prop_u16': u32('ct_lsb_prop_u16', 1),
        'ct_isnonzero_u32': u32('ct_isnonzero_u32', 1),
        'ct_neq_u32': u32('ct_neq_u32', 2),
        'ct_eq_u32': u32('ct_eq_u32', 2),
        'ct_check_cbc_mac_and_pad': {
            'params': [('data', 'bytes'), ('mac', 'hmac'), ('seqnumBytes', 'bytes'),
                       ('contentType', 'Z'), ('version', Z2), ('block_size', 'Z')],
            'ret': 'bool'},
    }
    return Unit(os.path.join(REPO, 'tlslite/utils/constanttime.py'), sigs, 'ConstantTime')


UNITS = {
    'ConstantTime': constanttime_unit,
}

# further units live in translator/units_<name>.py, each exporting UNITS = {name: thunk}
# where thunk() returns an object with .translate() -> Gallina text (may raise Refuse)
import glob as _glob
import importlib as _importlib
for _p in sorted(_glob.glob(os.path.join(os.path.dirname(os.path.abspath(__file__)), 'units_*.py'))):
    _m = _importlib.import_module(os.path.basename(_p)[:-3])
    UNITS.update(_m.UNITS)


def generate(name, coq_dir):
    """Returns (ok, message).  Writes coq/Gen/<name>.v when the text changed."""
    from vlib import write_if_changed
    path = os.path.join(coq_dir, 'Gen', name + '.v')
    try:
        text = UNITS[name]().translate()
    except Refuse as e:
        try:
            os.unlink(path)         # never leave a stale model behind
        except OSError:
            pass
        return False, 'translator refused %s: %s' % (name, e)
    except SyntaxError as e:
        return False, 'source does not parse: %s' % e
    write_if_changed(path, text + '\n')
    return True, path


if __name__ == '__main__':
    sys.path.insert(0, os.path.join(os.path.dirname(os.path.abspath(__file__)), '..', 'harness'))
    for n in sys.argv[1:] or UNITS:
        print(generate(n, os.path.join(os.path.dirname(os.path.abspath(__file__)), '..', 'coq')))
