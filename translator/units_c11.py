"""C11 translation units: RSAKey (implicit-rejection PKCS#1 v1.5 decryption) and
RSAKeyExchange.processClientKeyExchange, regenerated from /repo on every run."""
import os
import sys

sys.path.insert(0, os.path.dirname(os.path.abspath(__file__)))
from pylite_c11 import UnitX  # noqa: E402

REPO = os.path.realpath(os.environ.get('VERIF_REPO', '/repo'))
Z2 = ('tup', 'Z', 'Z')

CT = {n: (['Z', 'Z'], 'Z') for n in ('ct_lt_u32', 'ct_gt_u32', 'ct_le_u32', 'ct_neq_u32', 'ct_eq_u32')}
CT.update({n: (['Z'], 'Z') for n in ('ct_lsb_prop_u8', 'ct_lsb_prop_u16', 'ct_isnonzero_u32')})


def rsa_decrypt_unit():
    sigs = {
        '_dec_prf': {'params': [('key', 'bytes'), ('label', 'bytes'), ('out_len', 'Z')], 'ret': 'bytes',
                     # at most one iteration per requested bit is ever needed (each adds >= 1 byte
                     # when the HMAC oracle returns a non-empty digest); +1 for the final test
                     'while_fuel': 'S (Z.to_nat out_len)'},
        '_raw_private_key_op_bytes': {'params': [('message', 'bytes')], 'ret': 'bytes'},
        'decrypt': {'params': [('encBytes', 'bytes')], 'ret': 'optbytes'},
    }
    return UnitX(os.path.join(REPO, 'tlslite/utils/rsakey.py'), 'RSAKey', sigs, 'C11_RsaDecrypt',
                 fields={'self.n': 'Z', 'self.d': 'Z', 'self.key_type': 'str'},
                 oracles={'hash_sha256': ('hash_sha256', ['bytes'], 'bytes'),
                          'hmac_sha256': ('hmac_sha256', ['bytes', 'bytes'], 'bytes'),
                          'self._rawPrivateKeyOp': ('self_rawPrivateKeyOp', ['Z'], 'Z'),
                          'self.hasPrivateKey': ('self_hasPrivateKey', [], 'bool')},
                 externs=CT, caches={'self._key_hash'}, requires=('Gen.ConstantTime',))


def rsa_kex_unit():
    sigs = {
        'processClientKeyExchange': {'params': [('clientKeyExchange', 'obj')], 'ret': 'optbytes'},
    }
    return UnitX(os.path.join(REPO, 'tlslite/keyexchange.py'), 'RSAKeyExchange', sigs, 'C11_RsaKex',
                 fields={'self.clientHello.client_version': Z2, 'self.serverHello.server_version': Z2,
                         'clientKeyExchange.encryptedPreMasterSecret': 'bytes'},
                 oracles={'self.privateKey.decrypt': ('self_privateKey_decrypt', ['bytes'], 'optbytes')},
                 global_oracles={'getRandomBytes': ('getRandomBytes', ['Z'], 'bytes')})


def rsa_privop_unit():
    """Python_RSAKey._rawPrivateKeyOp: the blinding pair (blinder, unblinder) is object state shared by all
    threads using the key; it is threaded through the model, under the obligation that every access to it
    lies inside `with self._lock`."""
    sigs = {'_rawPrivateKeyOp': {'params': [('message', 'Z')], 'ret': 'Z'}}
    return UnitX(os.path.join(REPO, 'tlslite/utils/python_rsakey.py'), 'Python_RSAKey', sigs, 'C11_RsaPrivOp',
                 fields={'self.n': 'Z', 'self.e': 'Z'},
                 oracles={'self._rawPrivateKeyOpHelper': ('self_rawPrivateKeyOpHelper', ['Z'], 'Z')},
                 global_oracles={'getRandomNumber': ('getRandomNumber', ['Z', 'Z'], 'Z'),
                                 'powMod': ('powMod', ['Z', 'Z', 'Z'], 'Z'),
                                 'invMod': ('invMod', ['Z', 'Z'], 'Z')},
                 state={'self.blinder': 'Z', 'self.unblinder': 'Z'}, locks=('self._lock',))


UNITS = {
    'C11_RsaPrivOp': rsa_privop_unit,
    'C11_RsaDecrypt': rsa_decrypt_unit,
    'C11_RsaKex': rsa_kex_unit,
}
