"""PyLite extension used by the C11 units (RSA implicit-rejection decryption and the RSA
key exchange).  It subclasses translator/pylite.py (unchanged) and adds, fail-closed:

  methods of a class          `self.f` of a declared field  -> parameter self_f
                              `self.m(args)` of a translated method -> call (self fields passed on)
                              `self.m(args)` / `a.b.m(args)` declared as oracle -> Section Variable
  raise E(...)                -> Err E   (E in ValueError/AssertionError/TypeError; arguments of
                                 the exception are not evaluated)
  try: x = CALL               -> match CALL with Err E => handler | Err e => Err e | Ok x => rest
  except E: <block>              (exactly this shape)
  return None / return bytes  -> None / Some _ when the function returns a None-able bytearray
  the caching idiom           `if not hasattr(self,'_c') or not self._c: self._c = E`
                              -> the value found on the object is a parameter self__c : option bytes
                                 (None = attribute missing); self__c <- if opt_falsy self__c then E else it.
                                 Nothing is assumed about the cached value: the theorems state the invariant
  while c: body               -> while_fuel FUEL (fuel expression given by the unit; OutOfFuel explicit)
  it = iter(x); for a, b in zip(it, it)   -> fold over pairs_of x
  it = enumerate(x); _, v = next(it)      -> py_next (StopIteration explicit)
  for p, v in it              -> fold over the remaining iterator
  bytearray()                 -> []
  bytearray(e for x, y in zip(a, b))      -> mk_bytes (map (fun '(x,y) => e) (combine a b))
  b"..." / "..."              -> list Z literal / string literal
  not x, len(x), x[i] for a None-able bytearray -> opt_falsy / opt_get (TypeError on None)
  mutable object state       fields declared `state` become threaded variables self_f: `self.f = e` is
                              `let self_f := e`, the function returns (result, (state...)).  Obligation
                              (lexical, fail-closed): every read or write of a state field lies inside
                              `with self.<lock>:` for the declared lock -- only then is the sequential
                              state-passing model a model of the shared object (the guarded region is atomic)
  with self.<lock>: body     -> body (inlined; see the obligation above)
  not x for an int           -> x =? 0
  self.h(args) for an undeclared  the helper's body is INLINED at the call site (parameters let-bound, result type
    method h of the same class    inferred from its return): extracting part of a translated method into a helper
    (also @staticmethod)          (or merging it back) leaves the generated text equal up to let/bind structure
  a, b = <pair-valued call>  -> let '(a, b) := ...
  a or b / a and b with a fallible b -> b is evaluated only when reached (if a then Ok true else ...)
  a <= b <= c (chained)      -> (a <= b) && (b <= c)   (middle operands must be infallible)
  < <= > >= on pairs of ints -> pairZ_ltb / pairZ_leb (lexicographic, Base/C11_Lib.v)
  external helpers            numBits numBytes bytesToNumber (pure, Base/C11_Lib.v),
                              numberToByteArray (fallible), secureHMAC/secureHash with a literal
                              algorithm name -> oracle hmac_<alg> / hash_<alg>,
                              functions of another generated unit (ct_* of Gen/ConstantTime.v)
"""
import ast

from pylite import FnTranslator, Term, Refuse, NeedMonad, TY, indent

OPT = 'optbytes'
ITZ = ('iter', 'Z')
ITE = ('iter', ('tup', 'Z', 'Z'))

TYX = dict(TY)
TYX.update({OPT: 'option (list Z)', 'str': 'string', ITZ: 'list Z', ITE: 'list (Z * Z)',
            'none': 'option (list Z)'})

EXN = {'ValueError': 'ValueError', 'AssertionError': 'AssertionError', 'TypeError': 'TypeError'}

PURE_EXT = {'numBits': (['Z'], 'Z'), 'numBytes': (['Z'], 'Z'), 'bytesToNumber': (['bytes'], 'Z')}
FALL_EXT = {'numberToByteArray': (['Z', 'Z'], 'bytes')}


def cname(n):
    return n.lstrip('_') if n.startswith('_') else n


def dotted(e):
    """a.b.c -> 'a.b.c' (None if not a pure attribute chain on a Name)"""
    parts = []
    while isinstance(e, ast.Attribute):
        parts.append(e.attr)
        e = e.value
    if isinstance(e, ast.Name):
        parts.append(e.id)
        return '.'.join(reversed(parts))
    return None


def flat(d):
    return d.replace('.', '_')


class FnX(FnTranslator):
    prefix = ''

    def fresh(self):
        self.tmp += 1
        return '%st%d_' % (self.prefix, self.tmp)

    # ------------------------------------------------------------------ exprs
    def eqb(self, ty):
        if ty == 'str':
            return 'String.eqb'
        return FnTranslator.eqb(self, ty)

    def field(self, e):
        d = dotted(e)
        if d is not None and d in self.unit.fields:
            self.used_fields.add(d)
            return Term(flat(d), self.unit.fields[d])
        return None

    def expr(self, e, env):
        if isinstance(e, ast.Constant):
            v = e.value
            if isinstance(v, bytes):
                return Term('[' + '; '.join(str(b) for b in v) + ']', 'bytes')
            if isinstance(v, str):
                return Term('"%s"%%string' % v.replace('"', '""'), 'str')
            if v is None:
                return Term('None', 'none')
        if isinstance(e, ast.Attribute):
            # a cached attribute introduced by the caching idiom lives in env
            d = dotted(e)
            if d is not None and d in getattr(self.unit, 'state', {}):
                if flat(d) not in env:
                    raise Refuse('state field %s possibly undefined (line %d)' % (d, e.lineno))
                return Term(flat(d), env[flat(d)])
            if d is not None and flat(d) in env and d.startswith('self.'):
                return Term(flat(d), env[flat(d)])
            f = self.field(e)
            if f is not None:
                return f
        if isinstance(e, ast.BoolOp):
            ts = [self.expr(x, env) for x in e.values]
            if any(t.ty != 'bool' for t in ts):
                raise Refuse('and/or on non-bool (line %d)' % e.lineno)
            if any(t.binds for t in ts[1:]):
                # short-circuit with fallible later operands: they are evaluated only when reached
                is_or = isinstance(e.op, ast.Or)
                comp = self.wrap(ts[-1].binds, 'Ok %s' % ts[-1].code, True)
                for t in reversed(ts[1:-1]):
                    body = ('if %s then Ok true else (\n%s\n)' if is_or else 'if %s then (\n%s\n) else Ok false') % (t.code, comp)
                    comp = self.wrap(t.binds, body, True)
                first = ('if %s then Ok true else (\n%s\n)' if is_or else 'if %s then (\n%s\n) else Ok false') % (ts[0].code, comp)
                self.fallible = True
                tmp = self.fresh()
                return Term(tmp, 'bool', ts[0].binds + [(tmp, first)])
        if isinstance(e, ast.Compare) and len(e.ops) > 1:
            # a op1 b op2 c  ==  (a op1 b) and (b op2 c); the middle operands are evaluated once in
            # Python: accepted only when they are infallible (no binds), so evaluating twice is the same
            operands = [e.left] + list(e.comparators)
            for mid in operands[1:]:
                if self.expr(mid, env).binds:
                    raise Refuse('fallible operand in chained comparison (line %d)' % e.lineno)
            parts = []
            for i, op in enumerate(e.ops):
                parts.append(self.expr(ast.Compare(left=operands[i], ops=[op], comparators=[operands[i + 1]],
                                                   lineno=e.lineno, col_offset=0), env))
            return Term('(' + ' && '.join(t.code for t in parts) + ')', 'bool', parts[0].binds)
        if isinstance(e, ast.Compare) and len(e.ops) == 1 and isinstance(e.ops[0], (ast.Lt, ast.LtE, ast.Gt, ast.GtE)):
            a = self.expr(e.left, env)
            b = self.expr(e.comparators[0], env)
            if a.ty == ('tup', 'Z', 'Z') and b.ty == a.ty:
                op = e.ops[0]
                x, y = (a, b) if isinstance(op, (ast.Lt, ast.LtE)) else (b, a)
                fn = 'pairZ_ltb' if isinstance(op, (ast.Lt, ast.Gt)) else 'pairZ_leb'
                return Term('(%s %s %s)' % (fn, x.code, y.code), 'bool', a.binds + b.binds)
        if isinstance(e, ast.UnaryOp) and isinstance(e.op, ast.Not):
            a = self.expr(e.operand, env)
            if a.ty == OPT:
                return Term('(opt_falsy %s)' % a.code, 'bool', a.binds)
            if a.ty == 'bytes':
                return Term('(zlen %s =? 0)' % a.code, 'bool', a.binds)
            if a.ty == 'bool':
                return Term('(negb %s)' % a.code, 'bool', a.binds)
            if a.ty == 'Z':
                return Term('(Z.eqb %s 0)' % a.code, 'bool', a.binds)
            raise Refuse('not on %s (line %d)' % (a.ty, e.lineno))
        if isinstance(e, ast.Subscript) and not isinstance(e.slice, ast.Slice):
            v = self.expr(e.value, env)
            if v.ty == OPT:
                i = self.expr(e.slice, env)
                if i.ty != 'Z':
                    raise Refuse('index type')
                self.fallible = True
                t1, t2 = self.fresh(), self.fresh()
                return Term(t2, 'Z', v.binds + i.binds + [(t1, 'opt_get %s' % v.code),
                                                          (t2, 'py_index %s %s' % (t1, i.code))])
        return FnTranslator.expr(self, e, env)

    def call(self, e, env):
        f = e.func
        d = dotted(f)
        # ---- oracles and methods reached through attribute chains
        if d is not None and '.' in d:
            if d in self.unit.oracles:
                name, ptys, rty = self.unit.oracles[d]
                if e.keywords:
                    raise Refuse('keyword arguments')
                args = [self.expr(a, env) for a in e.args]
                if [a.ty for a in args] != list(ptys):
                    raise Refuse('oracle %s called with %s' % (d, [a.ty for a in args]))
                self.used_oracles.add(d)
                binds = sum((a.binds for a in args), [])
                if not args:
                    return Term(name, rty, binds)
                return Term('(%s %s)' % (name, ' '.join(a.code for a in args)), rty, binds)
            if d.startswith('self.') and d.count('.') == 1 and d[5:] in self.unit.sigs:
                m = d[5:]
                sig = self.unit.sigs[m]
                if e.keywords:
                    raise Refuse('keyword arguments')
                args = [self.expr(a, env) for a in e.args]
                ptys = [t for _, t in sig['params']]
                if [a.ty for a in args] != ptys:
                    raise Refuse('method %s called with %s' % (m, [a.ty for a in args]))
                if m not in self.unit.done:
                    raise Refuse('method %s used before its translation' % m)
                if self.unit.done[m][2]:
                    raise Refuse('call of method %s that reads a cache attribute' % m)
                pre = self.unit.done[m]      # (self-field list, oracle list)
                for fld in pre[0]:
                    self.used_fields.add(fld)
                for o in pre[1]:
                    self.used_oracles.add(o)
                allargs = [flat(x) for x in pre[0]] + [a.code for a in args]
                code = '(%s %s)' % (cname(m), ' '.join(allargs)) if allargs else cname(m)
                binds = sum((a.binds for a in args), [])
                if self.unit.fallible.get(m):
                    self.fallible = True
                    t = self.fresh()
                    return Term(t, sig['ret'], binds + [(t, code[1:-1] if allargs else code)])
                return Term(code, sig['ret'], binds)
            if d.startswith('self.') and d.count('.') == 1 and d[5:] in self.unit.class_methods:
                return self.inline_helper(d[5:], e, env)
            raise Refuse('call of %s (line %d)' % (d, e.lineno))
        if isinstance(f, ast.Name):
            name = f.id
            if e.keywords:
                raise Refuse('keyword arguments')
            if name == 'bytearray' and not e.args:
                return Term('[]', 'bytes')
            if name == 'bytearray' and len(e.args) == 1 and isinstance(e.args[0], ast.GeneratorExp):
                return self.genexp_bytes(e.args[0], env)
            if name in ('iter', 'enumerate') and len(e.args) == 1:
                a = self.expr(e.args[0], env)
                if a.ty != 'bytes':
                    raise Refuse('%s over %s' % (name, a.ty))
                if name == 'iter':
                    return Term(a.code, ITZ, a.binds)
                return Term('(enumerate_from 0 %s)' % a.code, ITE, a.binds)
            if name in ('secureHMAC', 'secureHash'):
                if not (e.args and isinstance(e.args[-1], ast.Constant) and isinstance(e.args[-1].value, str)):
                    raise Refuse('%s with non-literal algorithm' % name)
                alg = e.args[-1].value
                oname = ('hmac_' if name == 'secureHMAC' else 'hash_') + alg
                want = 2 if name == 'secureHMAC' else 1
                args = [self.expr(a, env) for a in e.args[:-1]]
                if len(args) != want or any(a.ty != 'bytes' for a in args):
                    raise Refuse('%s arguments' % name)
                self.used_oracles.add(oname)
                self.unit.oracles.setdefault(oname, (oname, ['bytes'] * want, 'bytes'))
                return Term('(%s %s)' % (oname, ' '.join(a.code for a in args)), 'bytes',
                            sum((a.binds for a in args), []))
            if name in self.unit.global_oracles:
                oname, ptys, rty = self.unit.global_oracles[name]
                args = [self.expr(a, env) for a in e.args]
                if [a.ty for a in args] != list(ptys):
                    raise Refuse('oracle %s called with %s' % (name, [a.ty for a in args]))
                self.used_oracles.add(name)
                self.unit.oracles.setdefault(name, (oname, ptys, rty))
                return Term('(%s %s)' % (oname, ' '.join(a.code for a in args)), rty,
                            sum((a.binds for a in args), []))
            if name in PURE_EXT or name in FALL_EXT or name in self.unit.externs:
                ptys, rty = (PURE_EXT.get(name) or FALL_EXT.get(name) or self.unit.externs.get(name))
                args = [self.expr(a, env) for a in e.args]
                if [a.ty for a in args] != list(ptys):
                    raise Refuse('%s called with %s (line %d)' % (name, [a.ty for a in args], e.lineno))
                binds = sum((a.binds for a in args), [])
                code = '%s %s' % (name, ' '.join(a.code for a in args))
                if name in FALL_EXT:
                    self.fallible = True
                    t = self.fresh()
                    return Term(t, rty, binds + [(t, code)])
                return Term('(%s)' % code, rty, binds)
            if name == 'len' and len(e.args) == 1:
                a = self.expr(e.args[0], env)
                if a.ty == OPT:
                    self.fallible = True
                    t = self.fresh()
                    return Term('(zlen %s)' % t, 'Z', a.binds + [(t, 'opt_get %s' % a.code)])
                if a.ty == 'bytes':
                    return Term('(zlen %s)' % a.code, 'Z', a.binds)
                raise Refuse('len of %s' % (a.ty,))
        return FnTranslator.call(self, e, env)

    def inline_helper(self, m, e, env):
        """self.m(args) for a method of the class that is not a declared unit member: inline its body"""
        depth = getattr(self, 'inline_depth', 0)
        if depth > 4:
            raise Refuse('helper inlining too deep (%s)' % m)
        fd = self.unit.class_methods[m]
        static = any(isinstance(dn, ast.Name) and dn.id == 'staticmethod' for dn in fd.decorator_list)
        if len(fd.decorator_list) > (1 if static else 0):
            raise Refuse('decorated helper %s' % m)
        if e.keywords or fd.args.vararg or fd.args.kwarg or fd.args.kwonlyargs or fd.args.defaults:
            raise Refuse('helper %s: keyword/default arguments' % m)
        pnames = [a.arg for a in fd.args.args]
        if not static:
            if not pnames or pnames[0] != 'self':
                raise Refuse('helper %s without self' % m)
            pnames = pnames[1:]
        args = [self.expr(a, env) for a in e.args]
        if len(args) != len(pnames):
            raise Refuse('arity of helper %s' % m)
        sub = FnX(self.unit, fd, {'params': [(p, a.ty) for p, a in zip(pnames, args)], 'ret': None})
        sub.used_fields, sub.used_oracles = self.used_fields, self.used_oracles
        sub.inline_depth = depth + 1
        sub.tmp = self.tmp + 100 * (depth + 1)
        sub.prefix = 'h%d' % (depth + 1)
        henv = {p: a.ty for p, a in zip(pnames, args)}
        body = sub.block(fd.body, henv, None, True)
        if sub.sig['ret'] is None:
            raise Refuse('helper %s never returns a value' % m)
        lets = ''.join('let %s := %s in\n' % (p, a.code) for p, a in zip(pnames, args))
        self.fallible = True
        t = self.fresh()
        return Term(t, sub.sig['ret'], sum((a.binds for a in args), []) + [(t, '(%s%s)' % (lets, body))])

    def genexp_bytes(self, g, env):
        if len(g.generators) != 1:
            raise Refuse('nested generator expression')
        c = g.generators[0]
        if c.ifs or c.is_async:
            raise Refuse('filtered generator expression')
        it = c.iter
        if not (isinstance(it, ast.Call) and isinstance(it.func, ast.Name) and it.func.id == 'zip'
                and len(it.args) == 2 and isinstance(c.target, ast.Tuple) and len(c.target.elts) == 2
                and all(isinstance(t, ast.Name) for t in c.target.elts)):
            raise Refuse('generator expression form (line %d)' % g.lineno)
        a, b = self.expr(it.args[0], env), self.expr(it.args[1], env)
        if a.ty != 'bytes' or b.ty != 'bytes':
            raise Refuse('zip of %s,%s' % (a.ty, b.ty))
        x, y = c.target.elts[0].id, c.target.elts[1].id
        env2 = dict(env)
        env2[x] = 'Z'
        env2[y] = 'Z'
        el = self.expr(g.elt, env2)
        if el.binds or el.ty != 'Z':
            raise Refuse('fallible element in generator expression')
        self.fallible = True
        t = self.fresh()
        code = "mk_bytes (map (fun '(%s, %s) => %s) (combine %s %s))" % (x, y, el.code, a.code, b.code)
        return Term(t, 'bytes', a.binds + b.binds + [(t, code)])

    # ------------------------------------------------------------------ stmts
    def is_cache_idiom(self, s):
        """if not hasattr(self, 'X') or not self.X: self.X = E"""
        if not (isinstance(s, ast.If) and not s.orelse and len(s.body) == 1):
            return None
        t = s.test
        if not (isinstance(t, ast.BoolOp) and isinstance(t.op, ast.Or) and len(t.values) == 2):
            return None
        a, b = t.values
        if not all(isinstance(v, ast.UnaryOp) and isinstance(v.op, ast.Not) for v in (a, b)):
            return None
        h, r = a.operand, b.operand
        if not (isinstance(h, ast.Call) and isinstance(h.func, ast.Name) and h.func.id == 'hasattr'
                and len(h.args) == 2 and isinstance(h.args[0], ast.Name) and h.args[0].id == 'self'
                and isinstance(h.args[1], ast.Constant) and isinstance(h.args[1].value, str)):
            return None
        attr = h.args[1].value
        if dotted(r) != 'self.' + attr:
            return None
        asg = s.body[0]
        if not (isinstance(asg, ast.Assign) and len(asg.targets) == 1 and dotted(asg.targets[0]) == 'self.' + attr):
            return None
        return attr, asg.value

    def fold_over(self, list_code, pats, pat_tys, s, env, cont, monadic, drop=()):
        """for <pats> in <list>: body"""
        if s.orelse or self.contains_return(s.body):
            raise Refuse('for with else/return (line %d)' % s.lineno)
        carried = [v for v in self.assigned(s.body) if v in env and v not in pats]
        if not carried:
            raise Refuse('loop without carried state (line %d)' % s.lineno)
        tup = carried[0] if len(carried) == 1 else '(' + ', '.join(carried) + ')'
        pat = carried[0] if len(carried) == 1 else "'" + tup
        epat = pats[0] if len(pats) == 1 else "'(" + ', '.join(pats) + ')'
        env_body = dict(env)
        for p, t in zip(pats, pat_tys):
            env_body[p] = t
        save = self.fallible
        self.fallible = False
        try:
            body_pure = self.block(s.body, env_body, lambda e2: tup, False)
            body_fallible = False
        except NeedMonad:
            body_fallible = True
        self.fallible = save or body_fallible
        env_after = {k: v for k, v in env.items() if k not in drop}
        if body_fallible:
            self.need_monad([1], monadic, s)
            body = self.block(s.body, env_body, lambda e2: 'Ok ' + tup, True)
            return '%s <- foldM (fun %s %s =>\n%s) %s %s ;;\n%s' % (
                pat, pat, epat, body, list_code, tup, cont(env_after))
        return 'let %s := fold_left (fun %s %s =>\n%s) %s %s in\n%s' % (
            pat, pat, epat, body_pure, list_code, tup, cont(env_after))

    def assigned(self, stmts):
        """names (threaded state fields as self_f) assigned anywhere in stmts"""
        out = []
        state = getattr(self.unit, 'state', {})
        for s in stmts:
            if isinstance(s, ast.Assign):
                for t in s.targets:
                    if isinstance(t, ast.Name):
                        out.append(t.id)
                    elif isinstance(t, ast.Tuple) and all(isinstance(x, ast.Name) for x in t.elts):
                        out += [x.id for x in t.elts if x.id != '_']
                    elif dotted(t) in state:
                        out.append(flat(dotted(t)))
                    elif dotted(t) in self.unit.caches:
                        out.append(flat(dotted(t)))
                    else:
                        raise Refuse('assignment target (line %d)' % s.lineno)
            elif isinstance(s, ast.AugAssign):
                if isinstance(s.target, ast.Name):
                    out.append(s.target.id)
                elif dotted(s.target) in state:
                    out.append(flat(dotted(s.target)))
                else:
                    raise Refuse('store to undeclared object attribute (line %d)' % s.lineno)
            elif isinstance(s, ast.If):
                out += self.assigned(s.body) + self.assigned(s.orelse)
            elif isinstance(s, (ast.For, ast.While, ast.With)):
                out += self.assigned(s.body)
            elif isinstance(s, ast.Try):
                out += self.assigned(s.body)
            elif isinstance(s, ast.Expr) and isinstance(s.value, ast.Call) and \
                    isinstance(s.value.func, ast.Attribute) and s.value.func.attr == 'update' and \
                    isinstance(s.value.func.value, ast.Name):
                out.append(s.value.func.value.id)
        seen = []
        for x in out:
            if x not in seen:
                seen.append(x)
        return seen

    def state_tuple(self, env):
        st = list(getattr(self.unit, 'state', {}))
        if not st:
            return None
        for f_ in st:
            if flat(f_) not in env:
                raise Refuse('state field %s undefined at return' % f_)
        names = [flat(f_) for f_ in st]
        return names[0] if len(names) == 1 else '(' + ', '.join(names) + ')'

    def block(self, stmts, env, k, monadic):
        if not stmts:
            return FnTranslator.block(self, stmts, env, k, monadic)
        s, rest = stmts[0], stmts[1:]
        cont = lambda env2: self.block(rest, env2, k, monadic)
        state = getattr(self.unit, 'state', {})
        # ---- with self.<lock>: the guarded statements are inlined (atomicity is the lexical obligation)
        if isinstance(s, ast.With):
            if len(s.items) != 1 or s.items[0].optional_vars is not None or \
                    dotted(s.items[0].context_expr) not in getattr(self.unit, 'locks', ()):
                raise Refuse('with statement form (line %d)' % s.lineno)
            if self.contains_return(s.body):
                raise Refuse('return inside with (line %d)' % s.lineno)
            return self.block(list(s.body) + list(rest), env, k, monadic)
        # ---- store to a threaded state field
        if isinstance(s, ast.Assign) and len(s.targets) == 1 and dotted(s.targets[0]) in state:
            d = dotted(s.targets[0])
            t = self.expr(s.value, env)
            self.need_monad(t.binds, monadic, s)
            if t.ty != state[d]:
                raise Refuse('store of %s into %s (line %d)' % (t.ty, d, s.lineno))
            env2 = dict(env)
            env2[flat(d)] = t.ty
            return self.wrap(t.binds, 'let %s := %s in\n%s' % (flat(d), t.code, cont(env2)), monadic)
        # ---- augmented store: only to a declared state field; any other attribute store is refused
        if isinstance(s, ast.AugAssign) and not isinstance(s.target, ast.Name):
            d = dotted(s.target)
            if d not in state:
                raise Refuse('store to undeclared object attribute %s (line %d): new object state is not modelled'
                             % (d or type(s.target).__name__, s.lineno))
            fake = ast.Assign(targets=[s.target], value=ast.BinOp(left=ast.Attribute(value=s.target.value, attr=s.target.attr,
                                                                                   ctx=ast.Load(), lineno=s.lineno, col_offset=0),
                                                                 op=s.op, right=s.value, lineno=s.lineno, col_offset=0),
                              lineno=s.lineno, col_offset=0)
            return self.block([fake] + list(rest), env, k, monadic)
        if isinstance(s, ast.Assign) and len(s.targets) == 1 and isinstance(s.targets[0], ast.Attribute) \
                and dotted(s.targets[0]) not in state and dotted(s.targets[0]) not in self.unit.caches:
            raise Refuse('store to undeclared object attribute %s (line %d): new object state is not modelled'
                         % (dotted(s.targets[0]), s.lineno))
        # ---- return from a state-passing method: (result, state)
        if isinstance(s, ast.Return) and state and self.sig['ret'] != OPT:
            if rest:
                raise Refuse('code after return')
            t = self.expr(s.value, env)
            self.need_monad(t.binds, monadic, s)
            if t.ty != self.sig['ret']:
                raise Refuse('return type %s, declared %s (line %d)' % (t.ty, self.sig['ret'], s.lineno))
            return self.wrap(t.binds, self.ret('(%s, %s)' % (t.code, self.state_tuple(env)), monadic), monadic)
        # ---- return in an inlined helper: the result type is inferred from the first return
        if isinstance(s, ast.Return) and self.sig.get('ret', 0) is None:
            if s.value is None:
                raise Refuse('bare return in helper')
            self.sig['ret'] = self.expr(s.value, env).ty
        # ---- a, b = <pair-valued expression>
        if isinstance(s, ast.Assign) and len(s.targets) == 1 and isinstance(s.targets[0], ast.Tuple) \
                and not (isinstance(s.value, ast.Call) and isinstance(s.value.func, ast.Name) and s.value.func.id == 'next'):
            tg = s.targets[0]
            t = self.expr(s.value, env)
            if not (isinstance(t.ty, tuple) and t.ty[0] == 'tup' and len(t.ty) == 3 and len(tg.elts) == 2
                    and all(isinstance(x, ast.Name) for x in tg.elts)):
                raise Refuse('tuple assignment form (line %d)' % s.lineno)
            self.need_monad(t.binds, monadic, s)
            env2 = dict(env)
            for nm, ty in zip([x.id for x in tg.elts], t.ty[1:]):
                env2[nm] = ty
            return self.wrap(t.binds, "let '(%s, %s) := %s in\n%s" % (tg.elts[0].id, tg.elts[1].id, t.code, cont(env2)), monadic)
        # ---- raise
        if isinstance(s, ast.Raise):
            if rest:
                raise Refuse('code after raise')
            x = s.exc
            if isinstance(x, ast.Call):
                x = x.func
            if not (isinstance(x, ast.Name) and x.id in EXN):
                raise Refuse('raise of unknown exception (line %d)' % s.lineno)
            self.fallible = True
            self.need_monad([1], monadic, s)
            return 'Err %s' % EXN[x.id]
        # ---- try: x = CALL / except E: block
        if isinstance(s, ast.Try):
            if s.orelse or s.finalbody or len(s.handlers) != 1 or len(s.body) != 1:
                raise Refuse('try form (line %d)' % s.lineno)
            h = s.handlers[0]
            a = s.body[0]
            if not (isinstance(h.type, ast.Name) and h.type.id in EXN and h.name is None
                    and isinstance(a, ast.Assign) and len(a.targets) == 1 and isinstance(a.targets[0], ast.Name)):
                raise Refuse('try form (line %d)' % s.lineno)
            t = self.expr(a.value, env)
            if not t.binds or t.binds[-1][0] != t.code:
                raise Refuse('try around an infallible expression (line %d)' % s.lineno)
            self.fallible = True
            self.need_monad([1], monadic, s)
            comp = t.binds[-1][1]
            var = a.targets[0].id
            env2 = dict(env)
            env2[var] = t.ty
            H = self.block(h.body, env, k if not self.terminates(h.body) else None, monadic)
            if not self.terminates(h.body):
                raise Refuse('except handler that falls through (line %d)' % s.lineno)
            body = ('match %s with\n| Err %s => (\n%s\n)\n| Err e_ => Err e_\n| Ok %s => (\n%s\n)\nend'
                    % (comp, EXN[h.type.id], H, var, cont(env2)))
            return self.wrap(t.binds[:-1], body, monadic)
        # ---- caching idiom
        ci = self.is_cache_idiom(s) if isinstance(s, ast.If) else None
        if ci is not None:
            attr, val = ci
            if 'self.' + attr not in self.unit.caches:
                raise Refuse('undeclared cache attribute %s' % attr)
            t = self.expr(val, env)
            if t.ty != 'bytes' or env.get('self_' + attr) != OPT:
                raise Refuse('cache %s: only None-able bytearray caches (line %d)' % (attr, s.lineno))
            self.fallible = True
            self.need_monad([1], monadic, s)
            env2 = dict(env)
            env2['self_' + attr] = 'bytes'
            fill = self.wrap(t.binds, 'Ok %s' % t.code, True)
            return ('self_%s <- (if (opt_falsy self_%s) then (\n%s\n) else (\nopt_get self_%s\n)) ;;\n%s'
                    % (attr, attr, fill, attr, cont(env2)))
        # ---- return with None-able result
        if isinstance(s, ast.Return) and self.sig['ret'] == OPT:
            if rest:
                raise Refuse('code after return')
            if s.value is None:
                raise Refuse('bare return')
            t = self.expr(s.value, env)
            self.need_monad(t.binds, monadic, s)
            if t.ty == 'none':
                code = 'None'
            elif t.ty == 'bytes':
                code = '(Some %s)' % t.code
            elif t.ty == OPT:
                code = t.code
            else:
                raise Refuse('return type %s (line %d)' % (t.ty, s.lineno))
            return self.wrap(t.binds, self.ret(code, monadic), monadic)
        # ---- tuple assignment from next(it)
        if isinstance(s, ast.Assign) and len(s.targets) == 1 and isinstance(s.targets[0], ast.Tuple):
            tg = s.targets[0]
            v = s.value
            if not (isinstance(v, ast.Call) and isinstance(v.func, ast.Name) and v.func.id == 'next'
                    and len(v.args) == 1 and isinstance(v.args[0], ast.Name)
                    and env.get(v.args[0].id) == ITE and len(tg.elts) == 2
                    and all(isinstance(x, ast.Name) for x in tg.elts)):
                raise Refuse('tuple assignment form (line %d)' % s.lineno)
            it = v.args[0].id
            self.fallible = True
            self.need_monad([1], monadic, s)
            a, b = tg.elts[0].id, tg.elts[1].id
            env2 = dict(env)
            for nm in (a, b):
                if nm != '_':
                    env2[nm] = 'Z'
            return "'(p_, %s) <- py_next %s ;;\nlet '(%s, %s) := p_ in\n%s" % (it, it, a, b, cont(env2))
        # ---- assignment to a None-able variable
        if isinstance(s, ast.Assign) and len(s.targets) == 1 and isinstance(s.targets[0], ast.Name) \
                and env.get(s.targets[0].id) == OPT:
            t = self.expr(s.value, env)
            self.need_monad(t.binds, monadic, s)
            if t.ty == 'bytes':
                code = '(Some %s)' % t.code
            elif t.ty in (OPT, 'none'):
                code = t.code
            else:
                raise Refuse('assignment of %s to None-able bytes (line %d)' % (t.ty, s.lineno))
            return self.wrap(t.binds, 'let %s := %s in\n%s' % (s.targets[0].id, code, cont(env)), monadic)
        # ---- while
        if isinstance(s, ast.While):
            if s.orelse or self.contains_return(s.body):
                raise Refuse('while with else/return (line %d)' % s.lineno)
            for n in ast.walk(s):
                if isinstance(n, (ast.Break, ast.Continue)):
                    raise Refuse('break/continue')
            fuel = self.sig.get('while_fuel')
            if not fuel:
                raise Refuse('while loop without a declared fuel expression (line %d)' % s.lineno)
            carried = [v for v in self.assigned(s.body) if v in env]
            if not carried:
                raise Refuse('while without carried state')
            tup = carried[0] if len(carried) == 1 else '(' + ', '.join(carried) + ')'
            pat = carried[0] if len(carried) == 1 else "'" + tup
            self.fallible = True
            self.need_monad([1], monadic, s)
            c = self.expr(s.test, env)
            if c.ty != 'bool':
                raise Refuse('while on non-bool')
            cond = self.wrap(c.binds, 'Ok %s' % c.code, True)
            body = self.block(s.body, dict(env), lambda e2: 'Ok ' + tup, True)
            return '%s <- while_fuel (%s) (fun %s =>\n%s) (fun %s =>\n%s) %s ;;\n%s' % (
                pat, fuel, pat, cond, pat, body, tup, cont(env))
        # ---- for over iterators
        if isinstance(s, ast.For) and isinstance(s.target, ast.Tuple):
            tg = s.target
            if not (len(tg.elts) == 2 and all(isinstance(x, ast.Name) for x in tg.elts)):
                raise Refuse('for target (line %d)' % s.lineno)
            pats = [x.id for x in tg.elts]
            it = s.iter
            if isinstance(it, ast.Name) and env.get(it.id) == ITE:
                return self.fold_over(it.id, pats, ['Z', 'Z'], s, env, cont, monadic, drop=(it.id,))
            if isinstance(it, ast.Call) and isinstance(it.func, ast.Name) and it.func.id == 'zip' \
                    and len(it.args) == 2 and all(isinstance(a, ast.Name) for a in it.args) \
                    and it.args[0].id == it.args[1].id and env.get(it.args[0].id) == ITZ:
                nm = it.args[0].id
                return self.fold_over('(pairs_of %s)' % nm, pats, ['Z', 'Z'], s, env, cont, monadic, drop=(nm,))
            raise Refuse('for over unsupported iterable (line %d)' % s.lineno)
        return FnTranslator.block(self, stmts, env, k, monadic)


class UnitX(object):
    """Methods of one class (and nothing else) of a source file.

    sigs     : {method: {'params': [(name, ty)] (without self), 'ret': ty, 'while_fuel': str?}}
    fields   : {'self.n': 'Z', 'clientKeyExchange.encryptedPreMasterSecret': 'bytes', ...}
    oracles  : {'self._rawPrivateKeyOp': (coq_name, [arg tys], ret ty)}  (dotted call targets)
    global_oracles : {'getRandomBytes': (coq_name, [arg tys], ret ty)}
    externs  : {'ct_lt_u32': (['Z','Z'], 'Z')}  pure functions of other generated units
    caches   : {'self._key_hash'}
    """

    def __init__(self, path, cls, sigs, module_name, fields=None, oracles=None, global_oracles=None,
                 externs=None, caches=(), requires=(), state=None, locks=()):
        self.path, self.cls, self.sigs, self.module_name = path, cls, sigs, module_name
        self.fields = dict(fields or {})
        self.oracles = dict(oracles or {})
        self.global_oracles = dict(global_oracles or {})
        self.externs = dict(externs or {})
        self.caches = set(caches)
        self.requires = requires
        self.state = dict(state or {})      # {'self.blinder': 'Z'}: mutable fields threaded through
        self.locks = tuple(locks)           # ('self._lock',): every access to a state field must be guarded
        self.fallible = {}
        self.done = {}

    def lock_obligation(self, fd):
        """every Load/Store of a state field inside `with <declared lock>:` (lexically)"""
        if not self.state:
            return

        def walk(node, guarded):
            if isinstance(node, ast.With):
                g = guarded or any(dotted(i.context_expr) in self.locks for i in node.items)
                for i in node.items:
                    walk(i.context_expr, guarded)
                for c in node.body:
                    walk(c, g)
                return
            if isinstance(node, ast.Attribute) and dotted(node) in self.state and not guarded:
                raise Refuse('lock discipline: %s of %s outside `with %s` (line %d of %s)'
                             % ('write' if isinstance(node.ctx, ast.Store) else 'read', dotted(node),
                                '/'.join(self.locks), node.lineno, fd.name))
            if isinstance(node, (ast.FunctionDef, ast.Lambda)) and node is not fd:
                raise Refuse('nested function in %s' % fd.name)
            for c in ast.iter_child_nodes(node):
                walk(c, guarded)
        walk(fd, False)

    def translate(self):
        with open(self.path) as f:
            src = f.read()
        tree = ast.parse(src)
        cdefs = [n for n in tree.body if isinstance(n, ast.ClassDef) and n.name == self.cls]
        if len(cdefs) != 1:
            raise Refuse('class %s not found in %s' % (self.cls, self.path))
        fdefs = {}
        for n in cdefs[0].body:
            if isinstance(n, ast.FunctionDef):
                if n.name in fdefs:
                    raise Refuse('method %s defined twice' % n.name)
                fdefs[n.name] = n
        self.class_methods = {n: f_ for n, f_ in fdefs.items()
                              if n not in self.sigs and ('self.' + n) not in self.oracles}
        defs = []
        for name, sig in self.sigs.items():
            if name not in fdefs:
                raise Refuse('method %s.%s not found in %s' % (self.cls, name, self.path))
            fd = fdefs[name]
            if fd.decorator_list:
                raise Refuse('decorated method %s' % name)
            argnames = [a.arg for a in fd.args.args]
            if argnames != ['self'] + [p for p, _ in sig['params']]:
                raise Refuse('signature of %s changed: %s' % (name, argnames))
            if fd.args.vararg or fd.args.kwarg or fd.args.kwonlyargs or fd.args.defaults:
                raise Refuse('varargs/defaults in %s' % name)
            self.lock_obligation(fd)
            ft = FnX(self, fd, sig)
            ft.used_fields, ft.used_oracles = set(), set()
            # object-typed parameters are replaced by their declared fields
            params = []
            for p, t in sig['params']:
                if t == 'obj':
                    for fld, fty in self.fields.items():
                        if fld.startswith(p + '.'):
                            params.append((flat(fld), fty))
                else:
                    params.append((p, t))
            used_caches = [c for c in sorted(self.caches)
                           if any(dotted(x) == c for x in ast.walk(fd) if isinstance(x, ast.Attribute))]
            params = [(flat(c), OPT) for c in used_caches] + params
            uses_state = bool(self.state) and sig.get('stateful', True)
            if uses_state:
                params = [(flat(f_), t_) for f_, t_ in self.state.items()] + params
            ft.sig = dict(sig)
            ft.sig['params'] = params
            code, monadic = ft.translate()
            self.fallible[name] = monadic
            flds = [f_ for f_ in self.fields if f_ in ft.used_fields and f_.startswith('self.')]
            orcs = [o for o in self.oracles if o in ft.used_oracles]
            self.done[name] = (flds, orcs, used_caches)
            plist = [(flat(f_), self.fields[f_]) for f_ in flds] + params
            ptxt = ' '.join('(%s : %s)' % (p, TYX[t]) for p, t in plist)
            rty = TYX[sig['ret']]
            if uses_state:
                sts = [TYX[t_] for t_ in self.state.values()]
                rty = '(%s * %s)' % (rty, sts[0] if len(sts) == 1 else '(' + ' * '.join(sts) + ')')
            if monadic:
                rty = 'res (%s)' % rty if ' ' in rty else 'res %s' % rty
            defs.append('(* %s:%d %s.%s *)' % (self.path.split('/tlslite/')[-1], fd.lineno, self.cls, name))
            defs.append('Definition %s %s : %s :=\n%s.\n' % (cname(name), ptxt, rty, indent(code)))
        out = ['(* GENERATED by translator/pylite_c11.py from %s (class %s) -- do not edit. *)' % (self.path, self.cls),
               'From Coq Require Import ZArith List Bool String.',
               'From TV Require Import Base.Prelude Base.C11_Lib%s.' % ''.join(' ' + r for r in self.requires),
               'Import ListNotations.', 'Open Scope Z_scope.', '',
               'Section Oracles.']
        for key, (oname, ptys, rty) in self.oracles.items():
            ty = ' -> '.join([TYX[t] for t in ptys] + [TYX[rty]])
            out.append('Variable %s : %s.   (* %s *)' % (oname, ty, key))
        out.append('')
        out += defs
        out.append('End Oracles.')
        return '\n'.join(out)
