"""C05 helpers: deviating *peers* for live handshakes.

Only the peer endpoint is ever wrapped (its private key object, the messages it is about
to send, its view of the messages it received).  The endpoint under test is a plain
TLSConnection from /repo.
"""
import loop
from tlslite.messages import (CertificateVerify, ServerKeyExchange, Finished, ClientHello,
                              CertificateRequest, Certificate)
from tlslite.constants import (SignatureScheme, SignatureAlgorithm, HashAlgorithm, ContentType)
from tlslite.keyexchange import KeyExchange
from tlslite.utils import tlshashlib as hashlib

EXTRA_CREDS = {
    'rsa-b': ('serverRSANonCACert.pem', 'serverRSANonCAKey.pem'),
    'ecdsa-b': ('serverECDSANonCACert.pem', 'serverECDSANonCAKey.pem'),
    'rsapss-b': ('serverRSAPSSSigCert.pem', 'serverRSAPSSSigKey.pem'),
    'bp256': ('serverBrainpoolP256r1ECCert.pem', 'serverBrainpoolP256r1ECKey.pem'),
    'bp384': ('serverBrainpoolP384r1ECCert.pem', 'serverBrainpoolP384r1ECKey.pem'),
    'bp512': ('serverBrainpoolP512r1ECCert.pem', 'serverBrainpoolP512r1ECKey.pem'),
}
for _k, _v in EXTRA_CREDS.items():
    loop.CRED_FILES.setdefault(_k, _v)

# a second key of the same type for every credential ("certificate A, key B")
OTHER_KEY = {
    'rsa': 'rsa-b', 'client-rsa': 'rsa-b', 'rsapss': 'rsapss-b',
    'ecdsa': 'client-ecdsa', 'client-ecdsa': 'ecdsa', 'ecdsa384': 'ecdsa384*', 'ecdsa521': 'ecdsa521*',
    'ed25519': 'client-ed25519', 'client-ed25519': 'ed25519', 'ed448': 'ed448*',
    'dsa': 'client-dsa', 'client-dsa': 'dsa',
    'bp256': 'bp256*', 'bp384': 'bp384*', 'bp512': 'bp512*',
}
_GEN = {}


def other_key(name):
    """A private key of the same type as creds(name) that does NOT match its certificate."""
    o = OTHER_KEY[name]
    if not o.endswith('*'):
        return loop.creds(o)[1]
    if o not in _GEN:
        # no second key of this type among the test files: derive one deterministically
        key = loop.creds(name)[1]
        if key.key_type == 'ecdsa':
            from ecdsa import SigningKey
            from tlslite.utils.python_ecdsakey import Python_ECDSAKey
            curve = key.private_key.curve
            sk = SigningKey.from_secret_exponent(0x1234567 + len(name), curve=curve)
            _GEN[o] = Python_ECDSAKey(None, None, curve.name, sk.privkey.secret_multiplier)
        else:   # Ed448
            from ecdsa import SigningKey, Ed448
            from tlslite.utils.python_eddsakey import Python_EdDSAKey
            sk = SigningKey.from_string(bytes(range(57)), curve=Ed448)
            _GEN[o] = Python_EdDSAKey(None, private_key=sk)
    return _GEN[o]


class KeyProxy(object):
    """Private key object given to the PEER.  mode:
      'other-msg' : signs a different message (one bit of the bytes-to-be-signed flipped):
                    a valid signature by the right key over another transcript
      'honest'    : plain delegation (used to record what was signed)
    The peer's own post-signing self check always passes."""

    def __init__(self, inner, mode='honest', log=None):
        self._inner = inner
        self._mode = mode
        self._log = log if log is not None else []

    def _mut(self, data):
        data = bytearray(data)
        if self._mode == 'other-msg' and data:
            data[0] ^= 0x10
        return data

    def sign(self, data, *a, **kw):
        self._log.append(('sign', bytes(data)))
        return self._inner.sign(self._mut(data), *a, **kw)

    def hashAndSign(self, data, *a, **kw):
        self._log.append(('hashAndSign', bytes(data)))
        return self._inner.hashAndSign(self._mut(data), *a, **kw)

    def verify(self, *a, **kw):
        return True

    def hashAndVerify(self, *a, **kw):
        return True

    def __len__(self):
        return len(self._inner)

    def __getattr__(self, k):
        return getattr(self._inner, k)


def corrupt_sig(sig, how, rng, stale=None):
    sig = bytearray(sig)
    if how == 'flip':
        if sig:
            sig[rng.randrange(len(sig))] ^= 1 << rng.randrange(8)
    elif how == 'flip-first':
        sig[0] ^= 0x01
    elif how == 'flip-last':
        sig[-1] ^= 0x01
    elif how == 'empty':
        sig = bytearray()
    elif how == 'short':
        sig = sig[:-1]
    elif how == 'long':
        sig = sig + bytearray([rng.randrange(256)])
    elif how == 'zero':
        sig = bytearray(len(sig))
    elif how == 'stale':
        sig = bytearray(stale)
    else:
        raise ValueError(how)
    return sig


def hook_send(conn, fn):
    """fn(msg) -> msg | None (drop) | [msgs]; applied to every message the peer is about to
    send, BEFORE it is hashed into the peer's transcript (so both transcripts stay equal
    and only the targeted field deviates)."""
    orig_send, orig_queue = conn._sendMsg, conn._queue_message

    def expand(msg):
        r = fn(msg)
        if r is None:
            return []
        return r if isinstance(r, list) else [r]

    def _sendMsg(msg, *a, **kw):
        if kw.get('update_hashes', True) is False:      # _queue_flush: already transformed
            for r in orig_send(msg, *a, **kw):
                yield r
            return
        for m in expand(msg):
            for r in orig_send(m, *a, **kw):
                yield r

    def _queue_message(msg):
        for m in expand(msg):
            orig_queue(m)

    conn._sendMsg = _sendMsg
    conn._queue_message = _queue_message


def hook_recv(conn, fn):
    """fn(msg) is called on every message object the PEER parsed (its private view; the
    transcript was already updated from the raw bytes)."""
    orig = conn._getMsg

    def _getMsg(*a, **kw):
        for r in orig(*a, **kw):
            if r not in (0, 1):
                fn(r)
            yield r
    conn._getMsg = _getMsg


# ---------------------------------------------------------------------------------------
def sign_cv(key, version, hh, scheme, role, prf_name=None, premaster=None, cr=None, sr=None):
    """A CertificateVerify signature by `key` with `scheme` over the transcript `hh`,
    computed the way an implementation of the protocol computes it (used by the peer to
    sign with a scheme of its choosing)."""
    if version == (3, 4):
        vb = KeyExchange.calcVerifyBytes((3, 4), hh, scheme, None, None, None, prf_name,
                                         b'server' if role == 'server' else b'client')
        name = SignatureScheme.toRepr(scheme)
        if scheme in (SignatureScheme.ed25519, SignatureScheme.ed448):
            return key.hashAndSign(vb, None, 'intrinsic', None)
        if scheme[1] == SignatureAlgorithm.ecdsa:
            return key.sign(vb, None, HashAlgorithm.toRepr(scheme[0]), None)
        if name and 'brainpool' in name:
            return key.sign(vb, None, SignatureScheme.getHash(name), None)
        pad, hn = SignatureScheme.getPadding(name), SignatureScheme.getHash(name)
        return key.sign(vb, pad, hn, getattr(hashlib, hn)().digest_size)
    vb = KeyExchange.calcVerifyBytes(version, hh, scheme, premaster, cr, sr, key_type=key.key_type)
    if scheme in (SignatureScheme.ed25519, SignatureScheme.ed448):
        return key.hashAndSign(vb, None, 'intrinsic', None)
    if scheme[1] == SignatureAlgorithm.ecdsa:
        return key.sign(vb[:key.private_key.curve.baselen], None, HashAlgorithm.toRepr(scheme[0]), None)
    if scheme[1] == SignatureAlgorithm.dsa:
        return key.sign(vb, None, HashAlgorithm.toRepr(scheme[0]), None)
    name = SignatureScheme.toRepr(scheme)
    if name is None or SignatureScheme.getPadding(name) == 'pkcs1':
        return key.sign(vb, 'pkcs1', None, 0)
    hn = SignatureScheme.getHash(name)
    return key.sign(vb, 'pss', hn, getattr(hashlib, hn)().digest_size)


def pubkey_verify(pub, version, scheme, vb, sig, key_type):
    """The signature primitive as an oracle: does `sig` verify under `pub` for the bytes `vb`
    (what the protocol hands to the primitive) with `scheme`?  Computed by the reference
    verifiers of harness/c05_refsig.py (FIPS 186-4 / RFC 8017 / RFC 8032), NOT by the
    signature code of /repo, so that a defect of a /repo primitive cannot hide itself."""
    import c05_refsig as R
    if scheme is not None and tuple(scheme) in ((8, 7), (8, 8)):
        key_type = 'Ed25519'
    if key_type in ('Ed25519', 'Ed448', 'ecdsa', 'dsa'):
        return R.ref_verify(pub, key_type, None, None, bytes(vb), sig)
    name = SignatureScheme.toRepr(scheme) if scheme else None
    if tuple(version) == (3, 4):
        if name is None:
            return False
        try:
            pad, hn = SignatureScheme.getPadding(name), SignatureScheme.getHash(name)
        except Exception:   # noqa
            return False
        return R.ref_verify(pub, 'rsa', hn, pad, bytes(vb), sig)
    if name is None or 'pkcs1' in name:
        return R.ref_verify(pub, 'rsa', None, 'pkcs1', bytes(vb), sig)       # DigestInfo is already part of vb
    return R.ref_verify(pub, 'rsa', SignatureScheme.getHash(name), 'pss', bytes(vb), sig)
