"""C15: the table of covered tlslite-ng classes: for each class/context the Gallina format
term (coq/Model/C15_Messages.v), its Python mirror, and adapters between format values and
real tlslite objects (create(...) / parse(...) / field view)."""
import glob
import os

from c15_fmt import (Check, U, Const, Fix, Rest, Seq, Bounded, Rep, Opt, Tag, BYTES, EMPTY, FAIL, Var, VarR, VarList,
                     VarTuples, List, fseq, Msg, sel_of, Some, Tagged, tup, untup)

REPO = os.path.realpath(os.environ.get('VERIF_REPO', '/repo'))


def ba(b):
    return bytearray(b)


# =====================================================================================
# format mirror (same order and shape as coq/Model/C15_Messages.v)
KeyShareEntryF = Seq(U(2), Var(2))
PskIdentityF = Seq(Var(2), U(4))
TACKF = fseq([Fix(64), U(1), U(1), U(4), Fix(32), Fix(64)])

EXT_UNIVERSAL = [
    (0, Opt(List(2, Seq(U(1), Var(2))))),
    (5, Opt(fseq([U(1), List(2, Var(2)), Var(2)]))),
    (9, Opt(VarList(1, 1))),
    (10, Opt(VarList(2, 2))),
    (11, Opt(VarList(1, 1))),
    (12, Var(1)),
    (13, Opt(VarTuples(1, 2, 2))),
    (16, List(2, Var(1))),
    (13172, Rep(Var(1))),
    (21, BYTES),
    (65281, Opt(Var(1))),
    (15, U(1)),
    (43, Opt(VarTuples(1, 2, 1))),
    (51, Opt(List(2, KeyShareEntryF))),
    (50, Opt(VarTuples(1, 2, 2))),
    (41, Opt(Seq(List(2, PskIdentityF), List(2, Var(1))))),
    (45, Opt(VarList(1, 1))),
    (44, Opt(Var(2))),
    (28, Opt(U(2))),
    (35, BYTES),
    (27, Opt(VarList(2, 1))),
    (34, Opt(VarTuples(1, 2, 2))),
]
EXT_SERVER_ONLY = [
    (9, U(1)),
    (62208, Seq(List(2, TACKF), U(1))),
    (51, Opt(KeyShareEntryF)),
    (43, Seq(U(1), U(1))),
    (41, Opt(U(2))),
]
EXT_HRR_ONLY = [(51, U(2)), (43, Seq(U(1), U(1)))]
OPAQUE = {}    # id(format node) -> node whose bytes are DER / compressed content outside the model
BLOBS = set()  # opaque byte strings produced by real objects during this run (compressed certificates)


def opaque(f):
    g = tuple(f)
    OPAQUE[id(g)] = g
    return g


SPKI = opaque(Var(3))
DelegatedCredentialF = fseq([U(4), U(1), U(1), SPKI, U(1), U(1), Var(2)])
EXT_CERT_ONLY = [(5, Seq(Const(1, 1), Var(3))), (34, DelegatedCredentialF)]
EXT_TABLE = {
    'CtxUniversal': EXT_UNIVERSAL,
    'CtxServer': EXT_SERVER_ONLY + EXT_UNIVERSAL,
    'CtxHRR': EXT_HRR_ONLY + EXT_UNIVERSAL,
    'CtxCert': EXT_CERT_ONLY + EXT_UNIVERSAL,
}
UNKNOWN_TYPES = [1, 22, 23, 42, 49, 4660, 65535]
SPECIAL = {'CtxUniversal': (), 'CtxServer': (9, 62208, 51, 43, 41), 'CtxHRR': (51, 43), 'CtxCert': (5, 34)}


def ExtF(ctx):
    table = EXT_TABLE[ctx]
    sel = sel_of(table, BYTES)
    known = []
    for k, _ in table:
        if k not in known:
            known.append(k)
    return ('Tag', 2, lambda t: Bounded(2, sel(t)), known + UNKNOWN_TYPES, ctx)


EXT = {c: ExtF(c) for c in EXT_TABLE}
EXTLIST = {c: List(2, EXT[c]) for c in EXT_TABLE}
# ClientHello / ServerHello / CertificateRequest 1.3 / EncryptedExtensions: no repeated extension type
EXTLISTU = {c: Bounded(2, Check('uniq_tags', Rep(EXT[c]))) for c in EXT_TABLE}

HRR_RANDOM = bytes([207, 33, 173, 116, 229, 154, 97, 17, 190, 29, 140, 2, 30, 101, 184, 145,
                    194, 162, 17, 22, 122, 187, 140, 94, 7, 158, 9, 226, 200, 168, 51, 156])
HRR_INT = int.from_bytes(HRR_RANDOM, 'big')

CERT12 = opaque(VarR(3, 1, 16777215))
CERT13 = opaque(Var(3))
COMPRESSED = opaque(VarR(3, 1, 16777215))
CertificateEntryF = Seq(CERT13, EXTLIST['CtxCert'])
BOOL = {}     # id(format node) -> one-byte field holding a bool (0/1)
NZ = {}       # id(format node) -> one-byte field that write() asserts to be non-zero (hashAlg, signAlg)
NUM = {}      # id(format node) -> 'num' : canonical big-endian number (SKE/CKE fields)


def num(f):
    g = tuple(['Bounded', f[1], f[2]])      # a private copy so that the hook is per occurrence
    NUM[id(g)] = g
    return g


def ske_params(kx):
    if kx == 'KxSRP':
        return fseq([num(Var(2)), num(Var(2)), Var(1), num(Var(2))])
    if kx == 'KxDH':
        return fseq([num(Var(2)), num(Var(2)), num(Var(2))])
    if kx == 'KxECDH':
        return fseq([Const(1, 3), U(2), Var(1)])
    return FAIL


def nz1():
    g = tuple(['U', 1])
    NZ[id(g)] = g
    return g


def ske_sig(s):
    return {'SigNone': EMPTY, 'SigOld': Var(2), 'Sig12': fseq([nz1(), nz1(), Var(2)])}[s]


STP_BASE = [Var(2), U(1), U(1), U(2), Var(1), U(8)]
STP_CERTS = List(3, CertificateEntryF)
STP_B1, STP_B2 = tuple(['U', 1]), tuple(['U', 1])     # distinct objects (hooks are by identity)
BOOL[id(STP_B1)] = STP_B1
BOOL[id(STP_B2)] = STP_B2


def stp_sel(ver):
    if ver == 0:
        return fseq(STP_BASE)
    if ver == 1:
        return fseq(STP_BASE + [STP_CERTS])
    if ver == 2:
        return fseq(STP_BASE + [STP_CERTS, STP_B1, STP_B2, Var(2)])
    if ver == 3:
        return fseq(STP_BASE + [STP_CERTS, STP_B1, STP_B2, Var(2), Var(1)])
    return FAIL


def sh_sel(rnd):
    return fseq([Var(1), U(2), U(1), Opt(EXTLISTU['CtxHRR' if rnd == HRR_INT else 'CtxServer'])])


# =====================================================================================
# real certificates (DER) for the certificate-carrying classes
_CERTS = None


def der_certs():
    global _CERTS
    if _CERTS is None:
        from tlslite.x509 import X509
        out = []
        for p in sorted(glob.glob(os.path.join(REPO, 'tests', '*Cert.pem'))):
            try:
                with open(p) as f:
                    x = X509().parse(f.read())
                out.append(bytes(x.writeBytes()))
            except Exception:   # noqa  (ML-DSA etc. may be unsupported by the installed libs)
                pass
        _CERTS = sorted(out, key=len)
    return _CERTS


_SPKIS = None


def spkis():
    """real SubjectPublicKeyInfo DER strings (delegated credentials)"""
    global _SPKIS
    if _SPKIS is None:
        from tlslite.utils.pem import dePem
        out = []
        for p in sorted(glob.glob(os.path.join(REPO, 'tests', '*Pub.pem'))):
            try:
                with open(p) as f:
                    out.append(bytes(dePem(f.read(), 'PUBLIC KEY')))
            except Exception:   # noqa
                pass
        _SPKIS = out
    return _SPKIS


def known_blobs():
    return set(der_certs()) | set(spkis()) | BLOBS


# =====================================================================================
# extension adapters:  value <-> tlslite extension object
def _ext_build(ctx, t, v):
    from tlslite import extensions as E
    special = t in SPECIAL[ctx]
    opt = lambda x: None if x is None else x.v        # noqa
    if special:
        if ctx == 'CtxServer':
            if t == 9:
                return E.ServerCertTypeExtension().create(v)
            if t == 62208:
                tacks = [E.TACKExtension.TACK().create(ba(a), b, c, d, ba(e), ba(f))
                         for a, b, c, d, e, f in (untup(x, 6) for x in v[0])]
                return E.TACKExtension().create(tacks, v[1])
            if t == 51:
                return E.ServerKeyShareExtension().create(
                    None if v is None else E.KeyShareEntry().create(v.v[0], ba(v.v[1])))
            if t == 41:
                return E.SrvPreSharedKeyExtension().create(opt(v))
        if t == 43:
            return E.SrvSupportedVersionsExtension().create(tuple(v))
        if ctx == 'CtxHRR' and t == 51:
            return E.HRRKeyShareExtension().create(v)
        if ctx == 'CtxCert' and t == 5:
            return E.CertificateStatusExtension().create(v[0], ba(v[1]))
        if ctx == 'CtxCert' and t == 34:
            from tlslite.x509 import DelegatedCredential, Credential
            vt, a0, a1, spki, b0, b1, sig = untup(v, 7)
            cred = Credential(vt, (a0, a1), ba(spki), Credential.marshal(vt, (a0, a1), ba(spki)))
            return E.DelegatedCredentialCertExtension().create(DelegatedCredential(cred, (b0, b1), ba(sig)))
        raise AssertionError((ctx, t))
    if t == 0:
        if v is None:
            return E.SNIExtension().create()
        return E.SNIExtension().create(serverNames=[E.SNIExtension.ServerName(a, ba(b)) for a, b in v.v])
    if t == 5:
        if v is None:
            return E.StatusRequestExtension().create(status_type=None)
        st, rl, rx = untup(v.v, 3)
        return E.StatusRequestExtension().create(st, [ba(x) for x in rl], ba(rx))
    simple = {9: E.ClientCertTypeExtension, 10: E.SupportedGroupsExtension, 11: E.ECPointFormatsExtension,
              45: E.PskKeyExchangeModesExtension, 27: E.CompressedCertificateExtension,
              28: E.RecordSizeLimitExtension}
    if t in simple:
        return simple[t]().create(opt(v))
    tuples = {13: E.SignatureAlgorithmsExtension, 50: E.SignatureAlgorithmsCertExtension,
              34: E.DelegatedCredentialExtension, 43: E.SupportedVersionsExtension}
    if t in tuples:
        return tuples[t]().create(None if v is None else [tuple(x) for x in v.v])
    if t == 12:
        return E.SRPExtension().create(ba(v))
    if t == 16:
        return E.ALPNExtension().create([ba(x) for x in v])
    if t == 13172:
        return E.NPNExtension().create([ba(x) for x in v])
    if t == 21:
        e = E.PaddingExtension().create(len(v))
        if bytes(e.paddingData) != bytes(v):
            e.paddingData = ba(v)
        return e
    if t == 65281:
        return E.RenegotiationInfoExtension().create(None if v is None else ba(v.v))
    if t == 44:
        return E.CookieExtension().create(None if v is None else ba(v.v))
    if t == 15:
        return E.HeartbeatExtension().create(v)
    if t == 51:
        return E.ClientKeyShareExtension().create(
            None if v is None else [E.KeyShareEntry().create(g, ba(k)) for g, k in v.v])
    if t == 41:
        if v is None:
            return E.PreSharedKeyExtension().create(None, None)
        return E.PreSharedKeyExtension().create([E.PskIdentity().create(ba(i), a) for i, a in v.v[0]],
                                                [ba(b) for b in v.v[1]])
    if t == 35:
        return E.SessionTicketExtension().create(ba(v))
    return E.TLSExtension(extType=t).create(ba(v))


def ext_build(ctx, tv):
    return _ext_build(ctx, tv.t, tv.v)


def some(x, f=lambda y: y):
    return None if x is None else Some(f(x))


def ext_view(e):
    """tlslite extension object -> Tagged value (by the object's class)"""
    n = type(e).__name__
    t = e.extType
    B = bytes
    if n == 'TLSExtension':
        return Tagged(t, B(e.extData))
    if n == 'SNIExtension':
        return Tagged(t, some(e.serverNames, lambda l: [(s.name_type, B(s.name)) for s in l]))
    if n == 'StatusRequestExtension':
        if e.status_type is None:
            return Tagged(t, None)
        return Tagged(t, Some(tup([e.status_type, [B(x) for x in e.responder_id_list], B(e.request_extensions)])))
    if n in ('ClientCertTypeExtension', 'SupportedGroupsExtension', 'ECPointFormatsExtension',
             'PskKeyExchangeModesExtension', 'CompressedCertificateExtension'):
        return Tagged(t, some(e._internal_value, list))
    if n in ('RecordSizeLimitExtension', 'SrvPreSharedKeyExtension'):
        return Tagged(t, some(e._internal_value))
    if n in ('SignatureAlgorithmsExtension', 'SignatureAlgorithmsCertExtension', 'DelegatedCredentialExtension',
             'SupportedVersionsExtension'):
        return Tagged(t, some(e._internal_value, lambda l: [tuple(x) for x in l]))
    if n == 'SRPExtension':
        return Tagged(t, B(e.identity))
    if n == 'ALPNExtension':
        return Tagged(t, [B(x) for x in e.protocol_names])
    if n == 'NPNExtension':
        return Tagged(t, [B(x) for x in e.protocols])
    if n == 'PaddingExtension':
        return Tagged(t, B(e.paddingData))
    if n in ('RenegotiationInfoExtension', 'CookieExtension'):
        return Tagged(t, some(e._internal_value, B))
    if n in ('HeartbeatExtension', 'ServerCertTypeExtension'):
        return Tagged(t, e._internal_value)
    if n == 'ClientKeyShareExtension':
        return Tagged(t, some(e.client_shares, lambda l: [(s.group, B(s.key_exchange)) for s in l]))
    if n == 'ServerKeyShareExtension':
        return Tagged(t, some(e.server_share, lambda s: (s.group, B(s.key_exchange))))
    if n == 'HRRKeyShareExtension':
        return Tagged(t, e.selected_group)
    if n == 'SrvSupportedVersionsExtension':
        return Tagged(t, tuple(e.version))
    if n == 'PreSharedKeyExtension':
        if e.identities is None:
            return Tagged(t, None)
        return Tagged(t, Some(([(B(i.identity), i.obfuscated_ticket_age) for i in e.identities],
                               [B(b) for b in e.binders])))
    if n == 'SessionTicketExtension':
        return Tagged(t, B(e.ticket))
    if n == 'TACKExtension':
        return Tagged(t, ([tup([B(k.public_key), k.min_generation, k.generation, k.expiration,
                                B(k.target_hash), B(k.signature)]) for k in e.tacks], e.activation_flags))
    if n == 'CertificateStatusExtension':
        return Tagged(t, (e.status_type, B(e.response)))
    if n == 'DelegatedCredentialCertExtension':
        dc = e.delegated_credential
        return Tagged(t, tup([dc.cred.valid_time, dc.cred.dc_cert_verify_algorithm[0],
                              dc.cred.dc_cert_verify_algorithm[1], B(dc.cred.subject_public_key_info),
                              dc.algorithm[0], dc.algorithm[1], B(dc.signature)]))
    raise AssertionError('no view for ' + n)


def exts_build(ctx, v):
    return [ext_build(ctx, x) for x in v]


def exts_view(l):
    return [ext_view(e) for e in l]


# =====================================================================================
class Cls(object):
    """one covered class in one context"""

    def __init__(self, name, coq, fmt, new, build, view, whole=False, reject=(), hdr=None, weight=1,
                 ext_ctx=None, canon=None, fix=None, gen=None, no_overflow=False):
        self.name, self.coq, self.fmt = name, coq, fmt
        self.new, self.build, self.view = new, build, view
        self.whole = whole            # the class requires the whole buffer to be consumed
        self.reject = reject          # extra exception classes documented as "decode error" for this class
        self.hdr = hdr                # handshake type consumed by the dispatcher before parse()
        self.weight = weight
        self.ext_ctx = ext_ctx
        self.gen = gen                        # class-specific value generator (rng -> value), else from the format
        self.no_overflow = no_overflow        # bit-packed fields: 'does not fit' is checked by a dedicated oracle
        self.fix = fix or (lambda v: v)       # derived fields a generated value must respect (NPN padding)
        self.canon = canon or (lambda v: v)   # documented normalisation done by parse (integers: leading zeros)

    def parse(self, bs):
        """the real parser on bs: -> (object, consumed)"""
        from tlslite.utils.codec import Parser, DecodeError
        p = Parser(bytearray(bs))
        if self.hdr is not None:
            if p.get(1) != self.hdr:
                raise DecodeError('dispatch: wrong handshake type')
        o = self.new().parse(p)
        return o, p.index


def X509s(ders):
    from tlslite.x509 import X509
    from tlslite.x509certchain import X509CertChain
    out = []
    for d in ders:
        x = X509()
        x.parseBinary(ba(d))
        out.append(x)
    return X509CertChain(out)


def cert_entry_view(e):
    return (bytes(e.certificate.writeBytes()), exts_view(e.extensions))


def build_table():
    from tlslite import messages as M
    from tlslite.constants import CertificateType
    from tlslite.utils.cryptomath import bytesToNumber, numberToByteArray
    B = bytes
    T = []

    def add(*a, **k):
        T.append(Cls(*a, **k))

    # ---- record layer and small messages
    add('RecordHeader3', 'fmt_RecordHeader3', fseq([U(1), U(1), U(1), U(2)]), M.RecordHeader3,
        lambda v: M.RecordHeader3().create((v[1][0], v[1][1][0]), v[0], v[1][1][1]),
        lambda o: tup([o.type, o.version[0], o.version[1], o.length]))
    add('Alert', 'fmt_Alert', Seq(U(1), U(1)), M.Alert,
        lambda v: M.Alert().create(v[1], v[0]), lambda o: (o.level, o.description))
    add('ChangeCipherSpec', 'fmt_ChangeCipherSpec', U(1), M.ChangeCipherSpec,
        lambda v: _setattrs(M.ChangeCipherSpec().create(), type=v), lambda o: o.type, whole=True)
    add('Heartbeat', 'fmt_Heartbeat', fseq([U(1), Var(2), BYTES]), M.Heartbeat,
        lambda v: _setattrs(M.Heartbeat().create(v[0], ba(v[1][0]), 0), padding=ba(v[1][1])),
        lambda o: tup([o.message_type, B(o.payload), B(o.padding)]))
    add('KeyUpdate', 'fmt_KeyUpdate', Msg(24, U(1)), M.KeyUpdate,
        lambda v: M.KeyUpdate().create(v[1]), lambda o: (24, o.message_type), hdr=24)
    add('HelloRequest', 'fmt_HelloRequest', Msg(0, EMPTY), M.HelloRequest,
        lambda v: M.HelloRequest().create(), lambda o: (0, b''), hdr=0)
    add('ServerHelloDone', 'fmt_ServerHelloDone', Msg(14, EMPTY), M.ServerHelloDone,
        lambda v: M.ServerHelloDone().create(), lambda o: (14, b''), hdr=14)

    # ---- hellos
    def ch_build(v):
        _, b = v
        maj, mnr, rnd, sid, suites, comp, ext = untup(b, 7)
        exts = None if ext is None else exts_build('CtxUniversal', ext.v)
        o = M.ClientHello().create((maj, mnr), ba(rnd), ba(sid), list(suites),
                                   extensions=None if exts is None else list(exts))
        o.extensions = exts          # create()'s legacy arguments (tack=False ...) edit the list; set it as given
        o.compression_methods = list(comp)
        return o

    def ch_view(o):
        return (1, tup([o.client_version[0], o.client_version[1], B(o.random), B(o.session_id),
                        list(o.cipher_suites), list(o.compression_methods), some(o.extensions, exts_view)]))
    add('ClientHello', 'fmt_ClientHello',
        Msg(1, fseq([U(1), U(1), Fix(32), VarR(1, 0, 32), VarList(2, 2), VarList(1, 1),
                     Opt(EXTLISTU['CtxUniversal'])])),
        M.ClientHello, ch_build, ch_view, hdr=1, weight=3, ext_ctx='CtxUniversal')

    def sh_build(v):
        _, b = v
        maj, mnr, tagged = untup(b, 3)
        rnd = tagged.t.to_bytes(32, 'big')
        sid, suite, comp, ext = untup(tagged.v, 4)
        ctx = 'CtxHRR' if tagged.t == HRR_INT else 'CtxServer'
        exts = None if ext is None else exts_build(ctx, ext.v)
        o = M.ServerHello().create((maj, mnr), ba(rnd), ba(sid), suite,
                                   extensions=None if exts is None else list(exts))
        # create()'s legacy arguments certificate_type=None / next_protos_advertised=None remove the
        # cert_type and NPN extensions from the list that was passed (in place): set the list as given
        o.extensions = exts
        o.compression_method = comp
        return o

    def sh_view(o):
        return (2, tup([o.server_version[0], o.server_version[1],
                        Tagged(int.from_bytes(o.random, 'big'),
                               tup([B(o.session_id), o.cipher_suite, o.compression_method,
                                    some(o.extensions, exts_view)]))]))
    add('ServerHello', 'fmt_ServerHello', Msg(2, fseq([U(1), U(1), ('Tag', 32, sh_sel, 'random')])),
        M.ServerHello, sh_build, sh_view, hdr=2, weight=3, ext_ctx='CtxServer')
    add('EncryptedExtensions', 'fmt_EncryptedExtensions', Msg(8, EXTLISTU['CtxUniversal']), M.EncryptedExtensions,
        lambda v: M.EncryptedExtensions().create(exts_build('CtxUniversal', v[1])),
        lambda o: (8, exts_view(o.extensions)), hdr=8, ext_ctx='CtxUniversal')

    # ---- certificates
    x509 = CertificateType.x509
    add('Certificate(tls1.2)', 'fmt_Certificate12', Msg(11, List(3, CERT12)), lambda: M.Certificate(x509, (3, 3)),
        lambda v: M.Certificate(x509, (3, 3)).create(X509s(v[1]) if v[1] else None),
        lambda o: (11, [B(c.writeBytes()) for c in (o.cert_chain.x509List if o.cert_chain else [])]), hdr=11)

    def c13_build(v):
        ctx, entries = v[1]
        o = M.Certificate(x509, (3, 4))
        o.certificate_request_context = ba(ctx)
        o.certificate_list = [M.CertificateEntry(x509).create(X509s([d]).x509List[0], exts_build('CtxCert', ex))
                              for d, ex in entries]
        return o
    add('Certificate(tls1.3)', 'fmt_Certificate13', Msg(11, Seq(Var(1), List(3, CertificateEntryF))),
        lambda: M.Certificate(x509, (3, 4)), c13_build,
        lambda o: (11, (B(o.certificate_request_context), [cert_entry_view(e) for e in o.certificate_list])),
        hdr=11, ext_ctx='CtxCert')
    for tls12 in (True, False):
        ver = (3, 3) if tls12 else (3, 1)
        f = Msg(13, fseq([VarList(1, 1), VarTuples(1, 2, 2), List(2, Var(2))]) if tls12
                else fseq([VarList(1, 1), List(2, Var(2))]))

        def cr_build(v, ver=ver, tls12=tls12):
            if tls12:
                ct, sa, cas = untup(v[1], 3)
                return M.CertificateRequest(ver).create(list(ct), [ba(c) for c in cas], [tuple(x) for x in sa])
            ct, cas = v[1]
            return M.CertificateRequest(ver).create(list(ct), [ba(c) for c in cas])

        def cr_view(o, tls12=tls12):
            cas = [B(c) for c in o.certificate_authorities]
            if tls12:
                return (13, tup([list(o.certificate_types), [tuple(x) for x in o.supported_signature_algs], cas]))
            return (13, (list(o.certificate_types), cas))
        add('CertificateRequest(%s)' % ('tls1.2' if tls12 else 'tls1.0'),
            '(fmt_CertificateRequest %s)' % ('true' if tls12 else 'false'), f,
            lambda ver=ver: M.CertificateRequest(ver), cr_build, cr_view, hdr=13)
    add('CertificateRequest(tls1.3)', 'fmt_CertificateRequest13', Msg(13, Seq(Var(1), EXTLISTU['CtxUniversal'])),
        lambda: M.CertificateRequest((3, 4)),
        lambda v: M.CertificateRequest((3, 4)).create(context=ba(v[1][0]),
                                                      extensions=exts_build('CtxUniversal', v[1][1])),
        lambda o: (13, (B(o.certificate_request_context), exts_view(o.extensions))), hdr=13,
        ext_ctx='CtxUniversal')
    for tls12 in (True, False):
        ver = (3, 3) if tls12 else (3, 2)
        add('CertificateVerify(%s)' % ('tls1.2+' if tls12 else 'tls1.1'),
            '(fmt_CertificateVerify %s)' % ('true' if tls12 else 'false'),
            Msg(15, fseq([U(1), U(1), Var(2)]) if tls12 else Var(2)),
            lambda ver=ver: M.CertificateVerify(ver),
            (lambda v, ver=ver: M.CertificateVerify(ver).create(ba(v[1][1][1]), (v[1][0], v[1][1][0]))) if tls12
            else (lambda v, ver=ver: M.CertificateVerify(ver).create(ba(v[1]))),
            (lambda o: (15, tup([o.signatureAlgorithm[0], o.signatureAlgorithm[1], B(o.signature)]))) if tls12
            else (lambda o: (15, B(o.signature))), hdr=15)
    add('CertificateStatus', 'fmt_CertificateStatus', Msg(22, Seq(U(1), Var(3))), M.CertificateStatus,
        lambda v: M.CertificateStatus().create(v[1][0], ba(v[1][1])),
        lambda o: (22, (o.status_type, B(o.ocsp))), hdr=22)

    # ---- key exchange
    suites = {('KxSRP', 'SigNone'): 0xC01D, ('KxSRP', 'SigOld'): 0xC01E, ('KxSRP', 'Sig12'): 0xC01E,
              ('KxDH', 'SigNone'): 0x0034, ('KxDH', 'SigOld'): 0x0033, ('KxDH', 'Sig12'): 0x0033,
              ('KxECDH', 'SigNone'): 0xC018, ('KxECDH', 'SigOld'): 0xC013, ('KxECDH', 'Sig12'): 0xC013}

    def n2b(n, ln):
        return B(numberToByteArray(n, ln))

    for (kx, sg), suite in sorted(suites.items()):
        ver = (3, 3) if sg == 'Sig12' else (3, 1)

        def ske_build(v, kx=kx, sg=sg, suite=suite, ver=ver):
            o = M.ServerKeyExchange(suite, ver)
            params, sig = v[1]
            if kx == 'KxSRP':
                N, g, s, Bv = untup(params, 4)
                o.createSRP(bytesToNumber(ba(N)), bytesToNumber(ba(g)), ba(s), bytesToNumber(ba(Bv)))
            elif kx == 'KxDH':
                p, g, Y = untup(params, 3)
                o.createDH(bytesToNumber(ba(p)), bytesToNumber(ba(g)), bytesToNumber(ba(Y)))
            else:
                ct, nc, pt = untup(params, 3)
                o.createECDH(ct, nc, ba(pt))
            if sg == 'SigOld':
                o.signature = ba(sig)
            elif sg == 'Sig12':
                o.hashAlg, o.signAlg, o.signature = sig[0], sig[1][0], ba(sig[1][1])
            return o

        def ske_view(o, kx=kx, sg=sg):
            if kx == 'KxSRP':
                params = tup([n2b(o.srp_N, o.srp_N_len), n2b(o.srp_g, o.srp_g_len), B(o.srp_s),
                              n2b(o.srp_B, o.srp_B_len)])
            elif kx == 'KxDH':
                params = tup([n2b(o.dh_p, o.dh_p_len), n2b(o.dh_g, o.dh_g_len), n2b(o.dh_Ys, o.dh_Ys_len)])
            else:
                params = tup([o.curve_type, o.named_curve, B(o.ecdh_Ys)])
            sig = {'SigNone': b'', 'SigOld': B(o.signature)}.get(sg)
            if sg == 'Sig12':
                sig = tup([o.hashAlg, o.signAlg, B(o.signature)])
            return (12, (params, sig))
        add('ServerKeyExchange(%s,%s)' % (kx[2:], sg[3:]), '(fmt_ServerKeyExchange %s %s)' % (kx, sg),
            Msg(12, Seq(ske_params(kx), ske_sig(sg))),
            lambda suite=suite, ver=ver: M.ServerKeyExchange(suite, ver), ske_build, ske_view, hdr=12)
    cke = [('KxSRP', False, 0xC01D, (3, 1), num(Var(2))), ('KxRSA', False, 0x002F, (3, 3), Var(2)),
           ('KxRSA', True, 0x002F, (3, 0), BYTES), ('KxDH', False, 0x0033, (3, 3), num(VarR(2, 1, 65535))),
           ('KxECDH', False, 0xC013, (3, 3), Var(1))]
    for kx, ssl3, suite, ver, f in cke:
        def cke_build(v, kx=kx, suite=suite, ver=ver):
            o = M.ClientKeyExchange(suite, ver)
            x = v[1]
            if kx == 'KxSRP':
                return o.createSRP(bytesToNumber(ba(x)))
            if kx == 'KxRSA':
                return o.createRSA(ba(x))
            if kx == 'KxDH':
                return o.createDH(bytesToNumber(ba(x)))
            return o.createECDH(ba(x))

        def cke_view(o, kx=kx):
            if kx == 'KxSRP':
                return (16, n2b(o.srp_A, None))
            if kx == 'KxRSA':
                return (16, B(o.encryptedPreMasterSecret))
            if kx == 'KxDH':
                return (16, n2b(o.dh_Yc, None))
            return (16, B(o.ecdh_Yc))
        add('ClientKeyExchange(%s%s)' % (kx[2:], ',ssl3' if ssl3 else ''),
            '(fmt_ClientKeyExchange %s %s)' % (kx, 'true' if ssl3 else 'false'), Msg(16, f),
            lambda suite=suite, ver=ver: M.ClientKeyExchange(suite, ver), cke_build, cke_view, hdr=16,
            canon=(lambda v: (v[0], canon_num(v[1]))) if kx in ('KxSRP', 'KxDH') else None)

    # ---- finished, NPN, tickets
    for n, ver, hl in ((12, (3, 3), None), (36, (3, 0), None), (32, (3, 4), 32), (48, (3, 4), 48)):
        add('Finished(%d)' % n, '(fmt_Finished %d)' % n, Msg(20, Fix(n)),
            lambda ver=ver, hl=hl: M.Finished(ver, hl),
            lambda v, ver=ver, hl=hl: M.Finished(ver, hl).create(ba(v[1])),
            lambda o: (20, B(o.verify_data)), hdr=20)
    add('NextProtocol', 'fmt_NextProtocol', Msg(67, Seq(Var(1), Var(1))), M.NextProtocol,
        lambda v: M.NextProtocol().create(ba(v[1][0])),
        lambda o: (67, (B(o.next_proto), bytes(32 - ((len(o.next_proto) + 2) % 32)))), hdr=67,
        fix=lambda v: (67, (v[1][0], bytes(32 - ((len(v[1][0]) + 2) % 32)))),
        canon=lambda v: (67, (v[1][0], bytes(32 - ((len(v[1][0]) + 2) % 32)))))   # padding is not retained by parse()
    add('NewSessionTicket(tls1.3)', 'fmt_NewSessionTicket13',
        Msg(4, fseq([U(4), U(4), Var(1), Var(2), EXTLIST['CtxUniversal']])), M.NewSessionTicket,
        lambda v: M.NewSessionTicket().create(v[1][0], v[1][1][0], ba(v[1][1][1][0]), ba(v[1][1][1][1][0]),
                                              exts_build('CtxUniversal', v[1][1][1][1][1])),
        lambda o: (4, tup([o.ticket_lifetime, o.ticket_age_add, B(o.ticket_nonce), B(o.ticket),
                           exts_view(o.extensions)])), hdr=4, ext_ctx='CtxUniversal')
    add('NewSessionTicket(tls1.2)', 'fmt_NewSessionTicket10', Msg(4, Seq(U(4), Var(2))), M.NewSessionTicket1_0,
        lambda v: M.NewSessionTicket1_0().create(v[1][0], ba(v[1][1])),
        lambda o: (4, (o.ticket_lifetime, B(o.ticket))), hdr=4)

    def stp_build(tv):
        o = M.SessionTicketPayload()
        f = untup(tv.v, {0: 6, 1: 7, 2: 10, 3: 11}[tv.t])
        v2 = tv.t >= 2
        o.create(ba(f[0]), (f[1], f[2]), f[3], f[5], ba(f[4]), None,
                 bool(f[7]) if v2 else False, bool(f[8]) if v2 else False,
                 ba(f[9]) if v2 else bytearray(),
                 **({'srp_username': ba(f[10])} if tv.t == 3 else {}))
        # create() derives the version from which optional data is present; the layout version and the
        # certificate entries (with their extensions) are set as given
        o.version = tv.t
        if tv.t >= 1:
            o._cert_chain = [M.CertificateEntry(x509).create(X509s([d]).x509List[0], exts_build('CtxCert', ex))
                             for d, ex in f[6]]
        if v2:
            o.encrypt_then_mac, o.extended_master_secret, o.server_name = bool(f[7]), bool(f[8]), ba(f[9])
        if tv.t == 3:
            o.srp_username = ba(f[10])
        return o

    def stp_view(o):
        f = [B(o.master_secret), o.protocol_version[0], o.protocol_version[1], o.cipher_suite, B(o.nonce),
             o.creation_time]
        if o.version >= 1:
            f.append([cert_entry_view(e) for e in o._cert_chain])
        if o.version >= 2:
            f += [int(o.encrypt_then_mac), int(o.extended_master_secret), B(o.server_name)]
        if o.version >= 3:
            f.append(B(o.srp_username))
        return Tagged(o.version, tup(f))
    add('SessionTicketPayload', 'fmt_SessionTicketPayload', ('Tag', 2, stp_sel, [0, 1, 2, 3, 3]), M.SessionTicketPayload,
        stp_build, stp_view, whole=True, reject=(ValueError,), ext_ctx='CtxCert', weight=2)

    # ---- irregular layouts
    def cc_gen(rng):
        ders = [rng.choice(der_certs()[:6]) for _ in range(rng.choice([1, 1, 2]))]
        ctxb = bytes(rng.randrange(256) for _ in range(rng.choice([0, 0, 3])))
        o = M.CompressedCertificate(x509, (3, 4)).create(1, X509s(ders), ba(ctxb))
        BLOBS.add(B(o._compressed_msg))
        return cc_view(o)

    def cc_build(v):
        o = M.CompressedCertificate(x509, (3, 4))
        o.compression_algo, o._uncompressed_msg_len, o._compressed_msg = v[1][0], v[1][1][0], ba(v[1][1][1])
        return o

    def cc_view(o):
        return (25, tup([o.compression_algo, o._uncompressed_msg_len, B(o._compressed_msg)]))
    from tlslite.errors import TLSIllegalParameterException
    add('CompressedCertificate', 'fmt_CompressedCertificate', Msg(25, fseq([U(2), U(3), COMPRESSED])),
        lambda: M.CompressedCertificate(x509, (3, 4)), cc_build, cc_view, hdr=25, gen=cc_gen,
        reject=(TLSIllegalParameterException,))

    def rh2_parts(tv):
        if tv.t >= 128:
            return ((tv.t & 0x7f) << 8) | tv.v, 0, False
        return ((tv.t & 0x3f) << 8) | tv.v[0], tv.v[1], bool(tv.t & 0x40)

    def rh2_value(length, padding, esc):
        if not (padding or esc):
            return Tagged(0x80 | (length >> 8), length & 0xff)
        return Tagged((0x40 if esc else 0) | (length >> 8), (length & 0xff, padding))
    add('RecordHeader2', 'fmt_RecordHeader2',
        ('Tag', 1, lambda b: U(1) if b >= 128 else Seq(U(1), U(1)), list(range(0, 256, 7)) + [127, 128, 255]),
        M.RecordHeader2, lambda tv: M.RecordHeader2().create(*rh2_parts(tv)),
        lambda o: rh2_value(o.length, o.padding, bool(o.securityEscape)),
        fix=lambda tv: rh2_value(*rh2_parts(tv)), canon=lambda tv: rh2_value(*rh2_parts(tv)), no_overflow=True)

    def ssl2_sel(cl):
        return ('Tag', 2, lambda sl: ('Tag', 2, lambda rl: (
            fseq([Fix(cl), Fix(sl), Fix(rl)]) if cl >= 0 and cl % 3 == 0 and sl >= 0 and rl >= 0 else FAIL),
            [32, 32, 33, 40]), [0, 0, 16, 32])

    def ssl2_build(v):
        maj, mnr, t = untup(v[1], 3)
        cb, sid, rnd = untup(t.v.v.v, 3)
        suites = [int.from_bytes(cb[i:i + 3], 'big') for i in range(0, len(cb), 3)]
        return M.ClientHello(ssl2=True).create((maj, mnr), ba(rnd), ba(sid), suites)

    def ssl2_value(maj, mnr, cb, sid, rnd):
        return (1, tup([maj, mnr, Tagged(len(cb), Tagged(len(sid), Tagged(len(rnd), tup([cb, sid, rnd]))))]))

    def ssl2_view(o):
        return ssl2_value(o.client_version[0], o.client_version[1],
                          b''.join(x.to_bytes(3, 'big') for x in o.cipher_suites), B(o.session_id), B(o.random))

    def ssl2_canon(v):       # a challenge shorter than 32 bytes is left-padded with zeros by parse()
        maj, mnr, t = untup(v[1], 3)
        cb, sid, rnd = untup(t.v.v.v, 3)
        return ssl2_value(maj, mnr, cb, sid, bytes(32 - len(rnd)) + rnd if len(rnd) < 32 else rnd)
    add('ClientHello(ssl2)', 'fmt_ClientHelloSSL2',
        Seq(Const(1, 1), fseq([U(1), U(1), ('Tag', 2, ssl2_sel, [0, 3, 6, 9, 30])])),
        lambda: M.ClientHello(ssl2=True), ssl2_build, ssl2_view, hdr=1, canon=ssl2_canon)

    # ---- every extension class on its own, in every context
    from tlslite.extensions import TLSExtension
    flags = {'CtxUniversal': {}, 'CtxServer': {'server': True}, 'CtxHRR': {'hrr': True}, 'CtxCert': {'cert': True}}
    for ctx in ('CtxUniversal', 'CtxServer', 'CtxHRR', 'CtxCert'):
        add('Extension(%s)' % ctx[3:], '(fmt_Ext %s)' % ctx, EXT[ctx],
            lambda ctx=ctx: TLSExtension(**flags[ctx]),
            lambda v, ctx=ctx: ext_build(ctx, v), ext_view, weight=6 if ctx == 'CtxUniversal' else 3,
            ext_ctx=ctx)
    return T


def canon_num(b):
    """ClientKeyExchange keeps srp_A / dh_Yc as integers: leading zero bytes are not preserved"""
    b = bytes(b).lstrip(b'\x00')
    return b if b else b'\x00'


def _setattrs(o, **kw):
    for k, v in kw.items():
        setattr(o, k, v)
    return o
