"""C08 (work / allocation part): ties coq/Model/C08_Work.v to tlslite's parsers.

run_stage(ctx, quick) -> None | str

For every generated input (honest encodings made by tlslite's own writers, then
mutated / truncated / random, including zero-length elements and maximal counts of
tiny elements) the REAL parser is run under sys.settrace and
  (i)   the model outcome (canonical summary, or exception class) must equal the
        implementation's (vm_compute inside coqc),
  (ii)  traced tlslite line events <= K * model steps + K0,
  (iii) directly in Python: traced lines <= C * len(input) + C0, and on large
        inputs (up to 64 kB, Python only) lines(2n)/lines(n) stays ~2.
A failure of (iii) is a property violation (key 'work-superlinear:<function>');
a failure of (i)/(ii) is a broken tie (returned as a string)."""
import os
import sys
import time
import zlib

import vlib
from vlib import blit, zlit

# --------------------------------------------------------------------------
# constants of the tie (determined empirically, with margin; see design_work.md)
# (ii) lines <= K * steps + K0, per kind (measured maxima: ext lists 19.5/605, simple
# extension parsers 7.9/190, defragmenter 41.5 per get_message, static 16.6)
K_TIE = {'ext_raw': (24, 700), 'ext_nodup': (24, 700), 'ch_exts': (24, 700), 'cert13': (24, 700), 'compressed_cert': (20, 300),   # cert13: per-entry extension lists
         'defrag_hs': (50, 150), 'defrag_static': (22, 300)}
K_DEFAULT = (12, 300)
C_LINES, C0_LINES = 40, 800          # (iii) lines <= C * len(input) + C0   (measured max 23.7 / 605)
RATIO_MAX = 2.6                      # lines(2n) / lines(n) on the scaling probes
# ASN1Parser.getChild(i) re-walks children 0..i: the idiom "for i in range(getChildCount()):
# getChild(i)" (ocsp.py 135-137, 161-162; not reached from the TLS state machine) is quadratic.
# It is modelled and bounded as such (asn1_all_children_quadratic); lines <= Q * n^2 + C0.
Q_ASN1 = 3

EXC = {'IndexError': 1, 'ValueError': 2, 'AssertionError': 3, 'AttributeError': 4, 'TypeError': 5,
       'KeyError': 6, 'DecodeError': 8, 'ZeroDivisionError': 9,
       'SyntaxError': 101, 'BadCertificateError': 102, 'UnboundLocalError': 103,
       'TLSIllegalParameterException': 104}

KINDS = ['ext_raw', 'ch_exts', 'sni', 'alpn', 'npn', 'key_shares', 'psk', 'status_request',
         'var_list', 'var_tuple_list', 'fix_list', 'cert13', 'cert12', 'cert_request12',
         'defrag_hs', 'defrag_static', 'asn1_children', 'compressed_cert', 'ext_nodup']
KID = {k: i for i, k in enumerate(KINDS)}
MODELLED_CH = (0, 16, 13172, 51, 41, 5)


def _tlslite_dir():
    import tlslite
    return os.path.dirname(os.path.abspath(tlslite.__file__)) + os.sep


# --------------------------------------------------------------------------
class Trace(object):
    """Line events inside tlslite files; X509.parseBinary is an oracle of the model, so
    the lines below it are not counted but its argument is recorded; type-specific
    extension parsers that are dispatched are recorded (domain of the model)."""

    def __init__(self):
        self.n = 0
        self.certs = []
        self.ext_dispatch = []
        self._skip = 0
        self._dir = _tlslite_dir()

    def _local(self, frame, event, arg):
        if event == 'line':
            self.n += 1
        return self._local

    def _oracle_local(self, frame, event, arg):
        if event == 'return':
            self._skip -= 1
        return self._oracle_local

    def _global(self, frame, event, arg):
        if event != 'call' or self._skip:
            return None
        co = frame.f_code
        fn = co.co_filename
        if not fn.startswith(self._dir):
            return None
        if co.co_name == 'parseBinary' and fn.endswith('x509.py'):
            self._skip += 1
            self.certs.append(bytes(frame.f_locals.get('cert_bytes', b'')))
            return self._oracle_local
        if co.co_name == '_parseExt':
            self.ext_dispatch.append(frame.f_locals.get('extType'))
        return self._local


def count_lines(fn, *args):
    """-> (result, n_lines, trace);  result = ('ok', value) | ('err', exception class name)"""
    tr = Trace()
    old = sys.gettrace()
    sys.settrace(tr._global)
    try:
        try:
            r = ('ok', fn(*args))
        except Exception as e:  # noqa
            r = ('err', type(e).__name__)
    finally:
        sys.settrace(old)
    return r, tr.n, tr


# --------------------------------------------------------------------------
# real entry points; each returns the canonical summary: list of (int, bytes)
def _b(x):
    return bytes(x)


def _w(n, size):
    return int(n).to_bytes(size, 'big')


def summ_ext_obj(e):
    """summary of one parsed extension object (ClientHello flavour)"""
    from tlslite import extensions as X
    if isinstance(e, X.SNIExtension):
        return [(-1, b'')] if e.serverNames is None else [(s.name_type, _b(s.name)) for s in e.serverNames]
    if isinstance(e, X.ALPNExtension):
        return [(0, _b(p)) for p in e.protocol_names]
    if isinstance(e, X.NPNExtension):
        return [(0, _b(p)) for p in e.protocols]
    if isinstance(e, X.ClientKeyShareExtension):
        return [(-1, b'')] if e.client_shares is None else [(s.group, _b(s.key_exchange)) for s in e.client_shares]
    if isinstance(e, X.PreSharedKeyExtension):
        if e.identities is None:
            return [(-1, b'')]
        return ([(i.obfuscated_ticket_age, _b(i.identity)) for i in e.identities] + [(-2, b'')] +
                [(0, _b(b)) for b in e.binders])
    if isinstance(e, X.StatusRequestExtension):
        if e.status_type is None:
            return [(-1, b'')]
        return [(e.status_type, _b(e.request_extensions))] + [(0, _b(r)) for r in e.responder_id_list]
    if type(e) is X.TLSExtension:
        return [(-3, _b(e.extData))]
    raise RuntimeError('extension class outside the modelled domain: %r' % type(e))


def impl_ext_raw(block):
    """extension loop WITHOUT a duplicate test: NewSessionTicket.parse"""
    from tlslite.messages import NewSessionTicket
    from tlslite.utils.codec import Parser
    body = bytes(8) + b'\x00' + b'\x00\x00' + _w(len(block), 2) + block
    m = NewSessionTicket().parse(Parser(bytearray(_w(len(body), 3) + body)))
    return [(e.extType, _b(e.extData)) for e in m.extensions]


def impl_ext_nodup(block, which):
    """extension loop followed by the duplicate test: EncryptedExtensions.parse (which = 0) or
    CertificateRequest._parse_tls13 (which = 1)"""
    from tlslite.messages import EncryptedExtensions, CertificateRequest
    from tlslite.utils.codec import Parser
    if which == 0:
        body = _w(len(block), 2) + block
        m = EncryptedExtensions().parse(Parser(bytearray(_w(len(body), 3) + body)))
    else:
        body = b'\x00' + _w(len(block), 2) + block
        m = CertificateRequest((3, 4)).parse(Parser(bytearray(_w(len(body), 3) + body)))
    return [(e.extType, _b(e.extData)) for e in m.extensions]


CH_PREFIX = bytes([3, 3]) + bytes(range(32)) + b'\x00' + b'\x00\x02\x13\x01' + b'\x01\x00'


def impl_ch_exts(block):
    from tlslite.messages import ClientHello
    from tlslite.utils.codec import Parser
    body = CH_PREFIX + _w(len(block), 2) + block
    m = ClientHello().parse(Parser(bytearray(_w(len(body), 3) + body)))
    out = []
    for e in m.extensions:
        out.append((1000 + e.extType, b''))
        out += summ_ext_obj(e)
    return out


def _impl_ext(cls):
    def f(payload):
        from tlslite.utils.codec import Parser
        return summ_ext_obj(cls().parse(Parser(bytearray(payload))))
    return f


def impl_var_list(bs, ln, ll):
    from tlslite.utils.codec import Parser
    return [(v, b'') for v in Parser(bytearray(bs)).getVarList(ln, ll)]


def impl_var_tuple_list(bs, el, en, ll):
    from tlslite.utils.codec import Parser
    return [(-4, _tuple_bytes(t)) for t in Parser(bytearray(bs)).getVarTupleList(el, en, ll)]


def _tuple_bytes(t):
    # tuples of small ints are compared as the list of their values (each < 2^8*el); encode
    # every value on 4 bytes so that the summary stays a byte string
    return b''.join(_w(v, 4) for v in t)


def impl_fix_list(bs, ln, cnt):
    from tlslite.utils.codec import Parser
    return [(v, b'') for v in Parser(bytearray(bs)).getFixList(ln, cnt)]


def impl_cert13(bs):
    from tlslite.messages import Certificate
    from tlslite.constants import CertificateType
    from tlslite.utils.codec import Parser
    m = Certificate(CertificateType.x509, (3, 4)).parse(Parser(bytearray(bs)))
    out = [(-5, _b(m.certificate_request_context))]
    for e in m.certificate_list:
        out.append((-6, _b(e.certificate.bytes)))
        out += [(x.extType, _b(x.extData)) for x in e.extensions]
    return out


def impl_cert12(bs):
    from tlslite.messages import Certificate
    from tlslite.constants import CertificateType
    from tlslite.utils.codec import Parser
    m = Certificate(CertificateType.x509, (3, 3)).parse(Parser(bytearray(bs)))
    ch = m.cert_chain
    return [(0, _b(x.bytes)) for x in (ch.x509List if ch else [])]


def impl_cert_request12(bs, tls12):
    from tlslite.messages import CertificateRequest
    from tlslite.utils.codec import Parser
    m = CertificateRequest((3, 3) if tls12 else (3, 2)).parse(Parser(bytearray(bs)))
    out = [(v, b'') for v in m.certificate_types] + [(-2, b'')]
    if tls12:
        out += [(-4, _tuple_bytes(t)) for t in m.supported_signature_algs]
    out.append((-2, b''))
    out += [(0, _b(c)) for c in m.certificate_authorities]
    return out


def _mk_defrag():
    from tlslite.defragmenter import Defragmenter
    d = Defragmenter()
    d.add_static_size(20, 1)
    d.add_static_size(21, 2)
    d.add_dynamic_size(22, 1, 3)
    return d


def impl_defrag(buf, ctype):
    d = _mk_defrag()
    d.add_data(ctype, bytearray(buf))
    out = []
    while True:
        r = d.get_message()
        if r is None:
            break
        out.append((0, _b(r[1])))
    out.append((-7, _b(d.buffers[ctype])))
    return out


def impl_asn1_children(value):
    from tlslite.utils.asn1parser import ASN1Parser
    n = len(value)
    hdr = bytes([0x30]) + (bytes([n]) if n < 128 else bytes([0x82]) + _w(n, 2))
    p = ASN1Parser(bytearray(hdr + value))
    cnt = p.getChildCount()
    return [(0, _b(p.getChildBytes(i))) for i in range(cnt)]


def impl_compressed_cert(bs):
    from tlslite.messages import CompressedCertificate
    from tlslite.constants import CertificateType
    from tlslite.utils.codec import Parser
    m = CompressedCertificate(CertificateType.x509, (3, 4)).parse(Parser(bytearray(bs)))
    out = [(-5, _b(m.certificate_request_context))]
    for e in m.certificate_list:
        out.append((-6, _b(e.certificate.bytes)))
        out += [(x.extType, _b(x.extData)) for x in e.extensions]
    return out


def impl_fn(kind):
    from tlslite import extensions as X
    return {
        'ext_raw': impl_ext_raw, 'ext_nodup': impl_ext_nodup, 'ch_exts': impl_ch_exts,
        'sni': _impl_ext(X.SNIExtension), 'alpn': _impl_ext(X.ALPNExtension),
        'npn': _impl_ext(X.NPNExtension), 'key_shares': _impl_ext(X.ClientKeyShareExtension),
        'psk': _impl_ext(X.PreSharedKeyExtension), 'status_request': _impl_ext(X.StatusRequestExtension),
        'var_list': impl_var_list, 'var_tuple_list': impl_var_tuple_list, 'fix_list': impl_fix_list,
        'cert13': impl_cert13, 'cert12': impl_cert12, 'cert_request12': impl_cert_request12,
        'defrag_hs': lambda b: impl_defrag(b, 22), 'defrag_static': lambda b, size: impl_defrag(b, {1: 20, 2: 21}[size]),
        'asn1_children': impl_asn1_children, 'compressed_cert': impl_compressed_cert,
    }[kind]


# --------------------------------------------------------------------------
# generators (ctx.rng only)
def rbytes(rng, n):
    return bytes(rng.randrange(256) for _ in range(n))


def unknown_types():
    from tlslite.extensions import TLSExtension
    known = set(TLSExtension._universalExtensions) | set(TLSExtension._certificateExtensions) | \
        set(TLSExtension._serverExtensions) | set(TLSExtension._hrrExtensions)
    return [t for t in list(range(1, 64)) + [0x1234, 0xABAB, 0xFAFA, 65000, 65535] if t not in known]


def small_len(rng, big=False):
    return rng.choice([0, 0, 0, 1, 1, 2, 3, 7, 16, 32, rng.randrange(0, 70)] + ([rng.randrange(100, 400)] if big else []))


def gen_ext_payload(rng, t):
    """honest payload for extension type t made by the real writer"""
    from tlslite import extensions as X
    n = rng.choice([0, 1, 1, 2, 3, 5, 9])
    if t == 0:
        names = [X.SNIExtension.ServerName(rng.choice([0, 0, 1, 255]), bytearray(rbytes(rng, small_len(rng)))) for _ in range(n)]
        e = X.SNIExtension().create(serverNames=names) if (n or rng.random() < 0.7) else X.SNIExtension()
    elif t == 16:
        e = X.ALPNExtension().create([bytearray(rbytes(rng, small_len(rng))) for _ in range(n)])
    elif t == 13172:
        e = X.NPNExtension().create([bytearray(rbytes(rng, small_len(rng))) for _ in range(n)])
    elif t == 51:
        e = X.ClientKeyShareExtension().create(
            [X.KeyShareEntry().create(rng.choice([23, 24, 29, 30, 256, 0, 65535]), bytearray(rbytes(rng, small_len(rng))))
             for _ in range(n)])
    elif t == 41:
        ids = [X.PskIdentity().create(bytearray(rbytes(rng, small_len(rng))), rng.randrange(2**32)) for _ in range(n)]
        bnd = [bytearray(rbytes(rng, small_len(rng))) for _ in range(rng.choice([0, 1, n, n + 1]))]
        e = X.PreSharedKeyExtension().create(ids, bnd) if (n or rng.random() < 0.7) else X.PreSharedKeyExtension()
    elif t == 5:
        e = X.StatusRequestExtension().create(rng.choice([1, 0, 2]), [bytearray(rbytes(rng, small_len(rng))) for _ in range(n)],
                                              bytearray(rbytes(rng, small_len(rng))))
    else:
        e = X.TLSExtension(extType=t).create(t, bytearray(rbytes(rng, small_len(rng, True))))
    return bytes(e.extData)


def gen_ext_block(rng, types, count, distinct=False):
    from tlslite.extensions import TLSExtension
    out = b''
    pick = rng.sample(sorted(set(types)), min(count, len(set(types)))) if distinct else None
    for i in range(len(pick) if distinct else count):
        t = pick[i] if distinct else rng.choice(types)
        pl = gen_ext_payload(rng, t)
        out += bytes(TLSExtension(extType=t).create(t, bytearray(pl)).write())
    return out


def mutate(rng, data, limit=2400):
    """one structural or random mutation; returns (class, bytes)"""
    data = bytearray(data)
    n = len(data)
    m = rng.choice(['none', 'none', 'trunc', 'trunc', 'flip', 'lenbyte', 'append', 'zero', 'ff', 'random', 'drop'])
    if m == 'trunc' and n:
        data = data[:rng.randrange(n)]
    elif m == 'flip' and n:
        for _ in range(rng.choice([1, 1, 2, 4])):
            data[rng.randrange(n)] ^= 1 << rng.randrange(8)
    elif m == 'lenbyte' and n:
        i = rng.randrange(min(n, 12)) if rng.random() < 0.6 else rng.randrange(n)
        data[i] = rng.choice([0, 1, 2, 255, (data[i] + 1) & 255, (data[i] - 1) & 255, rng.randrange(256)])
    elif m == 'append':
        data += rbytes(rng, rng.choice([1, 2, 3, 4, 9]))
    elif m == 'zero' and n:
        i = rng.randrange(n)
        k = rng.choice([1, 2, 4, 8])
        data[i:i + k] = bytes(len(data[i:i + k]))
    elif m == 'ff' and n:
        i = rng.randrange(n)
        data[i:i + 2] = b'\xff' * len(data[i:i + 2])
    elif m == 'random':
        data = bytearray(rbytes(rng, rng.choice([0, 1, 2, 3, 4, 5, 8, 20, 60])))
    elif m == 'drop' and n:
        i = rng.randrange(n)
        del data[i:i + rng.choice([1, 2, 3])]
    else:
        m = 'none'
    return m, bytes(data[:limit])


def _cert_pool():
    import loop
    pool = []
    for name in ('ecdsa', 'ed25519'):
        ch, _ = loop.creds(name)
        pool.append(bytes(ch.x509List[0].bytes))
    return pool


def gen_cert13(rng, pool, unk):
    w = b''
    for _ in range(rng.choice([0, 1, 1, 2, 3])):
        c = rng.choice(pool + [rbytes(rng, rng.choice([0, 1, 5, 30]))]) if rng.random() < 0.25 else rng.choice(pool)
        ex = gen_ext_block(rng, unk, rng.choice([0, 0, 1, 3]))
        w += _w(len(c), 3) + c + _w(len(ex), 2) + ex
    ctxb = rbytes(rng, rng.choice([0, 0, 1, 8]))
    body = _w(len(ctxb), 1) + ctxb + _w(len(w), 3) + w
    return _w(len(body), 3) + body


def gen_cert12(rng, pool):
    w = b''
    for _ in range(rng.choice([0, 1, 1, 2, 3])):
        c = rng.choice(pool + [b'', rbytes(rng, rng.choice([1, 5, 30]))]) if rng.random() < 0.25 else rng.choice(pool)
        w += _w(len(c), 3) + c
    body = _w(len(w), 3) + w
    return _w(len(body), 3) + body


def gen_cert_request12(rng, tls12):
    from tlslite.messages import CertificateRequest
    cas = [bytearray(rbytes(rng, small_len(rng))) for _ in range(rng.choice([0, 1, 2, 5, 40]))]
    sig = [(rng.randrange(256), rng.randrange(256)) for _ in range(rng.choice([0, 1, 4]))]
    m = CertificateRequest((3, 3) if tls12 else (3, 2)).create([rng.randrange(256) for _ in range(rng.choice([0, 1, 3]))],
                                                            cas, sig)
    return bytes(m.write())[1:]


def gen_handshake_stream(rng, count, maxlen):
    out = b''
    for _ in range(count):
        pl = rbytes(rng, rng.choice([0, 0, 1, 4, rng.randrange(maxlen + 1)]))
        out += bytes([rng.randrange(256)]) + _w(len(pl), 3) + pl
    return out


def gen_asn1_value(rng, count):
    out = b''
    for _ in range(count):
        pl = rbytes(rng, rng.choice([0, 0, 1, 2, 10, 130, 300]) if rng.random() < 0.3 else rng.choice([0, 1, 2, 5]))
        n = len(pl)
        if n < 128:
            ln = bytes([n])
        elif n < 256 and rng.random() < 0.5:
            ln = bytes([0x81, n])
        else:
            ln = bytes([0x82]) + _w(n, 2)
        out += bytes([rng.choice([2, 4, 5, 0x30, 0xa0])]) + ln + pl
    return out


def gen_compressed(rng, pool, unk):
    inner = gen_cert13(rng, pool, unk)[3:]
    comp = zlib.compress(inner)
    expected = len(inner)
    algo = 1
    v = rng.choice(['ok', 'ok', 'exp+1', 'exp-1', 'exp0', 'expbig', 'corrupt', 'empty', 'algo', 'raw',
                    'trailing', 'cut', 'bomb'])
    if v == 'exp+1':
        expected += 1
    elif v == 'exp-1':
        expected = max(0, expected - 1)
    elif v == 'exp0':
        expected = 0
    elif v == 'expbig':
        expected = 2**24 - 1
    elif v == 'corrupt':
        c = bytearray(comp)
        c[rng.randrange(len(c))] ^= 1 << rng.randrange(8)
        comp = bytes(c)
    elif v == 'empty':
        comp = b''
    elif v == 'algo':
        algo = rng.choice([0, 4, 7, 65535])
    elif v == 'raw':
        comp = rbytes(rng, 12)
    elif v == 'trailing':                             # unused_data after the end of the stream
        comp += rbytes(rng, rng.choice([1, 4]))
    elif v == 'cut':                                  # stream not finished (not eof)
        comp = comp[:len(comp) - rng.choice([1, 2, 5])]
    elif v == 'bomb':                                 # much more output than declared
        comp = zlib.compress(b'\x00' * 100000)
        expected = rng.choice([0, 10, 500])
    body = _w(algo, 2) + _w(expected, 3) + _w(len(comp), 3) + comp
    return _w(len(body), 3) + body


def gen_case(rng, kind, pool, unk):
    """-> dict(kind, params, input, cls)"""
    params = []
    if kind in ('ext_raw', 'ext_nodup'):
        style = rng.choice(['mix', 'mix', 'tiny', 'empty', 'distinct', 'dup'])
        if kind == 'ext_nodup':
            params = [rng.randrange(2)]
        if style == 'dup':
            # every extension well-formed, one type repeated (rejected only where the test exists)
            types = rng.sample(unk, rng.choice([1, 2, 5, 9]))
            types.insert(rng.randrange(len(types) + 1), rng.choice(types))
            data = b''.join(gen_ext_block(rng, [t], 1) for t in types)
            params = params + ['nomut']
        elif style == 'distinct':
            data = gen_ext_block(rng, unk, rng.choice([1, 2, 5, 12]), distinct=True)
        elif style == 'tiny':
            data = gen_ext_block(rng, unk, 0)
            data = b''.join(_w(rng.choice(unk), 2) + b'\x00\x00' for _ in range(rng.choice([1, 50, 400, 900])))
        elif style == 'empty':
            data = b''
        else:
            data = gen_ext_block(rng, unk, rng.choice([1, 2, 5, 12]))
    elif kind == 'ch_exts':
        style = rng.choice(['mix', 'mix', 'mix', 'tinyknown', 'dup'])
        if style == 'dup':
            # every extension well-formed, one type repeated: reaches the duplicate test after the loop
            types = rng.sample(sorted(set(list(MODELLED_CH) + unk[:12])), rng.choice([1, 2, 5, 9]))
            types.insert(rng.randrange(len(types) + 1), rng.choice(types))
            data = b''.join(gen_ext_block(rng, [t], 1) for t in types)
            params = ['nomut']
        elif style == 'tinyknown':
            data = b''.join(_w(rng.choice(MODELLED_CH), 2) + b'\x00\x00' for _ in range(rng.choice([1, 30, 300])))
        else:
            # ClientHello.parse rejects duplicate extension types after the loop: both populations
            data = gen_ext_block(rng, list(MODELLED_CH) * 2 + unk[:12], rng.choice([1, 2, 4, 8, 16]),
                                 distinct=rng.random() < 0.6)
    elif kind in ('sni', 'alpn', 'npn', 'key_shares', 'psk', 'status_request'):
        t = {'sni': 0, 'alpn': 16, 'npn': 13172, 'key_shares': 51, 'psk': 41, 'status_request': 5}[kind]
        style = rng.choice(['honest', 'honest', 'honest', 'tiny'])
        if style == 'honest':
            data = gen_ext_payload(rng, t)
        else:
            k = rng.choice([1, 10, 200, 600])
            elem = {'sni': b'\x00\x00\x00', 'alpn': b'\x00', 'npn': b'\x00', 'key_shares': b'\x00\x1d\x00\x00',
                    'psk': b'\x00\x00\x00\x00\x00\x00', 'status_request': b'\x00\x00'}[kind]
            body = elem * k
            if kind == 'npn':
                data = body
            elif kind == 'psk':
                data = _w(len(body), 2) + body + _w(k, 2) + b'\x00' * k
            elif kind == 'status_request':
                data = b'\x01' + _w(len(body), 2) + body + b'\x00\x00'
            else:
                data = _w(len(body), 2) + body
    elif kind == 'var_list':
        ln, ll = rng.choice([(1, 1), (2, 2), (2, 1), (1, 2), (3, 2), (2, 3)])
        k = rng.choice([0, 1, 2, 7, 100, 127])
        k = min(k, (256 ** ll - 1) // ln)
        data = _w(k * ln, ll) + rbytes(rng, k * ln)
        params = [ln, ll]
    elif kind == 'var_tuple_list':
        el, en, ll = rng.choice([(1, 2, 2), (1, 2, 1), (2, 2, 2), (1, 3, 2), (2, 1, 1)])
        k = rng.choice([0, 1, 2, 7, 40])
        k = min(k, (256 ** ll - 1) // (el * en))
        data = _w(k * el * en, ll) + rbytes(rng, k * el * en)
        params = [el, en, ll]
    elif kind == 'fix_list':
        ln = rng.choice([1, 2, 3])
        cnt = rng.choice([0, 1, 2, 9, 300])
        data = rbytes(rng, ln * cnt + rng.choice([0, 0, 1, 5]))
        if rng.random() < 0.3:
            cnt = rng.choice([cnt + 1, cnt + 1000, 21845])
        params = [ln, cnt]
    elif kind == 'cert13':
        data = gen_cert13(rng, pool, unk)
    elif kind == 'cert12':
        data = gen_cert12(rng, pool)
    elif kind == 'cert_request12':
        tls12 = rng.random() < 0.6
        data = gen_cert_request12(rng, tls12)
        params = [1 if tls12 else 0]
    elif kind == 'defrag_hs':
        style = rng.choice(['mix', 'mix', 'tiny'])
        if style == 'tiny':
            data = b''.join(bytes([rng.randrange(256)]) + b'\x00\x00\x00' for _ in range(rng.choice([1, 20, 500, 900])))
        else:
            data = gen_handshake_stream(rng, rng.choice([0, 1, 2, 5, 20]), 60)
        r = rng.random()
        if r < 0.3:
            data += gen_handshake_stream(rng, 1, 300)[:rng.randrange(1, 8)]      # incomplete tail
        elif r < 0.6:                                 # last message 1..3 bytes short of complete
            pl = rbytes(rng, rng.choice([1, 2, 3, 10, 40]))
            m = bytes([rng.randrange(256)]) + _w(len(pl), 3) + pl
            data += m[:len(m) - rng.choice([1, 1, 2, 3])]
    elif kind == 'defrag_static':
        size = rng.choice([1, 2])
        data = rbytes(rng, rng.choice([0, 1, 2, 3, 7, 100, 501, 1200]))
        params = [size]
    elif kind == 'asn1_children':
        data = gen_asn1_value(rng, rng.choice([0, 1, 2, 5, 20, 60]))
    elif kind == 'compressed_cert':
        data = gen_compressed(rng, pool, unk)
    else:
        raise KeyError(kind)
    if params[-1:] == ['nomut']:
        params, cls = params[:-1], 'dup'
    elif kind in ('var_list', 'var_tuple_list', 'fix_list', 'defrag_static'):
        cls, data = mutate(rng, data) if rng.random() < 0.6 else ('none', data)
    elif kind == 'compressed_cert':
        cls, data = mutate(rng, data) if rng.random() < 0.25 else ('none', data)
    else:
        cls, data = mutate(rng, data)
    return {'kind': kind, 'params': params, 'input': data[:2400], 'cls': cls}


# --------------------------------------------------------------------------
def x509_outcome(c):
    from tlslite.x509 import X509
    try:
        X509().parseBinary(bytearray(c))
        return 0
    except Exception as e:  # noqa
        return EXC.get(type(e).__name__, 150)


def zlib_outcome(data, lim):
    """the decompressor oracle as the code calls it (messages.py _decompress, zlib path):
    -> (output, stopped cleanly) or None when zlib raises"""
    try:
        d = zlib.decompressobj(15)
        out = bytes(d.decompress(bytes(data), lim))
        return out, not (d.unconsumed_tail or not d.eof or d.unused_data)
    except Exception:  # noqa
        return None


def run_impl(case):
    """Runs the real parser; fills impl outcome, lines, oracle tables.  Returns False when the
    input left the modelled domain (an un-modelled type-specific extension parser ran)."""
    kind = case['kind']
    fn = impl_fn(kind)
    r, n, tr = count_lines(fn, case['input'], *case['params'])
    case['lines'] = n
    if r[0] == 'ok':
        case['ok'], case['code'], case['summ'] = True, 0, r[1]
    else:
        case['ok'], case['code'], case['summ'] = False, EXC.get(r[1], 150), []
        case['exc'] = r[1]
    allowed = MODELLED_CH if kind == 'ch_exts' else ()
    if any(t not in allowed for t in tr.ext_dispatch):
        return False
    case['certs'] = [(c, x509_outcome(c)) for c in sorted(set(tr.certs))]
    if kind == 'compressed_cert':
        # oracle table for the decompressor: the (data, limit) pair the message asks for
        bs = case['input']
        tbl = []
        if len(bs) >= 11:
            exp = int.from_bytes(bs[5:8], 'big')
            ln = int.from_bytes(bs[8:11], 'big')
            comp = bs[11:11 + ln]
            o = zlib_outcome(comp, exp + 1)
            if o is not None and len(o[0]) > 5000:    # keep the literal small: an unrecorded query
                o = 'skip'                            # makes the model disagree, never silently agree
            if o != 'skip':
                tbl.append((comp, exp + 1, o))
        case['dec'] = tbl
    return True


def summ_lit(s):
    return '[' + ';'.join('(%s,%s)' % (zlit(t), blit(b)) for t, b in s) + ']'


def case_lit(c):
    certs = '[' + ';'.join('(%s,%d)' % (blit(b), code) for b, code in c.get('certs', [])) + ']'
    dec = '[' + ';'.join('(%s,%d,%s)' % (blit(d), lim, 'None' if o is None else
                                         '(Some (%s,%s))' % (blit(o[0]), vlib.boollit(o[1])))
                         for d, lim, o in c.get('dec', [])) + ']'
    return '(%d, %s, %s, %s, %d, %s, %d, %s, %s)' % (
        KID[c['kind']], '[' + ';'.join(zlit(p) for p in c['params']) + ']', blit(c['input']),
        vlib.boollit(c['ok']), c['code'], summ_lit(c['summ']), c['lines'], certs, dec)


PREAMBLE = '''
Definition CaseT := (Z * list Z * list Z * bool * Z * summ * Z * list (list Z * Z)
                     * list (list Z * Z * option (list Z * bool)))%%type.
Definition exn_of_code (c : Z) : exn :=
  if c =? 1 then IndexError else if c =? 2 then ValueError else if c =? 3 then AssertionError
  else if c =? 4 then AttributeError else if c =? 5 then TypeError else if c =? 6 then KeyError
  else if c =? 8 then DecodeError else if c =? 9 then ZeroDivisionError else OtherExn (c - 100).
Fixpoint cert_tbl (t : list (list Z * Z)) (c : list Z) : option exn :=
  match t with
  | [] => Some (OtherExn 99)
  | (k, code) :: t' => if list_eqb k c then (if code =? 0 then None else Some (exn_of_code code))
                       else cert_tbl t' c
  end.
Fixpoint dec_tbl (t : list (list Z * Z * option (list Z * bool))) (d : list Z) (lim : Z)
  : res (list Z * bool) :=
  match t with
  | [] => Ok ([(-1)], true)
  | (k, l, o) :: t' => if list_eqb k d && (l =? lim)
                       then match o with Some x => Ok x | None => Err ValueError end
                       else dec_tbl t' d lim
  end.
Definition tuple4 (t : list Z) : list Z :=
  flat_map (fun v => [(v / 16777216) mod 256; (v / 65536) mod 256; (v / 256) mod 256; v mod 256]) t.
Definition summ_tup4 (l : list (list Z)) : summ := map (fun t => (-4, tuple4 t)) l.
Definition p0 (ps : list Z) := nth 0 ps 0.
Definition p1 (ps : list Z) := nth 1 ps 0.
Definition p2 (ps : list Z) := nth 2 ps 0.
Definition of_defrag (r : res (list (list Z) * list Z * Z * Z * Z)) : M summ :=
  match r with
  | Ok (ms, rest, it, al, mv) => (Ok (summ_names ms ++ [(-7, rest)]), it, al)
  | Err e => (Err e, 0, 0)
  end.
Definition run_model (kind : Z) (ps : list Z) (certs : list (list Z * Z))
           (dec : list (list Z * Z * option (list Z * bool))) (bs : list Z) : M summ :=
  if kind =? 0 then parse_ext_list bs
  else if kind =? 1 then mmap summ_flat (parse_client_hello_exts bs)
  else if kind =? 2 then mmap summ_opt (parse_sni bs)
  else if kind =? 3 then mmap summ_names (parse_alpn bs)
  else if kind =? 4 then mmap summ_names (parse_npn bs)
  else if kind =? 5 then mmap summ_opt (parse_key_shares bs)
  else if kind =? 6 then h_client_hello 41 bs
  else if kind =? 7 then h_client_hello 5 bs
  else if kind =? 8 then mmap summ_ints (mfst (parse_var_list (p0 ps) (p1 ps) bs))
  else if kind =? 9 then mmap summ_tup4 (mfst (parse_var_tuple_list (p0 ps) (p1 ps) (p2 ps) bs))
  else if kind =? 10 then mmap summ_ints (mfst (p_fix_list (p0 ps) (p1 ps) bs))
  else if kind =? 11 then mmap summ_certs (parse_cert_list (cert_tbl certs) bs)
  else if kind =? 12 then mmap summ_names (parse_cert_list12 (cert_tbl certs) bs)
  else if kind =? 13 then
    mmap (fun v => let '(tys, sigs, cas) := v in
                   summ_ints tys ++ (-2, []) :: (if p0 ps =? 1 then summ_tup4 sigs else []) ++ (-2, []) :: summ_names cas)
         (parse_cert_request12 (p0 ps =? 1) bs)
  else if kind =? 14 then of_defrag (defrag_get_messages bs)
  else if kind =? 15 then of_defrag (defrag_get_static (p0 ps) bs)
  else if kind =? 16 then mmap summ_names (asn1_all_children bs)
  else if kind =? 17 then
    mmap summ_certs (parse_compressed_cert_full (dec_tbl dec) (fun a => a =? 1) (cert_tbl certs) bs)
  else if kind =? 18 then parse_ext_list_nodup bs
  else merr OutOfFuel.
Definition model_of (c : CaseT) : M summ :=
  let '(kind, ps, bs, ok, code, s, lines, certs, dec) := c in run_model kind ps certs dec bs.
Definition chk_result_m (c : CaseT) (m : M summ) : bool :=
  let '(kind, ps, bs, ok, code, s, lines, certs, dec) := c in
  match m_out m, ok with
  | Ok v, true => summ_eqb v s
  | Err e, false => exn_code e =? code
  | _, _ => false
  end.
Definition tie_k (kind : Z) : Z * Z := %s.
Definition chk_work_m (c : CaseT) (m : M summ) : bool :=
  let '(kind, ps, bs, ok, code, s, lines, certs, dec) := c in
  lines <=? fst (tie_k kind) * m_steps m + snd (tie_k kind).
(* the proved bounds (Proofs/C08_Work.v parser_work_linear_all / alloc_bounded_all / defrag_bound_stmt /
   asn1_all_children_quadratic), re-evaluated on the concrete case: guards the reading of the statements *)
Definition proved (kind : Z) (ps : list Z) : Z * Z * Z * Z :=
  if kind =? 0 then (1, 4, 2, 1) else if kind =? 1 then (8, 13, 5, 3)
  else if kind =? 2 then (2, 5, 2, 1) else if kind =? 3 then (3, 4, 2, 1)
  else if kind =? 4 then (3, 3, 2, 1) else if kind =? 5 then (1, 5, 2, 1)
  else if kind =? 6 then (3, 9, 2, 2) else if kind =? 7 then (2, 7, 2, 1)
  else if kind =? 8 then (2, 4, 2, 256 ^ (p1 ps)) else if kind =? 9 then (5, 4, 4, 2)
  else if kind =? 10 then (2, 3, 2, Z.max 0 (p1 ps) + 1)
  else if kind =? 11 then (3, 13, 4, 2) else if kind =? 12 then (1, 5, 2, 1)
  else if kind =? 13 then (5, 13, 4, 259)
  else if kind =? 18 then (2, 4, 3, 1)
  else (1, 1, 1, 0).
Definition chk_bounds_m (c : CaseT) (m : M summ) : bool :=
  let '(kind, ps, bs, ok, code, s, lines, certs, dec) := c in
  let n := zlen bs in
  let '(cs, ks, ca, ka) := proved kind ps in
  (0 <=? m_steps m) && (0 <=? m_alloc m) &&
  (if kind =? 16 then (2 * m_steps m <=? 3 * n * n + 12 * n + 10) && (2 * m_alloc m <=? 3 * n * n + 5 * n + 2)
   else if kind =? 17 then true
   else (m_steps m <=? cs * n + ks) && (m_alloc m <=? ca * n + ka)).
Definition chk_result (c : CaseT) : bool := chk_result_m c (model_of c).
Definition chk_work (c : CaseT) : bool := chk_work_m c (model_of c).
Definition chk_bounds (c : CaseT) : bool := chk_bounds_m c (model_of c).
Definition chk_all (c : CaseT) : bool :=
  let m := model_of c in chk_result_m c m && chk_work_m c m && chk_bounds_m c m.
''' % (' '.join('if kind =? %d then (%d, %d) else' % (KID[k], a, b) for k, (a, b) in sorted(K_TIE.items()))
       + ' (%d, %d)' % K_DEFAULT)


# --------------------------------------------------------------------------
# (iii) scaling probes, Python only
def scaling_inputs(n):
    """name -> (kind, params, input of about n bytes) with maximal counts of tiny elements"""
    k4 = max(1, n // 4)
    ext_tiny = b''.join(_w(0xABAB, 2) + b'\x00\x00' for _ in range(k4))
    ch_tiny = b''.join(_w(16 if i % 2 else 0xABAB, 2) + b'\x00\x02\x00\x00' for i in range(max(1, n // 6)))
    probes = {
        'ext_raw/tiny': ('ext_raw', [], ext_tiny[:65532]),
        'ext_nodup/tiny': ('ext_nodup', [0], ext_tiny[:65532]),
        'ch_exts/tiny': ('ch_exts', [], ch_tiny[:65532]),
        'npn/zero-length': ('npn', [], b'\x00' * min(n, 65535)),
        'defrag_hs/empty-messages': ('defrag_hs', [], b'\x0b\x00\x00\x00' * k4),
        'defrag_static/alerts': ('defrag_static', [2], b'\x01\x00' * (n // 2)),
        'asn1_children/nulls': ('asn1_children', [], b'\x05\x00' * min(n // 16, 256)),
    }
    body = b'\x00' * min(n, 65000)
    probes['alpn/zero-length'] = ('alpn', [], _w(len(body), 2) + body)
    b3 = b'\x00\x00\x00' * min(n // 3, 21000)
    probes['sni/zero-length'] = ('sni', [], _w(len(b3), 2) + b3)
    b4 = b'\x00\x1d\x00\x00' * min(n // 4, 16000)
    probes['key_shares/zero-length'] = ('key_shares', [], _w(len(b4), 2) + b4)
    k = min(n // 7, 9000)
    probes['psk/zero-length'] = ('psk', [], _w(6 * k, 2) + b'\x00' * (6 * k) + _w(k, 2) + b'\x00' * k)
    kk = min(n // 2, 32767)
    probes['var_list/2'] = ('var_list', [2, 2], _w(2 * kk, 2) + b'\x01\x02' * kk)
    # TLS 1.3 certificate list: maximal number of per-entry empty extension lists needs valid
    # certificates; the TLS 1.2 CA list with zero-length names is the tiny-element analogue
    kc = min(n // 2, 32000)
    cas = b'\x00\x00' * kc
    body = b'\x01\x01' + b'\x00\x00' + _w(len(cas), 2) + cas
    probes['cert_request12/zero-length-cas'] = ('cert_request12', [1], _w(len(body), 3) + body)
    return probes


def bomb_probe(ctx):
    """Direct measurement of the decompressor contract on the real call: a zlib bomb with a small
    declared length must be rejected without materialising its output."""
    import tracemalloc
    from tlslite.messages import CompressedCertificate
    from tlslite.constants import CertificateType
    from tlslite.utils.codec import Parser
    comp = zlib.compress(b'\x00' * (16 * 1024 * 1024), 9)
    body = _w(1, 2) + _w(10, 3) + _w(len(comp), 3) + comp
    msg = bytearray(_w(len(body), 3) + body)
    tracemalloc.start()
    try:
        try:
            CompressedCertificate(CertificateType.x509, (3, 4)).parse(Parser(msg))
            res = 'ok'
        except Exception as e:  # noqa
            res = type(e).__name__
        peak = tracemalloc.get_traced_memory()[1]
    finally:
        tracemalloc.stop()
    ctx.count('zlib-bomb(python)', 1, [(res,)])
    ctx.notes.append('zlib bomb: %d input bytes (16 MiB declared as 10) -> %s, peak traced memory %d' % (len(msg), res, peak))
    if peak > 8 * len(msg) + (1 << 20) or res != 'BadCertificateError':
        ctx.violation('alloc-unbounded:compressed_certificate_zlib',
                      'CompressedCertificate.parse of %d bytes (zlib stream of 16 MiB zeros, expected_length 10) '
                      'ended in %s with peak traced memory %d bytes' % (len(msg), res, peak),
                      {'how': 'body = 0001 | 00000a | len3 | zlib.compress(bytes(2**24), 9); '
                              'CompressedCertificate(x509,(3,4)).parse(Parser(len3 + body))',
                       'input_len': len(msg), 'peak': peak, 'result': res}, found_input=True)


def scaling_stage(ctx, quick):
    bomb_probe(ctx)
    sizes = [2048, 4096, 8192] if quick else [4096, 8192, 16384, 32768, 65536]
    for name in sorted(scaling_inputs(64)):
        prev = None
        for n in sizes:
            kind, params, data = scaling_inputs(n)[name]
            r, lines, tr = count_lines(impl_fn(kind), data, *params)
            ctx.count('scaling(python)', 1, [(name, n)])
            key = 'work-superlinear:%s' % kind
            if kind == 'asn1_children':
                # documented quadratic API (see Q_ASN1): checked against the quadratic bound only
                ctx.notes.append('asn1 getChild idiom: %d bytes -> %d lines' % (len(data), lines))
                if lines > Q_ASN1 * len(data) * len(data) + C0_LINES:
                    ctx.violation('work-superquadratic:asn1_children', '%d lines for %d bytes' % (lines, len(data)),
                                  {'probe': name, 'n': len(data), 'lines': lines}, found_input=True)
                continue
            if lines > C_LINES * len(data) + C0_LINES:
                ctx.violation(key, '%s: %d traced lines for %d input bytes exceeds %d*n+%d'
                              % (name, lines, len(data), C_LINES, C0_LINES),
                              {'probe': name, 'kind': kind, 'params': params, 'n': len(data), 'lines': lines,
                               'input_hex': data[:64].hex() + '...', 'how': 'c08_work.scaling_inputs(%d)[%r]' % (n, name)},
                              found_input=True)
            if prev is not None and prev[1] >= 2000 and len(data) >= 1.9 * prev[0]:
                ratio = lines / float(prev[1])
                if ratio > RATIO_MAX:
                    ctx.violation(key, '%s: traced lines grow by %.2f when the input doubles (%d -> %d bytes)'
                                  % (name, ratio, prev[0], len(data)),
                                  {'probe': name, 'kind': kind, 'params': params, 'n': len(data), 'lines': lines,
                                   'prev': prev, 'how': 'c08_work.scaling_inputs(%d)[%r]' % (n, name)}, found_input=True)
            prev = (len(data), lines)
    return None


# --------------------------------------------------------------------------
def run_stage(ctx, quick):
    rng = ctx.rng
    t0 = time.time()
    pool = _cert_pool()
    unk = unknown_types()
    total = 300 if quick else 5000
    weights = {'ext_raw': 2, 'ext_nodup': 3, 'ch_exts': 4, 'sni': 2, 'alpn': 2, 'npn': 1, 'key_shares': 2, 'psk': 3,
               'status_request': 1, 'var_list': 2, 'var_tuple_list': 1, 'fix_list': 1, 'cert13': 2, 'cert12': 1,
               'cert_request12': 2, 'defrag_hs': 3, 'defrag_static': 1, 'asn1_children': 1, 'compressed_cert': 2}
    bag = [k for k, w in weights.items() for _ in range(w)]
    cases, skipped = [], 0
    for k in KINDS:                                   # every kind at least twice
        bag_first = [k, k]
        for kk in bag_first:
            c = gen_case(rng, kk, pool, unk)
            if run_impl(c) and len(case_lit(c)) <= 19000:
                cases.append(c)
    while len(cases) < total:
        c = gen_case(rng, rng.choice(bag), pool, unk)
        if not run_impl(c):
            skipped += 1
            ctx.count('out-of-model-domain(skipped)', 1)
            continue
        if len(case_lit(c)) > 19000:                  # keep every Gallina literal < 20 kB
            skipped += 1
            ctx.count('literal-too-large(skipped)', 1)
            continue
        cases.append(c)
    # (iii) directly on the implementation
    for c in cases:
        n = len(c['input'])
        ctx.count('impl-work(python)', 1, [(c['kind'], c['cls'], c['ok'], c.get('exc'), min(n // 64, 20))],
                  sample={'kind': c['kind'], 'input': c['input'][:48].hex(), 'lines': c['lines']}
                  if len(cases) % 53 == 1 else None)
        if c['lines'] > C_LINES * n + C0_LINES and c['kind'] != 'asn1_children':
            ctx.violation('work-superlinear:%s' % c['kind'],
                          '%s: %d traced lines for %d input bytes exceeds %d*n+%d'
                          % (c['kind'], c['lines'], n, C_LINES, C0_LINES),
                          {'kind': c['kind'], 'params': c['params'], 'input_hex': c['input'].hex(), 'lines': c['lines']},
                          found_input=True)
    scaling_stage(ctx, quick)
    ctx.log('c08_work: %d cases generated and run on the implementation (%d skipped) in %.1fs'
            % (len(cases), skipped, time.time() - t0))
    # (i) + (ii) against the model
    lits = [case_lit(c) for c in cases]
    shard = max(8, (len(lits) + 15) // 16) if quick else 100
    # one pass with the conjunction; the three checks are told apart only on the failing cases
    bad_all, errs = vlib.coq_bad_indices('C08w', ['Model.C08_Work'], 'CaseT', 'chk_all', lits,
                                         shard=shard, preamble=PREAMBLE)
    bad_res, bad_work, bad_bounds = [], [], []
    if bad_all and not errs:
        sub = sorted(bad_all)[:24]
        (b1, b2, b3), errs = vlib.coq_bad_indices(
            'C08wf', ['Model.C08_Work'], 'CaseT', ['chk_result', 'chk_work', 'chk_bounds'],
            [lits[i] for i in sub], shard=4, preamble=PREAMBLE)
        bad_res, bad_work, bad_bounds = [sub[i] for i in b1], [sub[i] for i in b2], [sub[i] for i in b3]
        if not (bad_res or bad_work or bad_bounds) and not errs:
            errs = ['inconsistent evaluation of chk_all on cases %s' % sub[:5]]
    ctx.count('work-model-vs-impl(vm_compute)', len(lits),
              [(c['kind'], c['cls'], c['ok'], c.get('exc')) for c in cases])
    ctx.log('c08_work: model evaluated, %d result / %d work disagreements, %.1fs total'
            % (len(bad_res), len(bad_work), time.time() - t0))
    for e in errs:
        return 'C08_Work case evaluation failed: ' + e[:400]
    for i in bad_res[:1]:
        c = cases[i]
        return ('C08_Work model result differs from implementation: kind=%s params=%s input=%s impl=%s'
                % (c['kind'], c['params'], c['input'].hex(), c.get('exc', 'ok')))
    for i in bad_work[:1]:
        c = cases[i]
        return ('C08_Work: traced lines %d exceed %d*steps+%d: kind=%s params=%s input=%s'
                % ((c['lines'],) + K_TIE.get(c['kind'], K_DEFAULT) + (c['kind'], c['params'], c['input'].hex())))
    for i in bad_bounds[:1]:
        return ('C08_Work: model counters exceed the proved bound on case kind=%s params=%s input=%s'
                % (cases[i]['kind'], cases[i]['params'], cases[i]['input'].hex()))
    return None
