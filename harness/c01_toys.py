"""Toy bulk ciphers / AEAD mirrored in coq/Toy/C01_ToyCipher.v.  They are duck-typed
replacements for ConnectionState.encContext (tlslite never checks the class), so the
real RecordLayer.sendRecord/recvRecord run unchanged on top of them."""
M32 = 0xFFFFFFFF


def tm_mix(h):
    h ^= (h << 13) & M32
    h ^= h >> 17
    h ^= (h << 5) & M32
    return h


class ToyMac(object):
    """Duck-typed hashlib/hmac object (copy/update/digest/digest_size/block_size) mirrored by
    toy2_mac in coq/Toy/C01_ToyCipher.v: xorshift32 bijection per input byte."""

    def __init__(self, key, digest_size, block_size=64, _h=None):
        self.key = bytes(bytearray(key))
        self.digest_size = digest_size
        self.block_size = block_size
        self.name = 'toy2-%d' % digest_size
        if _h is None:
            _h = 2463534242
            for b in self.key:
                _h = tm_mix(_h ^ (b + 1))
        self._h = _h

    def copy(self):
        return ToyMac(self.key, self.digest_size, self.block_size, self._h)

    def update(self, data):
        h = self._h
        for b in bytearray(data):
            h = tm_mix(h ^ (b + 1))
        self._h = h

    def digest(self):
        out, h, n = bytearray(), tm_mix(self._h ^ 2654435769), self.digest_size
        while n > 0:
            for j in range(min(n, 4)):
                out.append((h >> (8 * j)) & 255)
            h = tm_mix(h ^ 1540483477)
            n -= 4
        return bytes(out)


def ts_step(h):
    return (h * 75 + 74) % 65537


def ts_run(h, data):
    out = bytearray()
    for b in bytearray(data):
        out.append(b ^ (h & 255))
        h = ts_step(h)
    return h, out


class ToyStream(object):
    isBlockCipher = False
    isAEAD = False
    name = 'toystream'
    implementation = 'toy'

    def __init__(self, key, h=None):
        if h is None:
            h = 1
            for b in bytearray(key):
                h = ts_step(h + b)
        self.h = h

    def state(self):
        return [self.h]

    def encrypt(self, data):
        self.h, out = ts_run(self.h, data)
        return out

    decrypt = encrypt


class ToyCBC(object):
    isBlockCipher = True
    isAEAD = False
    name = 'toycbc'
    implementation = 'toy'

    def __init__(self, key, iv):
        self.key = bytearray(key)
        self.block_size = len(self.key)
        self.iv = bytearray(iv)
        assert len(self.iv) == self.block_size

    def state(self):
        return list(self.iv)

    def _e(self, blk):
        return bytearray(reversed(bytearray(a ^ b for a, b in zip(blk, self.key))))

    def _d(self, blk):
        return bytearray(a ^ b for a, b in zip(reversed(blk), self.key))

    def encrypt(self, data):
        data = bytearray(data)
        bs = self.block_size
        assert len(data) % bs == 0
        out = bytearray()
        iv = self.iv
        for i in range(0, len(data), bs):
            c = self._e(bytearray(a ^ b for a, b in zip(data[i:i + bs], iv)))
            out += c
            iv = c
        self.iv = iv
        return out

    def decrypt(self, data):
        data = bytearray(data)
        bs = self.block_size
        assert len(data) % bs == 0
        out = bytearray()
        iv = self.iv
        for i in range(0, len(data), bs):
            c = data[i:i + bs]
            out += bytearray(a ^ b for a, b in zip(self._d(c), iv))
            iv = c
        self.iv = iv
        return out


class ToyAEAD(object):
    isBlockCipher = False
    isAEAD = True
    implementation = 'toy'

    def __init__(self, key, tag_length, name, nonce_length=12):
        self.key = bytes(bytearray(key))
        self.tagLength = tag_length
        self.nonceLength = nonce_length
        self.name = name

    def state(self):
        return []

    def _tag(self, nonce, aad, ct):
        m = ToyMac(self.key, self.tagLength)
        m.update(bytearray(nonce) + bytearray([len(aad) % 256]) + bytearray(aad) + bytearray(ct))
        return bytearray(m.digest())

    def _ks0(self, nonce):
        h = 7
        for b in bytearray(self.key) + bytearray(nonce):
            h = ts_step(h + b)
        return h

    def seal(self, nonce, plaintext, data):
        _, ct = ts_run(self._ks0(nonce), plaintext)
        return ct + self._tag(nonce, data, ct)

    def open(self, nonce, ciphertext, data):
        n = len(ciphertext) - self.tagLength
        if n < 0:
            return None
        ct = ciphertext[:n]
        if self._tag(nonce, data, ct) != bytearray(ciphertext[n:]):
            return None
        return ts_run(self._ks0(nonce), ct)[1]
