"""C08 direct property oracle: grammar-aware mutation of the PEER's traffic against live
in-memory endpoints (loop.Pair) -- needs no Coq.

One case = (handshake flavour, role under test, which peer message/record, mutation).  The
peer endpoint's `_sendMsg` (message level, before protection) or its socket tap (record level,
after protection) is wrapped; the endpoint under test (EUT) is never patched.  Oracle, from the
property text:
  * the EUT's handshake/read/close call returns or raises only documented exception types
    (loop.classify(..)[0] in loop.DOCUMENTED), never an unrelated Python exception;
  * it never hangs: once the peer has nothing more to send and has closed its socket the call
    must end (Deadlock = spin/hang);
  * after a failure the EUT is closed and its session is not resumable;
  * for a protocol violation (the EUT ends with a TLSError that is not a remote alert / abrupt
    close / socket error) a fatal alert is on the wire first: observed by the PEER receiving it
    (or, if the peer was cut short, by the EUT's exception being TLSLocalAlert, whose alert the
    record layer wrote before the exception was raised -- checked on the plaintext wire log
    when the epoch is still unprotected);
  * work: Python function calls made while the EUT runs (sys.setprofile) <= WORK_C * bytes
    received + 2 * honest baseline of the flavour + WORK_C0;
  * memory: tracemalloc peak while the EUT runs <= MEM_C * bytes received + 2 * honest baseline
    peak + MEM_C0.
"""
import random
import time
import sys
import traceback
import tracemalloc

import loop
from tlslite import errors as tlserr

WORK_C, WORK_C0 = 400, 60000          # calls per received byte, slack (calls)
MEM_C, MEM_C0 = 64, 2 * 1024 * 1024   # bytes of heap per received byte, slack (bytes)
CPU_K, CPU_C0, CPU_C = 4, 3.0, 5e-5      # times the honest CPU time, slack (CPU seconds), CPU seconds per received byte


class RawMsg(object):
    """A message object as `_sendMsg` expects it: contentType + write()."""

    def __init__(self, content_type, data):
        self.contentType = content_type
        self.data = bytearray(data)

    def write(self):
        return bytearray(self.data)


# ------------------------------------------------------------------------------------------
# handshake flavours
def _s(**kw):
    return loop.settings(**kw)


def flavours():
    F = []

    def add(name, client_kind='cert', ckw=None, skw=None, cset=None, sset=None, prep=None, post=None):
        F.append(dict(name=name, client_kind=client_kind, ckw=ckw or {}, skw=skw or {}, cset=cset or {}, sset=sset or {},
                      prep=prep, post=post))
    add('tls13-rsa', skw=dict(cred='rsa'))
    add('tls13-ecdsa', skw=dict(cred='ecdsa'))
    add('tls13-clientauth', ckw=dict(cred='client-rsa'), skw=dict(cred='rsa', reqCert=True))
    add('tls13-hrr', skw=dict(cred='rsa'), cset=dict(keyShares=['x25519']),
        sset=dict(eccCurves=['secp256r1', 'secp384r1'], keyShares=['secp256r1']))
    add('tls13-psk', skw=dict(cred='rsa'), cset=dict(pskConfigs=[(b'psk-id', b'\x11' * 32)]),
        sset=dict(pskConfigs=[(b'psk-id', b'\x11' * 32)]))
    add('tls13-resume', skw=dict(cred='rsa'), prep='resume13', sset=dict(ticketKeys=[bytearray(b'\x07' * 32)]))
    add('tls13-compcert', skw=dict(cred='rsa'), cset=dict(certificate_compression_receive=['zlib']),
        sset=dict(certificate_compression_send=['zlib']))
    add('tls12-ecdhe', skw=dict(cred='rsa'), cset=dict(maxVersion=(3, 3)))
    add('tls12-dhe', skw=dict(cred='rsa'), cset=dict(maxVersion=(3, 3), keyExchangeNames=['dhe_rsa']))
    add('tls12-rsa', skw=dict(cred='rsa'), cset=dict(maxVersion=(3, 3), keyExchangeNames=['rsa']))
    add('tls12-ecdsa', skw=dict(cred='ecdsa'), cset=dict(maxVersion=(3, 3)))
    add('tls12-clientauth', ckw=dict(cred='client-rsa'), skw=dict(cred='rsa', reqCert=True), cset=dict(maxVersion=(3, 3)))
    add('tls12-resume', skw=dict(cred='rsa', cache=True), cset=dict(maxVersion=(3, 3)), prep='resume12')
    add('tls12-alpn-sni', ckw=dict(alpn=[b'h2', b'http/1.1'], serverName='example.com'),
        skw=dict(cred='rsa', alpn=[b'http/1.1']), cset=dict(maxVersion=(3, 3)))
    add('tls11', skw=dict(cred='rsa'), cset=dict(maxVersion=(3, 2)))
    add('tls10', skw=dict(cred='rsa'), cset=dict(maxVersion=(3, 1)))
    add('sslv3', skw=dict(cred='rsa'), cset=dict(minVersion=(3, 0), maxVersion=(3, 0)), sset=dict(minVersion=(3, 0)))
    add('srp', client_kind='srp', ckw=dict(username=bytearray(b'test'), password=bytearray(b'password')), skw=dict(srp=True),
        cset=dict(maxVersion=(3, 3)))
    add('anon-dh', client_kind='anon', skw=dict(anon=True), cset=dict(maxVersion=(3, 3), keyExchangeNames=['dh_anon']))
    add('anon-ecdh', client_kind='anon', skw=dict(anon=True), cset=dict(maxVersion=(3, 3), keyExchangeNames=['ecdh_anon']))
    add('tls12-heartbeat-rsl', skw=dict(cred='rsa'), cset=dict(maxVersion=(3, 3), record_size_limit=2048,
                                                               use_heartbeat_extension=True),
        sset=dict(record_size_limit=1024, use_heartbeat_extension=True))
    add('tls12-dhe-dsa', skw=dict(cred='dsa'), cset=dict(maxVersion=(3, 3)))
    add('tls11-clientauth-dsa', ckw=dict(cred='client-dsa'), skw=dict(cred='rsa', reqCert=True), cset=dict(maxVersion=(3, 2)))
    add('tls13-clientauth-ecdsa', ckw=dict(cred='client-ecdsa'), skw=dict(cred='ecdsa', reqCert=True))
    add('tls12-ecdhe-p521', skw=dict(cred='rsa'), cset=dict(maxVersion=(3, 3), eccCurves=['secp521r1'], keyShares=[]),
        sset=dict(maxVersion=(3, 3), eccCurves=['secp521r1'], keyShares=[]))
    add('anon-ecdh-p521', client_kind='anon', skw=dict(anon=True),
        cset=dict(maxVersion=(3, 3), keyExchangeNames=['ecdh_anon'], eccCurves=['secp521r1'], keyShares=[]),
        sset=dict(maxVersion=(3, 3), eccCurves=['secp521r1'], keyShares=[]))
    # honest but incompatible peers: no common ECDH group in an anonymous ECDH handshake
    add('anon-ecdh-nomutual', client_kind='anon', skw=dict(anon=True),
        cset=dict(maxVersion=(3, 3), keyExchangeNames=['ecdh_anon'], eccCurves=['secp521r1'], keyShares=[]),
        sset=dict(maxVersion=(3, 3), keyExchangeNames=['ecdh_anon'], eccCurves=['secp256r1'], keyShares=[]))
    # more certificate key families (peer-chosen signature algorithm ids x local key types)
    add('tls12-ecdhe-ed25519', skw=dict(cred='ed25519'), cset=dict(maxVersion=(3, 3)))
    add('tls12-ecdhe-rsapss', skw=dict(cred='rsapss'), cset=dict(maxVersion=(3, 3)))
    add('tls12-clientauth-ecdsa', ckw=dict(cred='client-ecdsa'), skw=dict(cred='rsa', reqCert=True), cset=dict(maxVersion=(3, 3)))
    add('tls12-clientauth-ed25519', ckw=dict(cred='client-ed25519'), skw=dict(cred='rsa', reqCert=True),
        cset=dict(maxVersion=(3, 3)))
    add('tls12-clientauth-dsa', ckw=dict(cred='client-dsa'), skw=dict(cred='rsa', reqCert=True), cset=dict(maxVersion=(3, 3)))
    add('tls13-ed25519', skw=dict(cred='ed25519'))
    add('tls13-clientauth-ed25519', ckw=dict(cred='client-ed25519'), skw=dict(cred='rsa', reqCert=True))
    # TLS 1.3 post-handshake authentication: the server requests the client's certificate after the handshake
    add('tls13-pha', ckw=dict(cred='client-rsa'), skw=dict(cred='rsa'), post='pha-request')
    return F


FLAVOURS = None
_VDB = {}


def get_flavours():
    global FLAVOURS
    if FLAVOURS is None:
        FLAVOURS = flavours()
    return FLAVOURS


def _kwargs(fl, pair, state):
    ckw = dict(fl['ckw'])
    skw = dict(fl['skw'])
    c = ckw.pop('cred', None)
    if c:
        ckw['certChain'], ckw['privateKey'] = loop.creds(c)
    c = skw.pop('cred', None)
    if c:
        skw['certChain'], skw['privateKey'] = loop.creds(c)
    if skw.pop('srp', False):
        if 'db' not in _VDB:
            _VDB['db'] = loop.make_verifier_db()
        skw['verifierDB'] = _VDB['db']
    if skw.pop('cache', False):
        skw['sessionCache'] = state.setdefault('cache', loop.SessionCache())
    ckw['settings'] = _s(**fl['cset']) if fl['cset'] else loop.settings()
    skw['settings'] = _s(**fl['sset']) if fl['sset'] else loop.settings()
    if state.get('session') is not None:
        ckw['session'] = state['session']
    return ckw, skw


# ------------------------------------------------------------------------------------------
class Meter(object):
    """Counts Python function calls (and optionally heap peak) while the EUT's generator runs."""

    def __init__(self, mem):
        self.calls = 0
        self.mem = mem
        self.peak = 0

    def _prof(self, frame, event, arg):
        if event == 'call':
            self.calls += 1

    def wrap(self, gen):
        def g():
            it = iter(gen)
            while True:
                sys.setprofile(self._prof)
                try:
                    v = next(it)
                except StopIteration:
                    return
                finally:
                    sys.setprofile(None)
                yield v
        return g()


def drive2(gens, socks, max_steps=60000, on_idle=None, idle_limit=12):
    """Round-robin driver like loop.drive, but "no progress" is decided from the in-memory
    pipes: a round in which no generator finished, returned data or moved a byte is idle; the
    pipes are instantaneous, so a dozen idle rounds mean nothing more will ever happen."""
    res = [None] * len(gens)
    vals = [None] * len(gens)
    active = list(range(len(gens)))
    idle = 0
    steps = 0
    while active:
        sig0 = tuple((s.n_send, len(s.inbuf)) for s in socks)
        progressed = False
        for i in list(active):
            try:
                r = next(gens[i])
                steps += 1
                if isinstance(r, (bytes, bytearray)) or r not in (0, 1):
                    vals[i] = r
                    progressed = True
            except StopIteration:
                res[i] = ('ok', vals[i])
                active.remove(i)
                progressed = True
            except Exception as e:  # noqa
                res[i] = ('exc', e)
                active.remove(i)
                progressed = True
        if tuple((s.n_send, len(s.inbuf)) for s in socks) != sig0:
            progressed = True
        idle = 0 if progressed else idle + 1
        if idle > idle_limit:
            if on_idle is not None and on_idle():
                idle = 0
                continue
            for i in active:
                res[i] = ('exc', loop.Deadlock('no progress'))
            break
        if steps > max_steps:
            for i in active:
                res[i] = ('exc', loop.Deadlock('step budget'))
            break
    return res


def fatal_alert_in_plaintext(chunks):
    """Scan raw bytes written by an endpoint for an unprotected fatal alert record."""
    data = b''.join(chunks)
    i = 0
    found = None
    while i + 5 <= len(data):
        ct, ln = data[i], (data[i + 3] << 8) | data[i + 4]
        body = data[i + 5:i + 5 + ln]
        if ct == 21 and ln == 2 and body[0] == 2:
            found = body[1]
        i += 5 + ln
    return found


def _preload_sources():
    """Read every tlslite source file into linecache once, at import (before the worker processes
    are forked): the source text used in finding keys is then the text of the code that is running,
    even if the files change on disk during a long run."""
    import glob
    import linecache
    import os
    import tlslite
    root = os.path.dirname(os.path.abspath(tlslite.__file__))
    for f in glob.glob(os.path.join(root, '**', '*.py'), recursive=True):
        linecache.getlines(f)


_preload_sources()


def _frames(exc):
    """(filename, function, source line) of the traceback frames, outermost first; lines come from
    the preloaded cache (no re-validation against the file on disk)"""
    import linecache
    out = []
    tb = exc.__traceback__
    while tb is not None:
        co = tb.tb_frame.f_code
        out.append((co.co_filename, co.co_name, linecache.getline(co.co_filename, tb.tb_lineno).strip()))
        tb = tb.tb_next
    return out


def innermost_tlslite_frame(exc):
    fr = _frames(exc)
    for filename, name, line in reversed(fr):
        if '/tlslite/' in filename:
            return name, line
    if fr:
        return fr[-1][1], fr[-1][2]
    return '?', ''


# ------------------------------------------------------------------------------------------
def run_case(case, mem=False, collect=None):
    """case: dict(flavour=i, role='server'|'client' (= EUT), phase='hs'|'post', target=k or None,
                  level='msg'|'rec', mut=(name, params...), seed=int)
    Returns dict with outcome and oracle verdicts.  collect: list to which the peer's outgoing
    messages/records are appended in the honest run (used to derive the mutation points)."""
    fl = get_flavours()[case['flavour']]
    rng = random.Random(case['seed'])
    det = loop.DetRandom(case['seed'] & 0xffff).install()
    clock = loop.FakeClock().install()
    try:
        return _run_case(case, fl, rng, mem, collect)
    finally:
        det.uninstall()
        clock.uninstall()


def _prep(fl, state):
    """Preparation handshakes (resumption flavours): an honest connection whose session is reused."""
    if fl['prep'] is None:
        return
    pair = loop.Pair()
    ckw, skw = _kwargs(fl, pair, state)
    state['skw_cache'] = skw.get('sessionCache')
    r = pair.handshake(client_kw=ckw, server_kw=skw, client_kind=fl['client_kind'])
    if fl['prep'] == 'resume13':
        # tickets arrive with the first read
        pair.transfer(pair.server, pair.client, b'x' * 10)
    state['session'] = pair.client.session
    pair.close_both()


def _run_case(case, fl, rng, mem, collect):
    state = {}
    _prep(fl, state)
    pair = loop.Pair()
    ckw, skw = _kwargs(fl, pair, state)
    eut_is_server = case['role'] == 'server'
    eut = pair.server if eut_is_server else pair.client
    peer = pair.client if eut_is_server else pair.server
    eut_sock = pair.ssock if eut_is_server else pair.csock
    if case.get('close_socket') is False:
        eut.closeSocket = False          # public configuration attribute of the endpoint under test
    peer_sock = pair.csock if eut_is_server else pair.ssock
    mut = case.get('mut')
    counter = {'msg': 0, 'rec': 0, 'applied': False, 'what': None}

    # ---- message-level deviation: wrap the PEER's _sendMsg
    orig_send = peer._sendMsg

    def send_wrapper(msg, randomizeFirstBlock=True, update_hashes=True):
        if not update_hashes:
            # _queue_flush: the coalesced buffer of messages already seen (and possibly mutated) one by
            # one in queue_wrapper below
            for r in orig_send(msg, randomizeFirstBlock, update_hashes):
                yield r
            return
        k = counter['msg']
        counter['msg'] += 1
        if collect is not None:
            try:
                collect.append(('msg', k, msg.contentType, bytes(msg.write()), case.get('phase_now', 'hs')))
            except Exception:  # noqa
                pass
        if mut is not None and case['level'] == 'msg' and k == case['target'] and not counter['applied']:
            counter['applied'] = True
            new = apply_msg_mutation(msg, mut, rng)
            counter['what'] = new[1]
            out = []
            for m in new[0]:
                out.append(m)
            for m in out:
                for r in orig_send(m, randomizeFirstBlock, update_hashes):
                    yield r
            return
        for r in orig_send(msg, randomizeFirstBlock, update_hashes):
            yield r
    peer._sendMsg = send_wrapper
    orig_queue = peer._queue_message

    def queue_wrapper(msg):
        k = counter['msg']
        counter['msg'] += 1
        if collect is not None:
            try:
                collect.append(('msg', k, msg.contentType, bytes(msg.write()), case.get('phase_now', 'hs')))
            except Exception:  # noqa
                pass
        if mut is not None and case['level'] == 'msg' and k == case['target'] and not counter['applied']:
            counter['applied'] = True
            new = apply_msg_mutation(msg, mut, rng)
            counter['what'] = new[1]
            for m in new[0]:
                if m.contentType == msg.contentType:
                    orig_queue(m)
            return
        orig_queue(msg)
    peer._queue_message = queue_wrapper

    # ---- record-level deviation: tap on the PEER's socket (after protection)
    recbuf = bytearray()

    def tap(name, chunk):
        if collect is None and (mut is None or case['level'] != 'rec'):
            return chunk
        recbuf.extend(chunk)
        out = bytearray()
        while len(recbuf) >= 5:
            ln = (recbuf[3] << 8) | recbuf[4]
            if recbuf[0] & 0x80 and counter['rec'] == 0 and recbuf[0] not in (20, 21, 22, 23, 24):
                ln = ((recbuf[0] & 0x7f) << 8 | recbuf[1]) - 3
            if len(recbuf) < 5 + ln:
                break
            rec = bytes(recbuf[:5 + ln])
            del recbuf[:5 + ln]
            k = counter['rec']
            counter['rec'] += 1
            if collect is not None:
                collect.append(('rec', k, rec[0], rec, case.get('phase_now', 'hs')))
            if mut is not None and case['level'] == 'rec' and k == case['target'] and not counter['applied']:
                counter['applied'] = True
                new, what = apply_rec_mutation(rec, mut, rng)
                counter['what'] = what
                out += new
            else:
                out += rec
        return bytes(out)
    peer_sock.tap = tap

    # ---- generators
    if eut_is_server:
        eut_hs = pair.server.handshakeServerAsync(**skw)
        kind = fl['client_kind']
        if kind == 'cert':
            peer_hs = pair.client.handshakeClientCert(async_=True, **ckw)
        elif kind == 'anon':
            peer_hs = pair.client.handshakeClientAnonymous(async_=True, **ckw)
        else:
            peer_hs = pair.client.handshakeClientSRP(async_=True, **ckw)
    else:
        peer_hs = pair.server.handshakeServerAsync(**skw)
        kind = fl['client_kind']
        if kind == 'cert':
            eut_hs = pair.client.handshakeClientCert(async_=True, **ckw)
        elif kind == 'anon':
            eut_hs = pair.client.handshakeClientAnonymous(async_=True, **ckw)
        else:
            eut_hs = pair.client.handshakeClientSRP(async_=True, **ckw)

    meter = Meter(mem)
    socks = (pair.csock, pair.ssock)
    _PROGRESS[0] = lambda: (len(pair.csock.sent_log), len(pair.csock.inbuf), len(pair.ssock.sent_log), len(pair.ssock.inbuf))
    closed_peer = [False]

    def on_idle():
        # the peer has nothing more to say: it gives up and closes its socket; the EUT must end
        if not closed_peer[0]:
            closed_peer[0] = True
            peer_sock.close()
            return True
        return False

    if mut is not None and mut[0] == 'cert-bomb':
        bomb_payload(mut[1])
    if mem:
        tracemalloc.start()
        tracemalloc.reset_peak()
        base_mem = tracemalloc.get_traced_memory()[0]
    results = {}
    try:
        case['phase_now'] = 'hs'
        r_eut, r_peer = drive2([meter.wrap(eut_hs), peer_hs], socks, on_idle=on_idle)
        if r_eut[0] == 'exc' and isinstance(r_eut[1], tlserr.TLSLocalAlert) and r_peer[0] == 'ok':
            # the peer's own call had already returned: let it read, so that it sees (or does not see) the alert
            def peer_read():
                for v in peer.readAsync(max=16, min=1):
                    if v in (0, 1) and not isinstance(v, (bytes, bytearray)):
                        yield v
                    else:
                        return
            r_peer = drive2([peer_read()], socks, on_idle=on_idle)[0]
        results['hs'] = (r_eut, r_peer)
        phase_done = 'hs'
        if r_eut[0] == 'ok' and r_peer[0] == 'ok' and case['phase'] == 'post':
            case['phase_now'] = 'post'
            # post-handshake: the peer writes (application data; TLS 1.3 servers also send tickets),
            # optionally something odd, then closes; the EUT reads until the connection ends
            payload = bytes(rng.randrange(256) for _ in range(300))
            extra = case.get('post_extra') or fl.get('post')

            def peer_post():
                for r in peer.writeAsync(payload):
                    yield r
                if extra == 'pha-request':
                    if not eut_is_server:
                        for r in peer.request_post_handshake_auth():
                            yield r
                elif extra is not None:
                    for m in extra_messages(extra, peer, rng):
                        for r in peer._sendMsg(m):
                            yield r
                for r in peer.writeAsync(payload[:50]):
                    yield r
                for r in peer.closeAsync():
                    yield r

            def eut_post():
                got = 0
                while True:
                    v = None
                    for v in eut.readAsync(max=4096, min=1):
                        if v in (0, 1) and not isinstance(v, (bytes, bytearray)):
                            yield v
                        else:
                            break
                    if isinstance(v, (bytes, bytearray)):
                        got += len(v)
                        if len(v) == 0:
                            return
                    else:
                        return
            closed_peer[0] = False
            r_eut, r_peer = drive2([meter.wrap(eut_post()), peer_post()], socks, on_idle=on_idle)
            results['post'] = (r_eut, r_peer)
            phase_done = 'post'
            if r_eut[0] == 'ok' and not eut.closed:
                rc = drive2([meter.wrap(eut.closeAsync())], socks, on_idle=on_idle)[0]
                results['close'] = (rc, None)
                if rc[0] != 'ok':
                    r_eut = rc
    finally:
        if mem:
            cur, peak = tracemalloc.get_traced_memory()
            tracemalloc.stop()
            meter.peak = max(0, peak - base_mem)
    r_eut, r_peer = results[phase_done]
    if 'close' in results and results['close'][0][0] != 'ok':
        r_eut = results['close'][0]
    cls = loop.classify(r_eut)
    pcls = loop.classify(r_peer) if r_peer is not None else None
    bytes_in = sum(len(c) for c in peer_sock.sent_log)
    out = dict(outcome=cls, peer=pcls, applied=counter['applied'], what=counter['what'], bytes_in=bytes_in,
               calls=meter.calls, peak=meter.peak, closed=bool(eut.closed),
               resumable=bool(eut.session is not None and eut.session.resumable),
               n_msgs=counter['msg'], n_recs=counter['rec'], problems=[])
    exc = r_eut[1] if r_eut[0] == 'exc' else None
    if exc is not None:
        fn, line = innermost_tlslite_frame(exc)
        out['site'] = (fn, line)
    # ---- oracle
    P = out['problems']
    if cls[0] == 'Other':
        P.append((crash_key(exc),
                  'undocumented exception %s: %s (in %s: `%s`)' % (cls[1], cls[2], out['site'][0], out['site'][1])))
    elif cls[0] == 'Deadlock':
        P.append(('hang:%s' % fl['name'], 'call does not end after the peer closed its socket (%s)' % cls[1]))
    elif cls[0] != 'ok':
        if not eut.closed:
            P.append(('not-closed:%s:%s' % (type(exc).__name__, out['site'][0]),
                      'connection not closed after %s' % type(exc).__name__))
        # `closed` is True during the whole handshake anyway: what _shutdown really changes in a failing handshake
        # is the socket (when closeSocket, the default) and the record layer
        out['sock_closed'] = bool(eut_sock.closed)
        if eut.closeSocket and not eut_sock.closed and isinstance(exc, (tlserr.TLSError, tlserr.TLSProtocolException)):
            P.append(('socket-open:%s:%s' % (type(exc).__name__, out['site'][0]),
                      'the call failed with %s but the socket was not closed (closeSocket=True): no _shutdown'
                      % type(exc).__name__))
        # bytes the endpoint queued but never handed to its socket (BufferedSocket write queue; observation only)
        queued = 0
        try:
            queued = sum(len(x) for x in eut.sock._write_queue)
        except Exception:  # noqa
            pass
        out['queued'] = queued
        if isinstance(exc, tlserr.TLSLocalAlert):
            d = int(exc.description)
            seen_by_peer = bool(pcls and pcls[0] == 'RemoteAlert' and pcls[1] == d)
            on_wire = fatal_alert_in_plaintext(eut_sock.sent_log) == d
            if queued:
                P.append(('alert-not-transmitted:%s' % out['site'][0],
                          'TLSLocalAlert %d raised but %d bytes (the alert) are still in the write queue of the socket '
                          'wrapper and were never written (closeSocket=%s)' % (d, queued, eut.closeSocket)))
            elif not seen_by_peer and not on_wire and pcls and pcls[0] in ('AbruptClose', 'Deadlock', 'Closed'):
                P.append(('alert-not-received:%s' % out['site'][0],
                          'TLSLocalAlert %d raised but the peer, which was waiting for input, saw %r instead of the alert'
                          % (d, pcls)))
        orderly = isinstance(exc, tlserr.TLSRemoteAlert) and int(exc.description) == 0
        # (the peer's close_notify is an orderly closure, not a failure: the session stays resumable by design,
        #  see hole_close_notify_keeps_resumable in Props/C08.v)
        if out['resumable'] and not orderly:
            P.append(('resumable:%s:%s' % (type(exc).__name__, out['site'][0]),
                      'session still resumable after %s' % type(exc).__name__))
        violation = isinstance(exc, tlserr.TLSError) and not isinstance(
            exc, (tlserr.TLSRemoteAlert, tlserr.TLSAbruptCloseError, tlserr.TLSClosedConnectionError))
        if violation:
            sent = None
            if isinstance(exc, tlserr.TLSLocalAlert):
                sent = int(exc.description)
                # cross-check with what is observable from outside
                seen = pcls[1] if pcls and pcls[0] == 'RemoteAlert' else fatal_alert_in_plaintext(eut_sock.sent_log)
                if seen is not None and seen != sent:
                    P.append(('alert-mismatch:%s' % out['site'][0], 'raised TLSLocalAlert %d but wrote alert %r' % (sent, seen)))
            else:
                if pcls and pcls[0] == 'RemoteAlert':
                    sent = pcls[1]
                else:
                    sent = fatal_alert_in_plaintext(eut_sock.sent_log)
            if sent is None:
                P.append(('no-alert:%s:%s:%s' % (type(exc).__name__, out['site'][0], _norm(out['site'][1])),
                          'protocol violation reported as %s without a fatal alert on the wire (raised in %s: `%s`)'
                          % (type(exc).__name__, out['site'][0], out['site'][1])))
    return out


def context_function(exc):
    """the protocol-level function in which the failure surfaced: innermost frame that lives in tlsconnection.py or
    tlsrecordlayer.py (so that the same helper failing under the TLS 1.3 client and under the TLS 1.2 server are
    different findings)"""
    for filename, name, line in reversed(_frames(exc)):
        if filename.endswith(('tlslite/tlsconnection.py', 'tlslite/tlsrecordlayer.py')):
            return name
    return None


def crash_key(exc):
    """stable key of an undocumented exception: class, context function > function that raised, source line"""
    fn, line = innermost_tlslite_frame(exc)
    ctx = context_function(exc)
    where = fn if (ctx is None or ctx == fn) else '%s>%s' % (ctx, fn)
    return 'crash:%s:%s:%s' % (type(exc).__name__, where, _norm(line))


def hang_frame(exc):
    """where a spinning call spins: the innermost tlslite frame that is not one of the Parser
    primitives (the loop is in their caller)"""
    for filename, name, line in reversed(_frames(exc)):
        if '/tlslite/' in filename and not filename.endswith('utils/codec.py'):
            return name, line
    return innermost_tlslite_frame(exc)


def _norm(s):
    import re
    return re.sub(r'[^A-Za-z0-9_.\[\]()]+', ' ', s)[:70].strip()


# ------------------------------------------------------------------------------------------
# mutations
def u16(n):
    return bytes([(n >> 8) & 255, n & 255])


def u24(n):
    return bytes([(n >> 16) & 255, (n >> 8) & 255, n & 255])


def hs_wrap(t, body):
    return bytes([t]) + u24(len(body)) + bytes(body)


def find_ext_block(t, body):
    """(start, end) of the extensions vector (incl. its 2-byte length) inside a handshake body,
    for the message types that have one at a position we can compute; else None."""
    try:
        if t == 1:          # ClientHello
            i = 2 + 32
            i += 1 + body[i]
            i += 2 + ((body[i] << 8) | body[i + 1])
            i += 1 + body[i]
        elif t == 2:        # ServerHello / HRR
            i = 2 + 32
            i += 1 + body[i]
            i += 3
        elif t == 8:        # EncryptedExtensions
            i = 0
        elif t == 13 and len(body) > 2 and body[0] <= 32:   # TLS 1.3 CertificateRequest (context, extensions)
            i = 1 + body[0]
        elif t == 4:        # NewSessionTicket (1.3): lifetime, age_add, nonce, ticket, extensions
            i = 8
            i += 1 + body[i]
            i += 2 + ((body[i] << 8) | body[i + 1])
        else:
            return None
        if i == len(body):
            return (i, i)
        n = (body[i] << 8) | body[i + 1]
        if i + 2 + n != len(body):
            return None
        return (i, len(body))
    except IndexError:
        return None


def split_exts(block):
    exts = []
    i = 2
    while i + 4 <= len(block):
        t = (block[i] << 8) | block[i + 1]
        n = (block[i + 2] << 8) | block[i + 3]
        exts.append((t, bytes(block[i + 4:i + 4 + n])))
        i += 4 + n
    return exts


def join_exts(exts):
    b = b''.join(u16(t) + u16(len(d)) + d for t, d in exts)
    return u16(len(b)) + b


KNOWN_EXT_TYPES = [0, 1, 5, 10, 11, 12, 13, 15, 16, 18, 19, 20, 21, 22, 23, 27, 28, 34, 35, 40, 41, 42, 43, 44, 45,
                   47, 48, 49, 50, 51, 13172, 0xff01, 0xfafa]

EXT_MUTS = ['empty', 'emptyvec2', 'emptyvec1', 'trunc1', 'truncN', 'dup', 'dup-all', 'hugelen', 'innerlen0', 'innerlenmax', 'unknown', 'add-known-empty',
            'add-known-junk', 'drop', 'swap-last', 'junk-body', 'append-junk', 'retype', 'zero-fill', 'ff-fill']
GEN_MUTS = ['trunc', 'trunc-fix', 'extend', 'extend-fix', 'int0', 'intmax', 'intinc', 'intdec', 'flip', 'zero-body',
            'empty-body', 'retype-hs', 'dup-msg', 'len-lie-short', 'len-lie-long', 'split-junk']
REC_MUTS = ['zero-len', 'oversize', 'oversize-max', 'bad-type', 'bad-version', 'flip-bit', 'trunc-eof', 'dup-rec', 'sslv2-hdr',
            'drop-rec', 'junk-rec', 'alert-rec', 'ccs-rec', 'appdata-early', 'hb-rec']
POST_EXTRA = ['hello-request', 'client-hello', 'keyupdate-bad', 'keyupdate-req', 'nst-junk', 'finished-junk', 'hb-request',
              'hb-response', 'hb-bad-len', 'alert-warning', 'alert-unknown', 'ccs', 'empty-appdata', 'cert-request',
              'unknown-hs', 'huge-hs-len', 'zero-hs']


_BOMBS = {}


def bomb_payload(n_mb):
    """zlib stream of n_mb MiB of zeros; built (and cached) OUTSIDE the measured window so that the
    harness's own allocation is not attributed to the endpoint under test"""
    if n_mb not in _BOMBS:
        import zlib
        _BOMBS[n_mb] = zlib.compress(bytes(n_mb * 1024 * 1024), 9)
    return _BOMBS[n_mb]


def apply_msg_mutation(msg, mut, rng):
    """Returns ([replacement messages], description)."""
    name = mut[0]
    ct = msg.contentType
    data = bytes(msg.write())
    if name == 'cert-bomb' and ct == 22 and len(data) >= 4:
        # CompressedCertificate declaring a tiny uncompressed length over a highly compressible body
        n_mb, declared = mut[1], mut[2]
        comp = bomb_payload(n_mb)
        body = u16(1) + u24(declared) + u24(len(comp)) + comp
        return [RawMsg(22, hs_wrap(25, body))], 'hs25:cert-bomb(%dMB->%dB,declared=%d)' % (n_mb, len(comp), declared)
    if name == 'inject-alert':
        # a (properly protected) alert with an arbitrary level / description just before the peer's next message
        return [RawMsg(21, bytes([mut[1], mut[2]])), RawMsg(ct, data)], '%s:inject-alert(%d,%d)' % (
            ('hs%d' % data[0]) if ct == 22 and data else 'ct%d' % ct, mut[1], mut[2])
    if name == 'cert-der' and ct == 22 and len(data) >= 4 and data[0] == 11:
        # the (first) certificate of a Certificate message replaced by the given DER
        der = bytes.fromhex(mut[1])
        if mut[2]:      # TLS 1.3: context, list of (cert, extensions)
            ctxlen = data[4]
            body = bytes(data[4:5 + ctxlen]) + u24(len(der) + 5) + u24(len(der)) + der + b'\x00\x00'
        else:
            body = u24(len(der) + 3) + u24(len(der)) + der
        return [RawMsg(22, hs_wrap(11, body))], 'hs11:cert-der:%s' % mut[3]
    if name == 'set-sigalg' and ct == 22 and len(data) >= 6 and data[0] in (12, 15):
        # the SignatureAndHashAlgorithm / SignatureScheme field of a CertificateVerify or (TLS 1.2) ServerKeyExchange
        body = bytearray(data[4:])
        off = None
        if data[0] == 15:
            off = 0
        elif body[0] == 3 and len(body) > 4:                       # ECDHE: curve_type, named_curve, point
            off = 4 + body[3]
        else:                                                      # DHE / SRP-less: three 2-byte-length integers
            o = 0
            try:
                for _ in range(3):
                    o += 2 + ((body[o] << 8) | body[o + 1])
                off = o
            except IndexError:
                off = None
        if off is not None and off + 2 <= len(body):
            old = bytes(body[off:off + 2]).hex()
            body[off:off + 2] = bytes.fromhex(mut[1])
            return [RawMsg(22, hs_wrap(data[0], body))], 'hs%d:set-sigalg:%s->%s' % (data[0], old, mut[1])
        return [RawMsg(22, bytes(data))], 'hs%d:set-sigalg:none' % data[0]
    if name == 'set-ext' and ct == 22 and len(data) >= 4:
        # extension mut[1] of a hello carries a chosen string (c08_strings.field_body): replaced in place, else appended
        import c08_strings
        ebody, shown = c08_strings.field_body(mut[2], mut[3], mut[4], mut[5])
        t, body = data[0], data[4:]
        blk = find_ext_block(t, body)
        desc = 'hs%d:set-ext%d:%s:%r*+%r,len=%d' % (t, mut[1], mut[2], mut[3], mut[4], mut[5])
        if blk is None:
            return [RawMsg(22, bytes(data))], desc + ':none'
        a, b = blk
        exts = split_exts(body[a:b]) if b > a else []
        if any(e[0] == mut[1] for e in exts):
            exts = [(e[0], ebody) if e[0] == mut[1] else e for e in exts]
        else:
            exts.append((mut[1], ebody))
        return [RawMsg(22, hs_wrap(t, body[:a] + join_exts(exts)))], desc
    if name == 'set-prefix' and ct == 22 and len(data) >= 4:
        # overwrite the first bytes of the handshake body with the given value (targeted value-level mutation)
        pre = bytes.fromhex(mut[1])
        body = bytearray(data[4:])
        body[:len(pre)] = pre
        return [RawMsg(22, hs_wrap(data[0], body))], 'hs%d:set-prefix:%s' % (data[0], mut[1])
    if name == 'ec-x-plus-p' and ct == 22 and len(data) >= 8 and data[0] in (12, 16):
        # an uncompressed EC point whose x coordinate is replaced by x + p (not reduced, still fits the field size)
        import ecdsa
        curve = getattr(ecdsa, mut[1])          # e.g. NIST521p
        p_, size = curve.curve.p(), (curve.curve.p().bit_length() + 7) // 8
        body = bytearray(data[4:])
        off = 0 if data[0] == 16 else 3
        ln = body[off]
        pt = body[off + 1:off + 1 + ln]
        if (ln == 1 + 2 * size and pt[0] == 4) or (ln == 1 + size and pt[0] in (2, 3)):
            x = int.from_bytes(pt[1:1 + size], 'big')
            y = pt[1 + size:]
            if mut[2] == 'x+p' and x + p_ < 256 ** size:
                x2 = x + p_
            else:
                x2 = p_
            body[off + 1:off + 1 + ln] = bytes([pt[0]]) + x2.to_bytes(size, 'big') + bytes(y)
            return [RawMsg(22, hs_wrap(data[0], body))], 'hs%d:ec-point-%s' % (data[0], mut[2])
        return [RawMsg(22, bytes(data))], 'hs%d:ec-point-none' % data[0]
    if ct != 22 or len(data) < 4:
        # non-handshake message (CCS, alert, application data, heartbeat): byte-level only
        return byte_level(ct, data, name, rng)
    t, body = data[0], data[4:]
    if name.startswith('x:'):       # extension-level
        blk = find_ext_block(t, body)
        if blk is not None and blk[1] > blk[0]:
            a, b = blk
            exts = split_exts(body[a:b])
            new_exts, what = mutate_exts(exts, name[2:], rng, mut[1] if len(mut) > 1 and isinstance(mut[1], int) else None)
            if isinstance(new_exts, bytes):
                nb = body[:a] + new_exts
            else:
                nb = body[:a] + join_exts(new_exts)
            return [RawMsg(22, hs_wrap(t, nb))], 'hs%d:%s' % (t, what)
        if blk is not None and name[2:] in ('add-known-empty', 'add-known-junk', 'unknown'):
            new_exts, what = mutate_exts([], name[2:], rng)
            return [RawMsg(22, hs_wrap(t, body + join_exts(new_exts)))], 'hs%d:%s' % (t, what)
        name = rng.choice(GEN_MUTS)
    return byte_level(ct, data, name, rng)


def mutate_exts(exts, name, rng, index=None):
    exts = list(exts)
    i = rng.randrange(len(exts)) if exts else 0
    if index is not None and exts:
        i = index % len(exts)
    t = exts[i][0] if exts else 0
    if name == 'empty' and exts:
        exts[i] = (t, b'')
    elif name.startswith('body=') and exts:
        exts[i] = (t, bytes.fromhex(name[5:]))      # a chosen, structurally valid body (value-level mutation)
        name = 'body'
    elif name == 'emptyvec2' and exts:
        exts[i] = (t, b'\x00\x00')          # present, but its (2-byte length) vector is empty
    elif name == 'emptyvec1' and exts:
        exts[i] = (t, b'\x00')              # present, but its (1-byte length) vector is empty
    elif name == 'trunc1' and exts and exts[i][1]:
        exts[i] = (t, exts[i][1][:-1])
    elif name == 'truncN' and exts and exts[i][1]:
        exts[i] = (t, exts[i][1][:rng.randrange(len(exts[i][1]))])
    elif name == 'dup' and exts:
        exts.insert(rng.randrange(len(exts) + 1), exts[i])
    elif name == 'dup-all':
        exts = exts + exts
    elif name == 'hugelen' and exts:
        # declared extension length larger than what follows (block length kept consistent or not)
        raw = join_exts(exts)
        pos = 2
        for k in range(i):
            pos += 4 + len(exts[k][1])
        raw = bytearray(raw)
        raw[pos + 2:pos + 4] = u16(rng.choice([0xffff, len(exts[i][1]) + 1, 0x4000]))
        return bytes(raw), 'ext%d:hugelen' % t
    elif name == 'innerlen0' and exts and len(exts[i][1]) >= 2:
        d = bytearray(exts[i][1])
        d[0:2] = b'\x00\x00'
        exts[i] = (t, bytes(d))
    elif name == 'innerlenmax' and exts and len(exts[i][1]) >= 2:
        d = bytearray(exts[i][1])
        d[0:2] = b'\xff\xff'
        exts[i] = (t, bytes(d))
    elif name == 'unknown':
        exts.insert(rng.randrange(len(exts) + 1), (rng.choice([0xfafa, 0x1234, 65535, 2, 3, 4]),
                                                   bytes(rng.randrange(256) for _ in range(rng.choice([0, 1, 7, 300])))))
    elif name == 'add-known-empty':
        t2 = rng.choice(KNOWN_EXT_TYPES)
        exts.insert(rng.randrange(len(exts) + 1), (t2, b''))
        t = t2
    elif name == 'add-known-junk':
        t2 = rng.choice(KNOWN_EXT_TYPES)
        exts.insert(rng.randrange(len(exts) + 1), (t2, bytes(rng.randrange(256) for _ in range(rng.choice([1, 2, 3, 4, 9, 40])))))
        t = t2
    elif name == 'drop' and exts:
        del exts[i]
    elif name == 'swap-last' and len(exts) > 1:
        exts[i], exts[-1] = exts[-1], exts[i]
    elif name == 'junk-body' and exts:
        exts[i] = (t, bytes(rng.randrange(256) for _ in range(max(1, len(exts[i][1])))))
    elif name == 'append-junk' and exts:
        exts[i] = (t, exts[i][1] + bytes(rng.randrange(256) for _ in range(rng.choice([1, 2, 5]))))
    elif name == 'retype' and exts:
        t2 = rng.choice(KNOWN_EXT_TYPES)
        exts[i] = (t2, exts[i][1])
        t = '%d->%d' % (t, t2)
    elif name == 'zero-fill' and exts:
        exts[i] = (t, bytes(len(exts[i][1])))
    elif name == 'ff-fill' and exts:
        exts[i] = (t, b'\xff' * len(exts[i][1]))
    else:
        exts.append((0xfafa, b''))
        name = 'unknown'
    return exts, 'ext%s:%s' % (t, name)


def byte_level(ct, data, name, rng):
    d = bytearray(data)
    n = len(d)
    hs = ct == 22 and n >= 4
    t = d[0] if hs else None
    body = d[4:] if hs else d

    def out(b, what):
        if hs:
            return [RawMsg(22, hs_wrap(t, b))], 'hs%d:%s' % (t, what)
        return [RawMsg(ct, bytes(b))], 'ct%d:%s' % (ct, what)
    if name == 'trunc-fix' and len(body) > 0:
        return out(body[:rng.randrange(len(body))], 'trunc-fix')
    if name == 'trunc' and len(body) > 0:
        k = rng.randrange(len(body))
        if hs:
            return [RawMsg(22, bytes(d[:4 + k]))], 'hs%d:trunc' % t
        return out(body[:k], 'trunc')
    if name == 'extend-fix':
        return out(body + bytes(rng.randrange(256) for _ in range(rng.choice([1, 2, 3, 100]))), 'extend-fix')
    if name == 'extend' and hs:
        return [RawMsg(22, bytes(d) + bytes(rng.randrange(256) for _ in range(rng.choice([1, 4, 5, 60]))))], 'hs%d:extend' % t
    if name in ('int0', 'intmax', 'intinc', 'intdec') and len(body) > 0:
        w = rng.choice([1, 2, 2, 3])
        pos = rng.randrange(max(1, len(body) - w + 1))
        # bias towards the front of the message, where the structure is
        if rng.random() < 0.5:
            pos = min(pos, rng.randrange(0, min(len(body), 80)))
        old = int.from_bytes(body[pos:pos + w], 'big')
        new = {'int0': 0, 'intmax': (1 << (8 * w)) - 1, 'intinc': (old + 1) % (1 << (8 * w)),
               'intdec': (old - 1) % (1 << (8 * w))}[name]
        b2 = bytearray(body)
        b2[pos:pos + w] = new.to_bytes(w, 'big')
        return out(b2, '%s@%d/%d' % (name, pos, w))
    if name == 'flip' and len(body) > 0:
        b2 = bytearray(body)
        b2[rng.randrange(len(b2))] ^= 1 << rng.randrange(8)
        return out(b2, 'flip')
    if name == 'zero-body':
        return out(bytes(len(body)), 'zero-body')
    if name == 'empty-body':
        return out(b'', 'empty-body')
    if name == 'retype-hs' and hs:
        t2 = rng.choice([0, 1, 2, 4, 5, 8, 11, 12, 13, 14, 15, 16, 20, 22, 24, 25, 67, 254, 99])
        return [RawMsg(22, hs_wrap(t2, body))], 'hs%d->%d' % (t, t2)
    if name == 'dup-msg':
        return [RawMsg(ct, bytes(d)), RawMsg(ct, bytes(d))], ('hs%d' % t if hs else 'ct%d' % ct) + ':dup-msg'
    if name == 'len-lie-short' and hs and len(body) > 0:
        return [RawMsg(22, bytes([t]) + u24(rng.randrange(len(body))) + bytes(body))], 'hs%d:len-lie-short' % t
    if name == 'len-lie-long' and hs:
        return [RawMsg(22, bytes([t]) + u24(rng.choice([len(body) + 1, len(body) + 70000, 0xffffff])) + bytes(body))], \
            'hs%d:len-lie-long' % t
    if name == 'split-junk' and hs:
        return [RawMsg(22, bytes(d)), RawMsg(22, bytes(rng.randrange(256) for _ in range(rng.choice([1, 3, 4, 9]))))], \
            'hs%d:split-junk' % t
    b2 = bytearray(body)
    if b2:
        b2[rng.randrange(len(b2))] = rng.randrange(256)
    return out(b2, 'byte')


def apply_rec_mutation(rec, mut, rng):
    name = mut[0]
    hdr, body = bytearray(rec[:5]), bytearray(rec[5:])
    if name == 'zero-len':
        return bytes(hdr[:3]) + b'\x00\x00', 'rec%d:zero-len' % rec[0]
    if name == 'oversize':
        n = rng.choice([2 ** 14 + 1, 2 ** 14 + 257, 2 ** 14 + 2049, 20000])
        return bytes(hdr[:3]) + u16(n) + bytes(n), 'rec%d:oversize' % rec[0]
    if name == 'oversize-max':
        return bytes(hdr[:3]) + u16(65535) + bytes(65535), 'rec%d:oversize-max' % rec[0]
    if name == 'bad-type':
        t = rng.choice([0, 19, 25, 26, 99, 255, 24])
        return bytes([t]) + bytes(hdr[1:]) + bytes(body), 'rec%d:bad-type%d' % (rec[0], t)
    if name == 'bad-version':
        v = rng.choice([(0, 0), (2, 0), (3, 9), (4, 0), (255, 255)])
        return bytes([hdr[0], v[0], v[1]]) + bytes(hdr[3:]) + bytes(body), 'rec%d:bad-version' % rec[0]
    if name == 'flip-bit' and body:
        body[rng.randrange(len(body))] ^= 1 << rng.randrange(8)
        return bytes(hdr) + bytes(body), 'rec%d:flip-bit' % rec[0]
    if name == 'trunc-eof':
        k = rng.randrange(len(rec))
        return bytes(rec[:k]), 'rec%d:trunc-eof' % rec[0]
    if name == 'dup-rec':
        return bytes(rec) + bytes(rec), 'rec%d:dup-rec' % rec[0]
    if name == 'sslv2-hdr':
        n = rng.choice([3, 9, 40, 0x7fff])
        fill = bytes(rng.randrange(256) for _ in range(min(n, 200)))
        return bytes([0x80 | (n >> 8), n & 255]) + fill, 'rec%d:sslv2-hdr' % rec[0]
    if name == 'drop-rec':
        return b'', 'rec%d:drop-rec' % rec[0]
    if name == 'junk-rec':
        n = rng.choice([1, 5, 64, 1000])
        return bytes(hdr[:3]) + u16(n) + bytes(rng.randrange(256) for _ in range(n)), 'rec%d:junk-rec' % rec[0]
    if name == 'alert-rec':
        lv, ds = rng.choice([(1, 0), (2, 0), (1, 90), (2, 40), (1, 100), (3, 3), (2, 255), (1, 112)])
        pre = bytes([21]) + bytes(hdr[1:3])
        body2 = rng.choice([bytes([lv, ds]), bytes([lv]), bytes([lv, ds, 0]), b''])
        return pre + u16(len(body2)) + body2 + bytes(rec), 'rec%d:alert-rec' % rec[0]
    if name == 'ccs-rec':
        pre = bytes([20]) + bytes(hdr[1:3])
        body2 = rng.choice([b'\x01', b'\x02', b'', b'\x01\x01'])
        return pre + u16(len(body2)) + body2 + bytes(rec), 'rec%d:ccs-rec' % rec[0]
    if name == 'appdata-early':
        pre = bytes([23]) + bytes(hdr[1:3])
        n = rng.choice([0, 1, 100])
        return pre + u16(n) + bytes(n) + bytes(rec), 'rec%d:appdata-early' % rec[0]
    if name == 'hb-rec':
        pre = bytes([24]) + bytes(hdr[1:3])
        body2 = rng.choice([b'\x01\x00\x04abcd' + bytes(16), b'\x01\xff\xff', b'\x02\x00\x00' + bytes(16), b'', b'\x01'])
        return pre + u16(len(body2)) + body2 + bytes(rec), 'rec%d:hb-rec' % rec[0]
    return bytes(rec), 'rec%d:none' % rec[0]


def extra_messages(name, peer, rng):
    """Odd post-handshake messages the peer sends through its own (protected) channel."""
    tls13 = peer.version >= (3, 4)
    if name == 'hello-request':
        return [RawMsg(22, hs_wrap(0, b''))]
    if name == 'client-hello':
        return [RawMsg(22, hs_wrap(1, b'\x03\x03' + bytes(32) + b'\x00\x00\x02\x00\x2f\x01\x00'))]
    if name == 'keyupdate-bad':
        return [RawMsg(22, hs_wrap(24, bytes([rng.choice([2, 255])])))]
    if name == 'keyupdate-req':
        return [RawMsg(22, hs_wrap(24, rng.choice([b'', b'\x00\x00', b'\x01\x01'])))]
    if name == 'nst-junk':
        return [RawMsg(22, hs_wrap(4, bytes(rng.randrange(256) for _ in range(rng.choice([0, 3, 12, 40])))))]
    if name == 'finished-junk':
        return [RawMsg(22, hs_wrap(20, bytes(rng.choice([0, 12, 32, 48]))))]
    if name == 'hb-request':
        return [RawMsg(24, b'\x01\x00\x04abcd' + bytes(16))]
    if name == 'hb-response':
        return [RawMsg(24, b'\x02\x00\x04abcd' + bytes(16))]
    if name == 'hb-bad-len':
        return [RawMsg(24, rng.choice([b'\x01\xff\xff' + bytes(20), b'\x01', b'', b'\x03\x00\x00' + bytes(16), b'\x01\x00\x10abcd']))]
    if name == 'alert-warning':
        return [RawMsg(21, bytes([1, rng.choice([0, 41, 90, 100, 110, 112])]))]
    if name == 'alert-unknown':
        return [RawMsg(21, rng.choice([bytes([2, 255]), bytes([3, 0]), bytes([1]), b'', bytes([1, 0, 0])]))]
    if name == 'ccs':
        return [RawMsg(20, rng.choice([b'\x01', b'\x00', b'']))]
    if name == 'empty-appdata':
        return [RawMsg(23, b''), RawMsg(23, b''), RawMsg(23, b'')]
    if name == 'cert-request':
        return [RawMsg(22, hs_wrap(13, rng.choice([b'\x00\x00\x00', b'\x01\x01\x00\x02\x04\x01\x00\x00', b''])))]
    if name == 'unknown-hs':
        return [RawMsg(22, hs_wrap(rng.choice([3, 6, 99, 254]), bytes(rng.choice([0, 5]))))]
    if name == 'huge-hs-len':
        return [RawMsg(22, bytes([rng.choice([4, 24, 0])]) + u24(rng.choice([0xffffff, 0x010000])) + bytes(10))]
    if name == 'zero-hs':
        return [RawMsg(22, b''), RawMsg(22, b'\x00')]
    return []


# ------------------------------------------------------------------------------------------
def honest_profile(fi, role, seed, phase='post'):
    """Honest run of a flavour: the peer's messages/records (mutation points) and the baseline
    work/memory of the EUT."""
    collect = []
    case = dict(flavour=fi, role=role, phase=phase, target=None, level='msg', mut=None, seed=seed)
    r = run_case(case, mem=True, collect=collect)
    return r, collect


def bomb_cases(rng, sizes_mb):
    """compressed-certificate bombs against a client that advertised compress_certificate"""
    fi = [i for i, f in enumerate(get_flavours()) if f['name'] == 'tls13-compcert'][0]
    out = []
    for mb in sizes_mb:
        for declared in (10, 1000):
            out.append(dict(flavour=fi, role='client', seed=rng.randrange(1 << 30), level='msg', mut=('cert-bomb', mb, declared),
                            phase='hs', target=None, tsel=0.0, target_hs_type=25, mem=True))
    return out


def ecpoint_cases(rng):
    """EC points with an unreduced x coordinate (x + p, or x = p) on secp521r1 in ClientKeyExchange
    (server under test) and in the unsigned ServerKeyExchange of ECDH_anon (client under test)"""
    names = [f['name'] for f in get_flavours()]
    out = []
    for fname, role, t in (('tls12-ecdhe-p521', 'server', 16), ('anon-ecdh-p521', 'server', 16),
                           ('anon-ecdh-p521', 'client', 12)):
        for how in ('x+p', 'x=p'):
            out.append(dict(flavour=names.index(fname), role=role, seed=rng.randrange(1 << 30), level='msg',
                            mut=('ec-x-plus-p', 'NIST521p', how), phase='hs', target=None, tsel=0.0,
                            target_hs_type=t, mem=False))
    return out


SECOND_STEP = [
    # (flavour, role under test, which occurrence of which handshake type among the PEER's messages)
    ('tls13-hrr', 'server', 1, 1),      # the SECOND ClientHello (after HelloRetryRequest)
    ('tls13-hrr', 'client', 2, 0),      # the HelloRetryRequest itself
    ('tls13-hrr', 'client', 2, 1),      # the ServerHello that follows the HelloRetryRequest
    ('tls13-resume', 'server', 1, 0),   # ClientHello of the resuming (second) connection: ticket / PSK binders
    ('tls13-resume', 'client', 2, 0),   # ServerHello of the resuming connection: selected PSK
    ('tls13-psk', 'server', 1, 0),
    ('tls13-psk', 'client', 2, 0),
    ('tls12-resume', 'server', 1, 0),   # second flight of session-ID resumption
    ('tls12-resume', 'client', 2, 0),
]


def second_step_cases(rng, profiles, quick):
    """Systematic extension-level mutations of the SECOND message of multi-step exchanges: every
    extension of the message x every extension mutation (quick: the emptiness/length family only)."""
    names = [f['name'] for f in get_flavours()]
    muts = ['empty', 'emptyvec2', 'emptyvec1', 'trunc1', 'innerlen0', 'drop', 'dup', 'zero-fill', 'ff-fill'] if quick else EXT_MUTS
    out = []
    for fname, role, htype, occ in SECOND_STEP:
        fi = names.index(fname)
        base, pts = profiles[(fi, role)]
        msgs = [p for p in pts if p[0] == 'msg' and p[2] == 22 and p[3] == htype]
        if len(msgs) <= occ:
            continue
        target = msgs[occ][1]
        for m in muts:
            for idx in range(max(1, msgs[occ][5])):
                out.append(dict(flavour=fi, role=role, seed=rng.randrange(1 << 30), level='msg', mut=('x:' + m, idx),
                                phase='hs', target=target, tsel=0.0, mem=False, second_step=True,
                                close_socket=(idx % 2 == 0),
                                base=dict(calls=base.get('calls', 0), peak=base.get('peak', 0))))
    return out


def alert_cases(rng, profiles, quick):
    """Value-level mutation of the Alert message: alerts with level in {0, 3, 255} (neither warning nor fatal) and
    samples of (1, d) / (2, d), injected through the peer's protected channel before EVERY message of the peer in
    every flavour and role, during the handshake and after it; every second case runs with closeSocket=False."""
    fl = get_flavours()
    out = []
    n = 0
    for fi in range(len(fl)):
        for role in ('server', 'client'):
            base, pts = profiles.get((fi, role), ({}, []))
            msgs = [p for p in pts if p[0] == 'msg']
            if not msgs or base.get('outcome') != ('ok',):
                continue
            for p in msgs:
                if p[4] == 'post' and p[2] == 21:
                    continue
                vals = [(0, 40), (3, 40), (255, 0)]
                if not quick:
                    vals += [(0, 0), (3, 255), (128, 10), (1, 90), (1, 0), (2, 40), (2, 0), (1, 255), (2, 255), (1, 100)]
                else:
                    vals.append(rng.choice([(1, 90), (1, 0), (2, 40), (2, 0), (1, 255), (2, 255), (1, 100)]))
                for lv, ds in vals:
                    n += 1
                    out.append(dict(flavour=fi, role=role, seed=rng.randrange(1 << 30), level='msg',
                                    mut=('inject-alert', lv, ds), phase='post' if p[4] == 'post' else 'hs', target=p[1],
                                    tsel=0.0, mem=False, close_socket=(n % 2 == 0),
                                    base=dict(calls=base.get('calls', 0), peak=base.get('peak', 0))))
    return out


def _tlv(t, v):
    n = len(v)
    if n < 128:
        return bytes([t, n]) + v
    b = n.to_bytes((n.bit_length() + 7) // 8, 'big')
    return bytes([t, 0x80 | len(b)]) + b + v


def odd_certificates():
    """structurally odd X.509 DER values: (label, der)"""
    alg = _tlv(0x30, bytes.fromhex('06092a864886f70d01010b') + b'\x05\x00')
    sig = _tlv(0x03, b'\x00' + b'\x01' * 8)
    return [
        ('empty-tbs', _tlv(0x30, _tlv(0x30, b'') + alg + sig)),
        ('tbs-only-version', _tlv(0x30, _tlv(0x30, _tlv(0xa0, _tlv(0x02, b'\x02'))) + alg + sig)),
        ('no-sigalg', _tlv(0x30, _tlv(0x30, b''))),
        ('empty-seq', _tlv(0x30, b'')),
        ('empty-alg-seq', _tlv(0x30, _tlv(0x30, b'') + _tlv(0x30, b'') + sig)),
        ('not-a-seq', _tlv(0x04, b'abc')),
    ]


def cert_cases(rng, profiles):
    """odd certificates in the peer's Certificate message (server cert for a client under test, client cert for a
    server that requested one), TLS 1.2 and 1.3"""
    names = [f['name'] for f in get_flavours()]
    out = []
    for fname, role in (('tls12-ecdhe', 'client'), ('tls13-rsa', 'client'), ('tls12-clientauth', 'server'),
                        ('tls13-clientauth', 'server')):
        fi = names.index(fname)
        base, pts = profiles[(fi, role)]
        hit = [p for p in pts if p[0] == 'msg' and p[2] == 22 and p[3] == 11]
        if not hit:
            continue
        for label, der in odd_certificates():
            out.append(dict(flavour=fi, role=role, seed=rng.randrange(1 << 30), level='msg',
                            mut=('cert-der', der.hex(), fname.startswith('tls13'), label), phase='hs', target=hit[0][1],
                            tsel=0.0, mem=False, base=dict(calls=base.get('calls', 0), peak=base.get('peak', 0))))
    return out


def pha_cases(rng, profiles):
    """post-handshake CertificateRequest (TLS 1.3 PHA) with every extension mutated"""
    names = [f['name'] for f in get_flavours()]
    fi = names.index('tls13-pha')
    base, pts = profiles[(fi, 'client')]
    hit = [p for p in pts if p[0] == 'msg' and p[2] == 22 and p[3] == 13 and p[4] == 'post']
    out = []
    if not hit:
        return out
    # body=0004fefefdfd: a well-formed signature_algorithms list naming only schemes nobody implements
    for m in ('empty', 'emptyvec2', 'ff-fill', 'zero-fill', 'drop', 'trunc1', 'dup', 'innerlen0', 'body=0004fefefdfd',
              'body=00020000'):
        for idx in range(max(1, hit[0][5])):
            out.append(dict(flavour=fi, role='client', seed=rng.randrange(1 << 30), level='msg', mut=('x:' + m, idx),
                            phase='post', post_extra='pha-request', target=hit[0][1], tsel=0.0, mem=False,
                            close_socket=(idx % 2 == 0), base=dict(calls=base.get('calls', 0), peak=base.get('peak', 0))))
    return out


def sigalg_ids(quick):
    """signature algorithm identifiers a peer can put on the wire: every SignatureScheme value of tlslite, every
    (hash 1..6, signature 1..3) pair of TLS 1.2, and some that name nothing"""
    from tlslite.constants import SignatureScheme
    ids = set()
    for k, v in vars(SignatureScheme).items():
        if isinstance(v, tuple) and len(v) == 2 and all(isinstance(x, int) for x in v):
            ids.add(v)
    for h in range(1, 7):
        for sg in (1, 2, 3):
            ids.add((h, sg))
    ids |= {(0, 0), (0, 1), (8, 0x63), (0xff, 0xff), (2, 0), (4, 0), (4, 4), (8, 0)}
    ids = sorted(ids)
    if quick:
        keep = [(4, 1), (4, 3), (4, 2), (8, 4), (8, 9), (8, 7), (8, 8), (2, 1), (2, 3), (2, 2), (1, 1), (6, 3), (8, 26), (0, 0)]
        ids = [i for i in keep]
    return ids


SIGALG_TARGETS = [
    # (flavour, role under test, handshake type carrying the peer's signature algorithm)
    ('tls12-ecdhe', 'client', 12), ('tls12-ecdsa', 'client', 12), ('tls12-dhe', 'client', 12), ('tls12-dhe-dsa', 'client', 12),
    ('tls12-ecdhe-ed25519', 'client', 12), ('tls12-ecdhe-rsapss', 'client', 12),
    ('tls12-clientauth', 'server', 15), ('tls12-clientauth-ecdsa', 'server', 15), ('tls12-clientauth-ed25519', 'server', 15),
    ('tls12-clientauth-dsa', 'server', 15),
    ('tls13-rsa', 'client', 15), ('tls13-ecdsa', 'client', 15), ('tls13-ed25519', 'client', 15),
    ('tls13-clientauth', 'server', 15), ('tls13-clientauth-ecdsa', 'server', 15), ('tls13-clientauth-ed25519', 'server', 15),
]


def sigalg_cases(rng, profiles, quick):
    """cross product: every signature algorithm id x every local/peer key family x both roles x
    ServerKeyExchange / CertificateVerify (TLS 1.2) / CertificateVerify (TLS 1.3)"""
    names = [f['name'] for f in get_flavours()]
    out = []
    for fname, role, t in SIGALG_TARGETS:
        fi = names.index(fname)
        base, pts = profiles.get((fi, role), ({}, []))
        hit = [p for p in pts if p[0] == 'msg' and p[2] == 22 and p[3] == t and p[4] == 'hs']
        if not hit:
            continue
        for n, (h, sg) in enumerate(sigalg_ids(quick)):
            out.append(dict(flavour=fi, role=role, seed=rng.randrange(1 << 30), level='msg',
                            mut=('set-sigalg', '%02x%02x' % (h, sg)), phase='hs', target=hit[0][1], tsel=0.0, mem=False,
                            close_socket=(n % 2 == 0), base=dict(calls=base.get('calls', 0), peak=base.get('peak', 0))))
    return out


def cv_scheme_cases(rng, profiles):
    """server CertificateVerify (TLS 1.3) whose signature scheme is not a SignatureScheme value: hash byte
    'none' (0), unknown hash (99, 255), intrinsic hash with unknown algorithm, sha1 with unknown algorithm"""
    names = [f['name'] for f in get_flavours()]
    out = []
    for fname in ('tls13-ecdsa', 'tls13-rsa'):
        fi = names.index(fname)
        base, pts = profiles[(fi, 'client')]
        hit = [p for p in pts if p[0] == 'msg' and p[2] == 22 and p[3] == 15]
        if not hit:
            continue
        for pre in ('0003', '0001', '6303', 'ffff', '0863', '0263', '0000'):
            out.append(dict(flavour=fi, role='client', seed=rng.randrange(1 << 30), level='msg', mut=('set-prefix', pre),
                            phase='hs', target=hit[0][1], tsel=0.0, mem=False,
                            base=dict(calls=base.get('calls', 0), peak=base.get('peak', 0))))
    return out


def gen_cases(rng, n, flavour_ids=None):
    """n cases spread over flavours x roles x phases x mutation levels."""
    fl = get_flavours()
    ids = list(range(len(fl))) if flavour_ids is None else list(flavour_ids)
    cases = []
    for i in range(n):
        fi = ids[i % len(ids)]
        role = 'server' if (i // len(ids)) % 2 == 0 else 'client'
        r = rng.random()
        if r < 0.50:
            level, mut = 'msg', ('x:' + rng.choice(EXT_MUTS),) if rng.random() < 0.45 else (rng.choice(GEN_MUTS),)
        elif r < 0.72:
            level, mut = 'rec', (rng.choice(REC_MUTS),)
        else:
            level, mut = 'post', None
        case = dict(flavour=fi, role=role, seed=rng.randrange(1 << 30), level=level if level != 'post' else 'msg',
                    mut=mut, phase='hs', target=None, tsel=rng.random(), close_socket=(rng.random() < 0.5))
        if level == 'post':
            case['phase'] = 'post'
            case['post_extra'] = rng.choice(POST_EXTRA)
            if rng.random() < 0.4:
                case['mut'] = (rng.choice(GEN_MUTS),)
                case['level'] = 'msg'
                case['tsel_post'] = True
        elif rng.random() < 0.15:
            case['phase'] = 'post'
            case['tsel_post'] = rng.random() < 0.5
        cases.append(case)
    return cases


def profile_task(key):
    """(flavour index, role) -> (baseline numbers, mutation points) of the honest run"""
    fi, role = key
    try:
        t0 = time.process_time()
        r, collect = honest_profile(fi, role, 12345)
        cpu = time.process_time() - t0
        def n_ext(c):
            if c[0] != 'msg' or c[2] != 22 or len(c[3]) < 4:
                return 0
            blk = find_ext_block(c[3][0], c[3][4:])
            return len(split_exts(c[3][4:][blk[0]:blk[1]])) if blk and blk[1] > blk[0] else 0
        pts = [(c[0], c[1], c[2], (c[3][0] if c[3] else None), c[4], n_ext(c)) for c in collect]
        return key, dict(calls=r['calls'], peak=r['peak'], cpu=cpu, outcome=r['outcome'], peer=r['peer'], bytes_in=r['bytes_in'],
                         problems=r['problems']), pts
    except Exception as e:  # noqa
        return key, dict(error=traceback.format_exc()), []


def resolve_target(case, profiles):
    """Pick the concrete message/record index from the honest profile (selection value tsel in [0,1))."""
    base, pts_all = profiles[(case['flavour'], case['role'])]
    case['base'] = dict(calls=base.get('calls', 0), peak=base.get('peak', 0))
    if case['mut'] is None:
        return
    kind = 'msg' if case['level'] == 'msg' else 'rec'
    pts = [c for c in pts_all if c[0] == kind]
    if case.get('tsel_post'):
        sel = [c for c in pts if c[4] == 'post'] or pts
    elif case['phase'] == 'hs':
        sel = [c for c in pts if c[4] == 'hs'] or pts
    else:
        sel = pts
    if not sel:
        case['mut'] = None
        return
    c = sel[min(len(sel) - 1, int(case['tsel'] * len(sel)))]
    if case.get('target_hs_type') is not None:
        hit = [x for x in pts if x[2] == 22 and x[3] == case['target_hs_type']]
        if not hit:
            case['mut'] = None
            return
        c = hit[0]
    case['target'] = c[1]
    case['target_ct'] = c[2]
    case['target_t'] = c[3]


class HangTimeout(BaseException):
    """raised by the watchdog inside a call that does not come back (not an Exception, so that
    `except Exception` handlers of the code under test cannot swallow it)"""


# Watchdog.  Never wall-clock (a busy machine must not look like a hang): an interval timer on the CPU time of THIS
# process (ITIMER_VIRTUAL) ticks every HANG_TICK CPU-seconds; a tick on which the exchange has made no progress
# (no byte written to or consumed from either in-memory socket) counts; HANG_TICKS such ticks in a row = hang.
# A reported hang is first confirmed by re-running the case alone with three times the allowance.
HANG_TICK = 10
HANG_TICKS = 6
HANG_SECONDS = HANG_TICK * HANG_TICKS          # CPU seconds without progress
_PROGRESS = [None]                             # set by the running case: () -> progress signature


def with_watchdog(fn, *args, **kw):
    import signal
    budget = kw.pop('_seconds', None)            # CPU-second allowance for callers without a progress signature
    ticks = kw.pop('_ticks', None) or (HANG_TICKS if budget is None else max(1, int(budget // HANG_TICK)))
    state = {'last': None, 'still': 0}
    _PROGRESS[0] = None

    def on_tick(signum, frame):
        pf = _PROGRESS[0]
        sig = None
        if pf is not None:
            try:
                sig = pf()
            except Exception:  # noqa
                sig = None
        if sig is not None and sig != state['last']:
            state['last'] = sig
            state['still'] = 0
            return
        state['still'] += 1
        if state['still'] >= ticks:
            raise HangTimeout('no progress during %d CPU-seconds of this process' % (ticks * HANG_TICK))
    old = signal.signal(signal.SIGVTALRM, on_tick)
    signal.setitimer(signal.ITIMER_VIRTUAL, HANG_TICK, HANG_TICK)
    try:
        return fn(*args, **kw)
    finally:
        signal.setitimer(signal.ITIMER_VIRTUAL, 0)
        signal.signal(signal.SIGVTALRM, old)
        _PROGRESS[0] = None


def worker(case):
    try:
        mem = case.get('mem', False)
        try:
            t_cpu = time.process_time()
            r = with_watchdog(run_case, case, mem=mem)
        except HangTimeout:
            sys.setprofile(None)
            if tracemalloc.is_tracing():
                tracemalloc.stop()
            try:
                # confirm alone, with three times the allowance, before calling it a hang
                t_cpu = time.process_time()
                r = with_watchdog(run_case, dict(case), mem=False, _ticks=3 * HANG_TICKS)
                r.setdefault('notes', []).append('slow: first attempt exceeded the no-progress allowance, second attempt returned')
            except HangTimeout as e:
                sys.setprofile(None)
                fn, line = hang_frame(e)
                name = get_flavours()[case['flavour']]['name']
                return dict(outcome=('Hang', fn), peer=None, applied=True, what='(watchdog)', bytes_in=0, calls=0, peak=0,
                            closed=False, resumable=False, n_msgs=0, n_recs=0,
                            problems=[('hang:%s:%s' % (fn, _norm(line)),
                                       'the call did not return and moved no byte during %d CPU-seconds (confirmed by a second '
                                       'run alone with %d): spinning in %s: `%s` (flavour %s)'
                                       % (HANG_SECONDS, 3 * HANG_SECONDS, fn, line, name))],
                            case={k: v for k, v in case.items() if k != 'phase_now'})
        cpu = time.process_time() - t_cpu
        b = case['base']
        r['cpu'] = cpu
        if not mem and b.get('cpu') is not None:
            # CPU time of the whole call (work done inside C code - regular expressions, big-number arithmetic - is
            # invisible to the call count): bounded by the honest exchange of the flavour and the input length
            limit_cpu = CPU_K * b['cpu'] + CPU_C0 + CPU_C * r['bytes_in']
            if cpu > limit_cpu:
                import re as _re
                r['problems'].append(('cpu:%s:%s' % (get_flavours()[case['flavour']]['name'],
                                                     _re.sub(r'[@(,].*$', '', r['what'] or 'post:%s' % case.get('post_extra'))),
                                      '%.1f CPU-seconds for %d bytes received (limit %.1f = %d*honest(%.2f) + %.0f + %.0e*bytes)'
                                      % (cpu, r['bytes_in'], limit_cpu, CPU_K, b['cpu'], CPU_C0, CPU_C)))
        limit_calls = WORK_C * r['bytes_in'] + 2 * b['calls'] + WORK_C0
        import re
        wcls = re.sub(r'[@(].*$', '', r['what'] or ('post:%s' % case.get('post_extra')))
        if r['calls'] > limit_calls:
            r['problems'].append(('work:%s:%s' % (get_flavours()[case['flavour']]['name'], wcls),
                                  '%d calls for %d bytes received (limit %d; honest baseline %d)'
                                  % (r['calls'], r['bytes_in'], limit_calls, b['calls'])))
        if mem:
            limit_mem = MEM_C * r['bytes_in'] + 2 * b['peak'] + MEM_C0
            if r['peak'] > limit_mem:
                r['problems'].append(('mem:%s:%s' % (get_flavours()[case['flavour']]['name'], wcls),
                                      'heap peak %d bytes for %d bytes received (limit %d; honest baseline %d)'
                                      % (r['peak'], r['bytes_in'], limit_mem, b['peak'])))
        r['case'] = {k: v for k, v in case.items() if k != 'phase_now'}
        r.pop('site', None)
        return r
    except Exception as e:  # noqa
        return dict(harness_error=traceback.format_exc(), case={k: v for k, v in case.items() if k != 'phase_now'},
                    problems=[], outcome=('HarnessError', type(e).__name__))
