"""C10: deterministic exploration of thread interleavings of private-key operations on ONE key object.

The property clause "a signature made by a key verifies under its public key" must hold when several
threads use the same key object (a threaded server shares one privateKey).  Python_RSAKey keeps
mutable state (the blinding pair, _key_hash); the Coq theorem crt_blinded_correct speaks about a
SEQUENCE of atomic read-and-update operations -- whether the code makes them atomic is decided here,
by running real threads one at a time under a scheduler and enumerating the interleavings.

Scheduling points (derived from the code, not from any particular defect):
  * every LOAD_ATTR / STORE_ATTR of a *mutable attribute* of the key object, i.e. an attribute that some
    method other than __init__ assigns through `self.<name> = ...` (found by disassembling the methods of
    the key's class hierarchy: blinder, unblinder, _key_hash for Python_RSAKey; none for the DSA/ECDSA/EdDSA
    wrappers), executed in a method of the key's classes (opcode-level sys.settrace);
  * every acquisition of the key's lock (`key._lock` is replaced, on the key object handed to the code
    under test, by a cooperative lock with the same `with` protocol: a thread that finds it taken is
    descheduled until it is released).
Nothing in /repo is modified; the key object is an input of the code under test.

Exploration: stateless depth-first search over the scheduler's choices (replay of a choice prefix,
then first runnable thread), exhaustive up to `max_runs`.
"""
import dis
import sys
import threading
import types


class Abort(Exception):
    pass


def mutable_attrs(obj):
    """names assigned via self.<name> = ... in methods (not __init__) of obj's class hierarchy"""
    names = set()
    codes = set()
    for cls in type(obj).__mro__:
        if cls is object:
            continue
        for fname, f in vars(cls).items():
            if isinstance(f, (staticmethod, classmethod)):
                f = f.__func__
            if not isinstance(f, types.FunctionType):
                continue
            codes.add(f.__code__)
            if fname == '__init__':
                continue
            prev = None
            for ins in dis.get_instructions(f.__code__):
                if ins.opname == 'STORE_ATTR' and prev is not None and prev.opname.startswith('LOAD_FAST') and \
                        prev.argval == 'self':
                    names.add(ins.argval)
                prev = ins
    return names, codes


class CoopLock(object):
    """Drop-in for threading.Lock used as a context manager (and acquire/release)."""

    def __init__(self, sched):
        self.sched = sched
        self.owner = None

    def acquire(self, blocking=True, timeout=-1):
        i = self.sched.me()
        if i is None:                    # not a scheduled thread (set-up code): plain behaviour
            self.owner = 'main'
            return True
        self.sched.point(i, 'lock')
        while self.owner is not None:
            self.sched.point(i, 'lock-wait', blocked_on=self)
        self.owner = i
        return True

    def release(self):
        self.owner = None
        self.sched.unblock(self)

    def __enter__(self):
        self.acquire()
        return self

    def __exit__(self, *a):
        self.release()

    def locked(self):
        return self.owner is not None


class Run(object):
    """One execution of `thunks` (one thread each) under the choice prefix `prefix`."""

    def __init__(self, thunks, watch, codes, prefix):
        self.thunks = thunks
        self.n = len(thunks)
        self.watch, self.codes = watch, codes
        self.prefix = list(prefix)
        self.cv = threading.Condition()
        self.state = ['ready'] * self.n         # ready | running | blocked | done
        self.blocked_on = [None] * self.n
        self.current = None
        self.abort = False
        self.results = [None] * self.n
        self.idents = {}
        self.trace = []                         # (options, chosen) per decision
        self.events = []                        # (thread, what) per scheduling point reached
        self.instr = {}

    def me(self):
        return self.idents.get(threading.get_ident())

    # -- called by worker threads
    def point(self, i, what, blocked_on=None):
        with self.cv:
            self.state[i] = 'blocked' if blocked_on is not None else 'ready'
            self.blocked_on[i] = blocked_on
            self.current = None
            self.cv.notify_all()
            while self.current != i:
                self.cv.wait()
                if self.abort:
                    raise Abort()
            self.state[i] = 'running'
            self.events.append((i, what))        # logged when the step is actually taken

    def unblock(self, lock):
        for j in range(self.n):
            if self.state[j] == 'blocked' and self.blocked_on[j] is lock:
                self.state[j] = 'ready'
                self.blocked_on[j] = None

    def _instr(self, code):
        m = self.instr.get(code)
        if m is None:
            m = {ins.offset: ins for ins in dis.get_instructions(code)}
            self.instr[code] = m
        return m

    def _tracer(self, i):
        def local(frame, event, arg):
            if event == 'opcode':
                ins = self._instr(frame.f_code).get(frame.f_lasti)
                if ins is not None and ins.opname in ('LOAD_ATTR', 'STORE_ATTR') and ins.argval in self.watch:
                    self.point(i, '%s %s@%s:%d' % ('read' if ins.opname == 'LOAD_ATTR' else 'write', ins.argval,
                                                  frame.f_code.co_name, frame.f_lineno))
            return local

        def glob(frame, event, arg):
            if event == 'call' and frame.f_code in self.codes:
                frame.f_trace_opcodes = True
                frame.f_trace_lines = False
                return local
            return None
        return glob

    def _worker(self, i):
        self.idents[threading.get_ident()] = i
        try:
            with self.cv:
                while self.current != i:
                    self.cv.wait()
                    if self.abort:
                        raise Abort()
                self.state[i] = 'running'
            sys.settrace(self._tracer(i))
            try:
                self.results[i] = ('ok', self.thunks[i]())
            finally:
                sys.settrace(None)
        except Abort:
            self.results[i] = ('abort', None)
        except BaseException as e:  # noqa
            self.results[i] = ('exc', '%s: %s' % (type(e).__name__, e))
        finally:
            with self.cv:
                self.state[i] = 'done'
                if self.current == i:
                    self.current = None
                self.cv.notify_all()

    def go(self):
        ths = [threading.Thread(target=self._worker, args=(i,), daemon=True) for i in range(self.n)]
        for t in ths:
            t.start()
        deadlock = False
        with self.cv:
            while True:
                while self.current is not None:
                    self.cv.wait(30)
                runnable = [i for i in range(self.n) if self.state[i] == 'ready']
                if not runnable:
                    if any(s != 'done' for s in self.state):
                        deadlock = True
                        self.abort = True
                        self.current = -1
                        self.cv.notify_all()
                    break
                k = len(self.trace)
                pick = self.prefix[k] if k < len(self.prefix) and self.prefix[k] in runnable else runnable[0]
                self.trace.append((tuple(runnable), pick))
                self.current = pick
                self.cv.notify_all()
        for t in ths:
            t.join(30)
        return self.results, self.trace, deadlock


def prime(make_case):
    """One discarded execution: CPython (3.12, sys.monitoring) instruments a code object for per-opcode
    events only after it has first been traced, so the very first traced call misses its first events;
    priming makes exploration and replay see the same scheduling points."""
    key, thunks, judge = make_case()
    watch, codes = mutable_attrs(key)
    run = Run(thunks, watch, codes, [])
    if hasattr(key, '_lock'):
        key._lock = CoopLock(run)
    run.go()


def explore(make_case, max_runs=4000):
    """make_case() -> (key_object_to_instrument, thunks, judge) with judge(results) -> None | str.
    Enumerates interleavings depth-first.  Returns dict(runs, complete, failure)."""
    prime(make_case)
    prefix = []
    runs = 0
    max_points = 0
    while True:
        key, thunks, judge = make_case()
        watch, codes = mutable_attrs(key)
        run = Run(thunks, watch, codes, prefix)
        if hasattr(key, '_lock'):
            key._lock = CoopLock(run)
        results, trace, deadlock = run.go()
        runs += 1
        max_points = max(max_points, len(trace))
        why = 'deadlock: threads blocked forever' if deadlock else judge(results)
        if why:
            return dict(runs=runs, complete=False, failure=why, schedule=[c for _, c in trace],
                        events=['T%d %s' % e for e in run.events][:60], results=[str(r)[:160] for r in results],
                        watch=sorted(watch), points=max_points)
        # next schedule: backtrack to the last decision with an untried alternative
        k = len(trace) - 1
        nxt = None
        while k >= 0:
            opts, c = trace[k]
            later = [o for o in opts if o > c]
            if later:
                nxt = [cc for _, cc in trace[:k]] + [later[0]]
                break
            k -= 1
        if nxt is None:
            return dict(runs=runs, complete=True, failure=None, watch=sorted(watch), points=max_points)
        if runs >= max_runs:
            return dict(runs=runs, complete=False, failure=None, watch=sorted(watch), points=max_points)
        prefix = nxt


def run_schedule(make_case, schedule):
    """replay one schedule; returns the judge's verdict"""
    prime(make_case)
    key, thunks, judge = make_case()
    watch, codes = mutable_attrs(key)
    run = Run(thunks, watch, codes, schedule)
    if hasattr(key, '_lock'):
        key._lock = CoopLock(run)
    results, trace, deadlock = run.go()
    return 'deadlock' if deadlock else judge(results), ['T%d %s' % e for e in run.events]
