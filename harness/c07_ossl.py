"""C07 helpers: an in-process OpenSSL endpoint (stdlib ssl, MemoryBIO) pumped against a tlslite-ng
TLSConnection over loop.MemSock; configuration cases; the abstract configurations handed to the
Coq spec."""
import os
import ssl
import sys
import warnings

import vlib
import loop
import c03_util as U

warnings.filterwarnings('ignore', category=DeprecationWarning)

TESTS = loop.TESTS
VER = {1: ssl.TLSVersion.TLSv1, 2: ssl.TLSVersion.TLSv1_1, 3: ssl.TLSVersion.TLSv1_2, 4: ssl.TLSVersion.TLSv1_3}
VERNAME = {'TLSv1': 1, 'TLSv1.1': 2, 'TLSv1.2': 3, 'TLSv1.3': 4, 'SSLv3': 0}
# tlslite group name -> name accepted by SSLContext.set_ecdh_curve
CURVES = {'secp256r1': 'prime256v1', 'secp384r1': 'secp384r1', 'secp521r1': 'secp521r1', 'x25519': 'X25519',
          'x448': 'X448', 'brainpoolP256r1': 'brainpoolP256r1', 'brainpoolP384r1': 'brainpoolP384r1',
          'brainpoolP512r1': 'brainpoolP512r1'}
KEYS = {  # server key type -> (cert, key, auth class)
    'rsa': ('serverX509Cert.pem', 'serverX509Key.pem', 'rsa'),
    'rsapss': ('serverRSAPSSCert.pem', 'serverRSAPSSKey.pem', 'rsa'),
    'ecdsa': ('serverECCert.pem', 'serverECKey.pem', 'ecdsa'),
    'ecdsa384': ('serverP384ECCert.pem', 'serverP384ECKey.pem', 'ecdsa'),
    'ecdsa521': ('serverP521ECCert.pem', 'serverP521ECKey.pem', 'ecdsa'),
    'ed25519': ('serverEd25519Cert.pem', 'serverEd25519Key.pem', 'ecdsa'),
    'ed448': ('serverEd448Cert.pem', 'serverEd448Key.pem', 'ecdsa'),
    'dsa': ('serverDSACert.pem', 'serverDSAKey.pem', 'dsa'),
}
CLIENT_KEYS = {'client-rsa': ('clientX509Cert.pem', 'clientX509Key.pem'),
               'client-ecdsa': ('clientECCert.pem', 'clientECKey.pem'),
               'client-ed25519': ('clientEd25519Cert.pem', 'clientEd25519Key.pem'),
               'client-dsa': ('clientDSACert.pem', 'clientDSAKey.pem'),
               'rsa': ('serverX509Cert.pem', 'serverX509Key.pem'),
               'rsapss': ('serverRSAPSSCert.pem', 'serverRSAPSSKey.pem'),
               'ecdsa384': ('serverP384ECCert.pem', 'serverP384ECKey.pem'),
               'ecdsa521': ('serverP521ECCert.pem', 'serverP521ECKey.pem'),
               'ed448': ('serverEd448Cert.pem', 'serverEd448Key.pem')}
PAYLOADS = [0, 1, 2 ** 14, 2 ** 14 + 1, 50000]

# A fixed 1032-bit safe-prime DH group (generated once with `openssl dhparam 1032`): its prime is 129 bytes
# long, so the TLS <= 1.1 premaster secret has ODD byte length (RFC 2246 5: the two PRF halves share an octet)
DH1032_PEM = '''-----BEGIN DH PARAMETERS-----
MIGIAoGCAIudBTsVp9pnU8kUYZSrt4kC24o3wH04s7vqWWW2cl91ZBElm77y/yK/
0LqSsf4Xsfo7mlR+CBPSKMwyJmUbX7jeZaRM34R7dT8fEEfZoN5tMPzamSnXmxnv
PwVOYxWF6+RPoRclcusjLpOHxMtqKAo7WdE7wXl6b2dl7ejxLXXL3wIBAg==
-----END DH PARAMETERS-----
'''
DH1032_P = int('8b9d053b15a7da6753c9146194abb78902db8a37c07d38b3bbea5965b6725f756411259bbef2ff22bfd0ba92b1fe17b1fa3b9a547e'
               '0813d228cc3226651b5fb8de65a44cdf847b753f1f1047d9a0de6d30fcda9929d79b19ef3f054e631585ebe44fa1172572eb232e93'
               '87c4cb6a280a3b59d13bc1797a6f6765ede8f12d75cbdf', 16)
# A 1025-bit group whose prime is the first prime above 2**1024 (2**1024 + 0x283, 129 bytes, top byte 0x01): the
# shared secret Z = Y^x mod p is below 2**1024 with probability 1 - 2**-1014, i.e. it (practically) always has a
# leading zero byte that RFC 5246 8.1.2 requires to be stripped before it is used as the premaster secret.
# (p is prime but not a safe prime; neither stack checks that in the handshake.)
DHLZ_P = 2 ** 1024 + 0x283
DHLZ_PEM = '''-----BEGIN DH PARAMETERS-----
MIGHAoGBAQAAAAAAAAAAAAAAAAAAAAAAAAAAAAAAAAAAAAAAAAAAAAAAAAAAAAAA
AAAAAAAAAAAAAAAAAAAAAAAAAAAAAAAAAAAAAAAAAAAAAAAAAAAAAAAAAAAAAAAA
AAAAAAAAAAAAAAAAAAAAAAAAAAAAAAAAAAAAAAAAAAAAAAAAAAKDAgEC
-----END DH PARAMETERS-----
'''
DH_FIXED = {'odd1032': ('dh1032-fixed.pem', DH1032_PEM, DH1032_P), 'lz1025': ('dhlz1025-fixed.pem', DHLZ_PEM, DHLZ_P)}
DH_DIR = '/tmp/verif-c07'


def dh_file(kind):
    os.makedirs(DH_DIR, exist_ok=True)
    if kind in DH_FIXED:
        path = os.path.join(DH_DIR, DH_FIXED[kind][0])
        if not os.path.exists(path):
            with open(path + '.tmp%d' % os.getpid(), 'w') as f:
                f.write(DH_FIXED[kind][1])
            os.replace(path + '.tmp%d' % os.getpid(), path)
        return path
    return os.path.join(DH_DIR, 'ffdhe2048.pem')


_OSSL = {}


def ossl_suites():
    """{suite id: OpenSSL name} for everything this OpenSSL build can negotiate at SECLEVEL 0."""
    if 'map' not in _OSSL:
        ctx = ssl.SSLContext(ssl.PROTOCOL_TLS_SERVER)
        try:
            ctx.set_ciphers('ALL:COMPLEMENTOFALL:@SECLEVEL=0')
        except ssl.SSLError:
            ctx.set_ciphers('ALL:@SECLEVEL=0')
        _OSSL['map'] = {c['id'] & 0xffff: c['name'] for c in ctx.get_ciphers()}
    return _OSSL['map']


class OsslEnd(object):
    """One OpenSSL endpoint.  All operations are generators yielding 0/1 like tlslite's async API."""

    def __init__(self, server_side, cfg, sock, session=None):
        self.sock = sock
        self.error = None
        ctx = ssl.SSLContext(ssl.PROTOCOL_TLS_SERVER if server_side else ssl.PROTOCOL_TLS_CLIENT)
        ctx.set_ciphers(cfg.get('ossl_ciphers') or 'ALL:@SECLEVEL=0')
        ctx.minimum_version = VER[cfg['ossl_min']]
        ctx.maximum_version = VER[cfg['ossl_max']]
        ctx.options |= ssl.OP_CIPHER_SERVER_PREFERENCE
        if cfg.get('ossl_curve'):
            ctx.set_ecdh_curve(cfg['ossl_curve'])
        if cfg.get('ossl_alpn') is not None:
            ctx.set_alpn_protocols(cfg['ossl_alpn'])
        if server_side:
            c, k, _ = KEYS[cfg['server_key']]
            ctx.load_cert_chain(os.path.join(TESTS, c), os.path.join(TESTS, k))
            if cfg.get('client_auth') or cfg.get('pha'):
                if cfg.get('pha'):
                    # certificate requested only after the handshake (SSL_VERIFY_POST_HANDSHAKE)
                    ctx.post_handshake_auth = True
                ctx.verify_mode = ssl.CERT_REQUIRED
                ctx.load_verify_locations(os.path.join(TESTS, CLIENT_KEYS[cfg['client_key']][0]))
                # the test certificates are not all self-signed: accept the loaded certificate itself as anchor
                ctx.verify_flags |= getattr(ssl, 'VERIFY_X509_PARTIAL_CHAIN', 0)
                ctx.verify_flags |= 0x200000      # X509_V_FLAG_NO_CHECK_TIME: several test certificates have expired
            if cfg.get('no_tickets'):
                ctx.options |= ssl.OP_NO_TICKET
            if os.path.exists(dh_file(cfg.get('dh'))):
                ctx.load_dh_params(dh_file(cfg.get('dh')))
        else:
            ctx.check_hostname = False
            ctx.verify_mode = ssl.CERT_NONE
            if cfg.get('pha'):
                ctx.post_handshake_auth = True
            if cfg.get('client_key'):
                c, k = CLIENT_KEYS[cfg['client_key']]
                ctx.load_cert_chain(os.path.join(TESTS, c), os.path.join(TESTS, k))
        self.ctx = cfg.get('_shared_ctx') or ctx
        self.inc, self.out = ssl.MemoryBIO(), ssl.MemoryBIO()
        kw = {'server_side': server_side}
        if session is not None:
            kw['session'] = session
        self.obj = self.ctx.wrap_bio(self.inc, self.out, **kw)

    def _flush(self):
        data = self.out.read()
        if data:
            self.sock.sendall(data)

    def _fill(self):
        try:
            d = self.sock.recv(65536)
        except OSError:
            return False
        if d == b'':
            self.inc.write_eof()
            return False
        self.inc.write(d)
        return True

    def _run(self, op):
        """run op() until it stops asking for I/O; result in self.result"""
        while True:
            try:
                self.result = op()
                self._flush()
                return
            except ssl.SSLWantReadError:
                self._flush()
                yield 1 if self._fill() else 0
            except ssl.SSLWantWriteError:
                self._flush()
                yield 1
            except ssl.SSLError as e:
                self._flush()
                self.error = '%s: %s' % (type(e).__name__, getattr(e, 'reason', None) or str(e))
                raise

    def handshake(self):
        return self._run(self.obj.do_handshake)

    def write(self, data):
        def gen():
            if data:
                for r in self._run(lambda: self.obj.write(data)):
                    yield r
        return gen()

    def read_total(self, n, got):
        """read until n bytes have been appended to got"""
        def gen():
            while len(got) < n:
                for r in self._run(lambda: self.obj.read(65536)):
                    yield r
                if not self.result:
                    return
                got.extend(self.result)
        return gen()


def tl_settings(cfg):
    d = U.default_settings_dict()
    d['minVersion'], d['maxVersion'] = [3, cfg['tl_min']], [3, cfg['tl_max']]
    d['versions'] = [[3, v] for v in range(cfg['tl_max'], cfg['tl_min'] - 1, -1)]
    for k in ('cipherNames', 'macNames', 'keyExchangeNames', 'eccCurves', 'dhGroups', 'keyShares'):
        if cfg.get('tl_' + k) is not None:
            d[k] = list(cfg['tl_' + k])
    d['dhGroups'] = cfg.get('tl_dhGroups') or ['ffdhe2048', 'ffdhe3072']
    if cfg['tl_min'] >= 4:      # validate() refuses the pre-TLS 1.3 brainpool curves in a TLS 1.3-only configuration
        from tlslite.handshakesettings import TLS13_PERMITTED_GROUPS
        d['eccCurves'] = [c for c in d['eccCurves'] if c in TLS13_PERMITTED_GROUPS]
    s = U.mk_settings(d)
    if cfg.get('dh') in DH_FIXED:
        s.dhParams = (2, DH_FIXED[cfg['dh']][2])       # the server's own group when the client names no RFC 7919 group
    if cfg.get('tickets'):
        s.ticketKeys = [bytearray(b'\x07' * 32)]
    return s


def tl_reader(conn, n, got):
    while len(got) < n:
        for r in conn.readAsync(max=65536, min=1):
            if r in (0, 1) and not isinstance(r, (bytes, bytearray)):
                yield r
            else:
                got.extend(r)
                if len(r) == 0:
                    return
                break


def exchange(tl, os_end, obs, tag, payloads=None):
    """application data both ways at the payload sizes; one stream per direction"""
    import random
    rng = random.Random(len(tag))
    blob = bytes(rng.randrange(256) for _ in range(1024)) * 50
    for direction in ('tl->ossl', 'ossl->tl'):
        total = b''.join(blob[:n] for n in (payloads or PAYLOADS))
        got = bytearray()

        def writer():
            for n in (payloads or PAYLOADS):
                g = tl.writeAsync(blob[:n]) if direction == 'tl->ossl' else os_end.write(blob[:n])
                for r in g:
                    yield r
        reader = os_end.read_total(len(total), got) if direction == 'tl->ossl' else tl_reader(tl, len(total), got)
        res = loop.drive([writer(), reader], max_steps=400000)
        ok = all(r[0] == 'ok' for r in res) and bytes(got) == total
        obs['data_%s_%s' % (tag, direction)] = ok
        if not ok:
            obs['data_err_%s_%s' % (tag, direction)] = '%r got %d/%d' % ([loop.classify(r) for r in res], len(got), len(total))


def one_connection(cfg, tag, tl_session=None, ossl_session=None, shared=None):
    from tlslite.api import TLSConnection
    a, b = loop.sockpair()
    tl = TLSConnection(a)
    obs = {}
    st = tl_settings(cfg)
    cfg = dict(cfg)
    if shared is not None:
        cfg['_shared_ctx'] = shared.get('ctx')
    if cfg['role'] == 'tl_client':
        os_end = OsslEnd(True, cfg, b)
        kw = {'settings': st, 'async_': True}
        if (cfg.get('client_auth') or cfg.get('pha')) and cfg.get('client_key'):
            ch, k = U.cred(cfg['client_key'])
            kw.update(certChain=ch, privateKey=k)
        if cfg.get('tl_alpn') is not None:
            kw['alpn'] = [bytearray(x.encode()) for x in cfg['tl_alpn']]
        if tl_session is not None:
            kw['session'] = tl_session
        tg = tl.handshakeClientCert(**kw)
    else:
        os_end = OsslEnd(False, cfg, b, session=ossl_session)
        ch, k = U.cred(cfg['server_key'])
        kw = {'settings': st, 'certChain': ch, 'privateKey': k}
        if cfg.get('client_auth'):
            kw['reqCert'] = True
        if cfg.get('tl_alpn') is not None:
            kw['alpn'] = [bytearray(x.encode()) for x in cfg['tl_alpn']]
        if shared is not None:
            kw['sessionCache'] = shared.setdefault('cache', __import__('tlslite.api').api.SessionCache())
        tg = tl.handshakeServerAsync(**kw)
    if shared is not None and 'ctx' not in shared:
        shared['ctx'] = os_end.ctx
    res = loop.drive([tg, os_end.handshake()], max_steps=400000)
    tl_out = loop.classify(res[0])
    os_out = ('ok',) if res[1][0] == 'ok' else ('err', os_end.error or repr(res[1][1])[:120])
    obs['tl_outcome'], obs['ossl_outcome'] = list(tl_out), list(os_out)
    done = tl_out == ('ok',) and os_out == ('ok',)
    obs['completed'] = done
    if done:
        o = os_end.obj
        obs.update(tl_version=tl.version[1], ossl_version=VERNAME.get(o.version(), -1),
                   tl_suite=tl.session.cipherSuite, ossl_suite_name=o.cipher()[0],
                   tl_alpn=bytes(tl.session.appProto).decode() if tl.session.appProto else None,
                   ossl_alpn=o.selected_alpn_protocol(), tl_resumed=bool(tl.resumed),
                   ossl_reused=bool(o.session_reused), tl_curve=tl.ecdhCurve,
                   tl_client_chain=tl.session.clientCertChain is not None and tl.session.clientCertChain.getNumCerts() > 0,
                   ossl_peer_cert=o.getpeercert(binary_form=True) is not None)
        exchange(tl, os_end, obs, tag, cfg.get('payloads'))
        if obs['tl_version'] == 4 and (cfg.get('pha') or cfg.get('keyupdate')):
            post_handshake(cfg, tl, os_end, obs, st)
    return obs, tl, os_end


def _pump(tl, os_end, direction, data):
    got = bytearray()
    if direction == 'tl->ossl':
        res = loop.drive([tl.writeAsync(data), os_end.read_total(len(data), got)], max_steps=400000)
    else:
        res = loop.drive([os_end.write(data), tl_reader(tl, len(data), got)], max_steps=400000)
    ok = all(r[0] == 'ok' for r in res) and bytes(got) == data
    return ok, None if ok else '%r got %d/%d %s' % ([loop.classify(r) for r in res], len(got), len(data), os_end.error)


def post_handshake(cfg, tl, os_end, obs, st):
    """TLS 1.3 post-handshake traffic on an established connection: cfg['pha'] rounds of post-handshake client
    authentication requested by the server side (OpenSSL: verify_client_post_handshake(); tlslite-ng:
    request_post_handshake_auth()), each followed by data both ways; then a KeyUpdate sent by tlslite-ng
    (update_requested) followed by data both ways."""
    from tlslite.constants import KeyUpdateMessageType
    rounds = []
    to_client, to_server = ('ossl->tl', 'tl->ossl') if cfg['role'] == 'tl_client' else ('tl->ossl', 'ossl->tl')
    for k in range(cfg.get('pha') or 0):
        r = {'round': k + 1}
        try:
            if cfg['role'] == 'tl_client':
                os_end.obj.verify_client_post_handshake()
            else:
                q = loop.drive([tl.request_post_handshake_auth(st)])
                if q[0][0] != 'ok':
                    r['request'] = repr(loop.classify(q[0]))
            # the request travels with the next server->client data, the answer with the next client->server data
            ok1, e1 = _pump(tl, os_end, to_client, b'after-request-%d ' % k * 64)
            ok2, e2 = _pump(tl, os_end, to_server, b'after-answer-%d ' % k * 64)
            ok3, e3 = _pump(tl, os_end, to_client, b'again-%d ' % k * 64)
            r['data_ok'] = ok1 and ok2 and ok3
            r['err'] = e1 or e2 or e3
            if cfg['role'] == 'tl_client':
                r['cert_seen'] = os_end.obj.getpeercert(binary_form=True) is not None
            else:
                ch = tl.session.clientCertChain
                r['cert_seen'] = ch is not None and ch.getNumCerts() > 0
        except Exception as e:  # noqa  (OpenSSL refuses further calls once the connection has failed)
            r.setdefault('data_ok', False)
            r['cert_seen'] = r.get('cert_seen', False)
            r['err'] = r.get('err') or '%s %s' % (type(e).__name__, getattr(e, 'reason', None) or e)
        rounds.append(r)
        if not r.get('data_ok'):
            break
    obs['pha_rounds'] = rounds
    if cfg.get('keyupdate') and all(r.get('data_ok') for r in rounds):      # a dead connection is reported once
        q = loop.drive([tl.send_keyupdate_request(KeyUpdateMessageType.update_requested)])
        ok0 = q[0][0] == 'ok'
        tl_out, os_out = ('tl->ossl', 'ossl->tl')
        ok1, e1 = _pump(tl, os_end, tl_out, b'after-keyupdate ' * 1200)
        ok2, e2 = _pump(tl, os_end, os_out, b'answer-after-keyupdate ' * 1200)
        obs['keyupdate'] = {'ok': ok0 and ok1 and ok2, 'err': e1 or e2}


def run_config(cfg):
    """Runs one configuration (and, when asked, a second resumed connection).  JSON-able result."""
    rnd = loop.DetRandom(cfg.get('seed', 0)).install()
    try:
        shared = {} if cfg.get('resume') else None
        obs, tl, os_end = one_connection(cfg, 'first', shared=shared)
        if cfg.get('resume') and obs['completed']:
            # cfg['resume'] = number of resumed connections in a row, each offering the previous one's session
            n = cfg['resume'] if isinstance(cfg['resume'], int) and not isinstance(cfg['resume'], bool) else 1
            later = []
            for k in range(n):
                if cfg['role'] == 'tl_client':
                    o2, tl, os_end = one_connection(cfg, 'resumed%d' % (k + 1), tl_session=tl.session, shared=shared)
                else:
                    o2, tl, os_end = one_connection(cfg, 'resumed%d' % (k + 1), ossl_session=os_end.obj.session, shared=shared)
                later.append(o2)
                if not o2.get('completed'):
                    break
            obs['second'] = later[0]
            obs['resumed_chain'] = later
        return obs
    except ssl.SSLError as e:      # OpenSSL refused to build this configuration
        return {'not_covered': 'OpenSSL cannot build this configuration: %s' % (getattr(e, 'reason', None) or e)}
    finally:
        rnd.uninstall()


# ---- abstract configurations for the Coq spec ---------------------------------------------------
def suite_props(suite):
    kx, cn, mac = U.suite_meaning(suite)
    return kx, cn, mac


def parseable(suite):
    try:
        U.suite_meaning(suite)
        return True
    except (KeyError, StopIteration, ValueError):
        return False


def auth_class(kx):
    return {'rsa': 'rsa', 'dhe_rsa': 'rsa', 'ecdhe_rsa': 'rsa', 'ecdhe_ecdsa': 'ecdsa', 'dhe_dsa': 'dsa',
            'srp_sha': None, 'srp_sha_rsa': 'rsa', 'dh_anon': None, 'ecdh_anon': None}.get(kx)


KEY_MINV = {'rsapss': 3, 'ed25519': 3, 'ed448': 3}


def usable(v, suite, key_auth, key_name=None):
    kx, cn, mac = suite_props(suite)
    if v < KEY_MINV.get(key_name, 0):
        return False
    if key_name == 'rsapss' and kx == 'rsa':
        return False
    if kx is None:
        return v == 4 and key_auth != 'dsa'          # no DSA signatures in TLS 1.3
    if v == 4:
        return False
    if mac in ('sha256', 'sha384', 'aead') and v < 3:
        return False
    return auth_class(kx) == key_auth


def tl_enabled_suites(cfg, st, role):
    """suites tlslite-ng is configured to use, in its own (server) preference order."""
    from tlslite.constants import CipherSuite
    t = U.tables()
    val = st.validate()
    order = t['client_order']['cert'] if role == 'client' else (
        t['server_order']['cert_any'] + t['server_order']['cert_ec'] + t['server_order']['cert_ff'] + t['server_order']['cert_rsa'])
    out = []
    for base in order:
        lst = CipherSuite._filterSuites(list(getattr(CipherSuite, base)), val, (3, cfg['tl_max']))
        out += [s for s in lst if s not in out]
    return out


def ossl_enabled_suites(cfg):
    ctx = ssl.SSLContext(ssl.PROTOCOL_TLS_SERVER)
    ctx.set_ciphers(cfg.get('ossl_ciphers') or 'ALL:@SECLEVEL=0')
    return [c['id'] & 0xffff for c in ctx.get_ciphers()]


def spec_lits(cfg):
    """(env, client Cfg, server Cfg) Gallina literals for Spec.C07_NegotiateRFC."""
    from tlslite.constants import GroupName
    st = tl_settings(cfg)
    key_auth = KEYS[cfg['server_key']][2]
    tl_role = 'client' if cfg['role'] == 'tl_client' else 'server'
    tls = tl_enabled_suites(cfg, st, tl_role)
    oss = ossl_enabled_suites(cfg)
    allsuites = sorted(set(tls) | set(oss))
    known = set(x for x in __import__('tlslite.constants').constants.CipherSuite.ietfNames if parseable(x))
    table = [v * 65536 + s for v in range(1, 5) for s in allsuites if s in known and usable(v, s, key_auth, cfg['server_key'])]
    needs_group = [s for s in allsuites if s in known and (suite_props(s)[0] is None or suite_props(s)[0].startswith('ecdh'))]
    tl_groups = [getattr(GroupName, g) for g in st.eccCurves] + [getattr(GroupName, g) for g in st.dhGroups]
    inv = {v: k for k, v in CURVES.items()}
    if cfg.get('ossl_curve'):
        os_groups = [getattr(GroupName, inv[cfg['ossl_curve']])]
    else:   # OpenSSL 3.0 defaults
        os_groups = [29, 23, 30, 25, 24] + [256, 257, 258, 259, 260]
    zl = lambda xs: vlib.listlit(xs, vlib.zlit)  # noqa
    env = ('{| usable := fun v s => mem (v * 65536 + s) %s; needs_group := fun s => mem s %s; '
           'needs_sig := fun _ _ => false; sig_fits := fun _ _ => true |}' % (zl(table), zl(needs_group)))

    def alpn_ids(names):
        return None if names is None else [int(n.split('-')[1]) for n in names]

    def cf(versions, suites, groups, alpn):
        return '{| cf_versions := %s; cf_suites := %s; cf_groups := %s; cf_sigs := []; cf_alpn := %s |}' % (
            zl(versions), zl(suites), zl(groups), vlib.optlit(alpn_ids(alpn), zl))
    tl_cf = cf(list(range(cfg['tl_min'], cfg['tl_max'] + 1)), tls, tl_groups, cfg.get('tl_alpn'))
    os_cf = cf(list(range(cfg['ossl_min'], cfg['ossl_max'] + 1)), oss, os_groups, cfg.get('ossl_alpn'))
    return (env, tl_cf, os_cf) if cfg['role'] == 'tl_client' else (env, os_cf, tl_cf)


PREAMBLE = '''
Definition CaseT := (Env * Cfg * Cfg * (bool * Z * Z * option Z * bool))%type.
(* observed: completed?, version, suite, ALPN, compare-suite-strictly? *)
Definition optz_eqb (a b : option Z) : bool :=
  match a, b with Some x, Some y => x =? y | None, None => true | _, _ => false end.
Definition chk_spec (k : CaseT) : bool :=
  let '(env, c, s, (done, v, suite, alpn, strict)) := k in
  match spec_negotiate env c s with
  | None => negb done
  | Some ch => done && (co_version ch =? v) && ((negb strict) || (co_suite ch =? suite)) &&
               mem suite (cf_suites c) && mem suite (cf_suites s) && usable env v suite &&
               match alpn, cf_alpn c, cf_alpn s with
               | Some p, Some a, Some b => mem p a && mem p b
               | None, Some _, Some _ => false
               | None, _, _ => true
               | Some _, _, _ => false end
  end.
'''


# ---- key derivation functions against OpenSSL's own implementations (`openssl kdf`) -------------------------
def _ossl_kdf(args):
    import subprocess
    p = subprocess.run(['openssl', 'kdf', '-binary'] + args, stdout=subprocess.PIPE, stderr=subprocess.PIPE, timeout=120)
    if p.returncode != 0:
        return None, p.stderr.decode('utf-8', 'replace')[-200:]
    return p.stdout, None


def kdf_case(case):
    """One (function, secret, label/seed or info, length) point: tlslite-ng's function vs `openssl kdf`."""
    from tlslite import mathtls
    from tlslite.utils import cryptomath
    fn, secret, a, b, n = case['fn'], bytes.fromhex(case['secret']), bytes.fromhex(case['a']), bytes.fromhex(case['b']), case['n']
    try:
        if fn in ('PRF', 'PRF_1_2', 'PRF_1_2_SHA384'):
            mine = bytes(getattr(mathtls, fn)(bytearray(secret), bytearray(a), bytearray(b), n))
            dig = {'PRF': 'MD5-SHA1', 'PRF_1_2': 'SHA256', 'PRF_1_2_SHA384': 'SHA384'}[fn]
            ref, err = _ossl_kdf(['-keylen', str(n), '-kdfopt', 'digest:' + dig, '-kdfopt', 'hexsecret:' + secret.hex(),
                                  '-kdfopt', 'hexseed:' + (a + b).hex(), 'TLS1-PRF'])
        elif fn.startswith('HKDF_extract'):
            alg = fn.split(':')[1]
            mine = bytes(cryptomath.secureHMAC(bytearray(a), bytearray(secret), alg))      # salt = a, ikm = secret
            ref, err = _ossl_kdf(['-keylen', str(len(mine)), '-kdfopt', 'digest:' + alg.upper(), '-kdfopt', 'mode:EXTRACT_ONLY',
                                  '-kdfopt', 'hexkey:' + secret.hex(), '-kdfopt', 'hexsalt:' + a.hex(), 'HKDF'])
        elif fn.startswith('HKDF_expand_label'):
            alg = fn.split(':')[1]
            mine = bytes(cryptomath.HKDF_expand_label(bytearray(secret), bytearray(a), bytearray(b), n, alg))
            full = b'tls13 ' + a                      # RFC 8446 7.1 HkdfLabel, built here independently
            info = n.to_bytes(2, 'big') + bytes([len(full)]) + full + bytes([len(b)]) + b
            ref, err = _ossl_kdf(['-keylen', str(n), '-kdfopt', 'digest:' + alg.upper(), '-kdfopt', 'mode:EXPAND_ONLY',
                                  '-kdfopt', 'hexkey:' + secret.hex(), '-kdfopt', 'hexinfo:' + info.hex(), 'HKDF'])
        else:
            alg = fn.split(':')[1]
            mine = bytes(cryptomath.HKDF_expand(bytearray(secret), bytearray(a), n, alg))
            ref, err = _ossl_kdf(['-keylen', str(n), '-kdfopt', 'digest:' + alg.upper(), '-kdfopt', 'mode:EXPAND_ONLY',
                                  '-kdfopt', 'hexkey:' + secret.hex(), '-kdfopt', 'hexinfo:' + a.hex(), 'HKDF'])
    except Exception as e:  # noqa
        return {'case': case, 'error': '%s: %s' % (type(e).__name__, e)}
    if ref is None:
        return {'case': case, 'not_covered': err}
    return {'case': case, 'equal': mine == ref, 'mine': mine.hex()[:64], 'ref': ref.hex()[:64]}


def kdf_cases(rng, quick):
    """secret lengths of both parities around the sizes that occur (premaster 48, DH shares 128/129/256/257, ...)"""
    out = []
    lens = [1, 2, 3, 15, 16, 17, 32, 33, 47, 48, 49, 127, 128, 129, 255, 256, 257]
    outs = [1, 12, 48, 104, 255] if quick else [1, 12, 13, 47, 48, 49, 104, 136, 255, 256, 1000]

    def rb(n):
        return bytes(rng.randrange(256) for _ in range(n)).hex()
    for fn in ('PRF', 'PRF_1_2', 'PRF_1_2_SHA384'):
        for L in lens:
            for n in (outs if not quick else [rng.choice(outs), 48]):
                out.append({'fn': fn, 'secret': rb(L), 'a': rng.choice([b'master secret', b'key expansion', b'client finished', b'x']).hex(),
                            'b': rb(rng.choice([0, 1, 64, 65])), 'n': n})
    for alg, hl in (('sha256', 32), ('sha384', 48)):
        for L in ([1, 31, 32, 33, 48, 49] if quick else lens):
            out.append({'fn': 'HKDF_extract:' + alg, 'secret': rb(L), 'a': rb(rng.choice([1, hl, hl + 1])), 'b': '', 'n': hl})
        for n in ([1, 12, hl, hl + 1, 255] if quick else [1, 12, hl - 1, hl, hl + 1, 2 * hl, 2 * hl + 1, 255, 256, 254 * hl, 254 * hl + 1, 255 * hl]):
            out.append({'fn': 'HKDF_expand:' + alg, 'secret': rb(hl), 'a': rb(rng.choice([0, 1, 10, 65])), 'b': '', 'n': n})
            if n < 256:
                out.append({'fn': 'HKDF_expand_label:' + alg, 'secret': rb(hl), 'a': rng.choice([b'key', b'iv', b'finished', b'c hs traffic', b'exporter']).hex(),
                            'b': rb(rng.choice([0, hl])), 'n': n})
    return out
