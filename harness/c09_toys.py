"""Toy hash/HMAC oracles mirrored in coq/Toy/C09_ToyOracle.v (no cryptographic meaning).
install() substitutes them for hashlib/hmac in the tlslite modules that compute KDFs, so that the
implementation and the Gallina model can be compared byte for byte on long outputs without tables."""
import contextlib

from toys import ToyMac

DS = {'md5': 16, 'sha1': 20, 'sha224': 28, 'sha256': 32, 'sha384': 48, 'sha512': 64}


def alg_name(a):
    if isinstance(a, str):
        return a
    n = getattr(a, '__name__', None) or getattr(a, 'name', '')
    return n.replace('openssl_', '')


def toy_hash(alg, data):
    m = ToyMac(bytes([DS[alg], 1]), DS[alg])
    m.update(bytes(data))
    return m.digest()


def toy_hmac(alg, key, data):
    m = ToyMac(bytes([DS[alg], 2]) + bytes(key), DS[alg])
    m.update(bytes(data))
    return m.digest()


class ToyHMAC(ToyMac):
    def __init__(self, key, msg=None, digestmod=None):
        alg = alg_name(digestmod)
        ToyMac.__init__(self, bytes([DS[alg], 2]) + bytes(key), DS[alg], 128 if alg in ('sha384', 'sha512') else 64)
        if msg:
            self.update(msg)


class _FakeHmacModule(object):
    HMAC = ToyHMAC

    @staticmethod
    def new(key, msg=None, digestmod=None):
        return ToyHMAC(key, msg, digestmod)


@contextlib.contextmanager
def installed():
    from tlslite.utils import cryptomath
    from tlslite import mathtls, handshakehashes
    saved = (cryptomath.secureHMAC, cryptomath.secureHash, mathtls.hmac, mathtls.MD5, mathtls.SHA1,
             handshakehashes.MD5, handshakehashes.SHA1, cryptomath.MD5, cryptomath.SHA1)
    cryptomath.secureHMAC = lambda k, b, algorithm: bytearray(toy_hmac(algorithm, k, b))
    cryptomath.secureHash = lambda data, algorithm: bytearray(toy_hash(algorithm, data))
    mathtls.hmac = _FakeHmacModule
    for mod in (mathtls, handshakehashes, cryptomath):
        mod.MD5 = lambda b: bytearray(toy_hash('md5', b))
        mod.SHA1 = lambda b: bytearray(toy_hash('sha1', b))
    try:
        yield
    finally:
        (cryptomath.secureHMAC, cryptomath.secureHash, mathtls.hmac, mathtls.MD5, mathtls.SHA1,
         handshakehashes.MD5, handshakehashes.SHA1, cryptomath.MD5, cryptomath.SHA1) = saved


# --------------------------------------------------------------------------- recording real oracles
class RecHMAC(object):
    """real hmac object that records (alg, key, message) -> digest at digest() time"""

    def __init__(self, key, msg=None, digestmod=None, _inner=None, _acc=b'', _table=None, _alg=None):
        import hmac as pyhmac
        self.alg = _alg or alg_name(digestmod)
        self.key = bytes(key)
        self.table = _table if _table is not None else RecHMAC.current
        self.inner = _inner if _inner is not None else pyhmac.new(self.key, None, self.alg)
        self.acc = _acc
        self.digest_size = self.inner.digest_size
        self.block_size = getattr(self.inner, 'block_size', 128 if self.alg in ('sha384', 'sha512') else 64)
        if msg:
            self.update(msg)

    current = None

    def copy(self):
        return RecHMAC(self.key, None, None, self.inner.copy(), self.acc, self.table, self.alg)

    def update(self, d):
        self.inner.update(bytes(d))
        self.acc += bytes(d)

    def digest(self):
        r = self.inner.digest()
        self.table[('hmac', self.alg, self.key, self.acc)] = r
        return r


class _RecHmacModule(object):
    HMAC = RecHMAC

    @staticmethod
    def new(key, msg=None, digestmod=None):
        return RecHMAC(key, msg, digestmod)


@contextlib.contextmanager
def recording(table):
    """real hashlib/hmac, every call made by the KDF code recorded into table"""
    import hashlib
    import hmac as pyhmac
    from tlslite.utils import cryptomath
    from tlslite import mathtls, handshakehashes

    def rec_hash(alg):
        def f(b):
            r = hashlib.new(alg, bytes(b)).digest()
            table[('hash', alg, bytes(b))] = r
            return bytearray(r)
        return f

    def sec_hmac(k, b, algorithm):
        r = pyhmac.new(bytes(k), bytes(b), algorithm).digest()
        table[('hmac', algorithm, bytes(k), bytes(b))] = r
        return bytearray(r)

    def sec_hash(data, algorithm):
        r = hashlib.new(algorithm, bytes(data)).digest()
        table[('hash', algorithm, bytes(data))] = r
        return bytearray(r)
    saved = (cryptomath.secureHMAC, cryptomath.secureHash, mathtls.hmac, mathtls.MD5, mathtls.SHA1,
             handshakehashes.MD5, handshakehashes.SHA1, cryptomath.MD5, cryptomath.SHA1)
    cryptomath.secureHMAC, cryptomath.secureHash = sec_hmac, sec_hash
    RecHMAC.current = table
    mathtls.hmac = _RecHmacModule
    for mod in (mathtls, handshakehashes, cryptomath):
        mod.MD5, mod.SHA1 = rec_hash('md5'), rec_hash('sha1')
    try:
        yield
    finally:
        (cryptomath.secureHMAC, cryptomath.secureHash, mathtls.hmac, mathtls.MD5, mathtls.SHA1,
         handshakehashes.MD5, handshakehashes.SHA1, cryptomath.MD5, cryptomath.SHA1) = saved


def table_lit(table):
    """recorded table -> Gallina literal for Toy.C09_ToyOracle.table_oracles"""
    from vlib import blit
    ents = []
    for k, v in sorted(table.items(), key=lambda kv: (len(kv[0][-1]), kv[0][1])):
        if k[0] == 'hash':
            q = bytes([1, DS[k[1]]]) + k[2]
        else:
            q = bytes([2, DS[k[1]], len(k[2]) >> 8, len(k[2]) & 255]) + k[2] + k[3]
        ents.append('(%s,%s)' % (blit(q), blit(v)))
    return '[' + ';'.join(ents) + ']'


class ToyHashObj(ToyMac):
    def __init__(self, alg, data=b''):
        ToyMac.__init__(self, bytes([DS[alg], 1]), DS[alg])
        self.update(data)


class ToyHashlib(object):
    """stands in for tlslite.utils.tlshashlib inside handshakehashes (toy mode)"""
    md5 = staticmethod(lambda d=b'': ToyHashObj('md5', d))
    sha1 = staticmethod(lambda d=b'': ToyHashObj('sha1', d))
    sha224 = staticmethod(lambda d=b'': ToyHashObj('sha224', d))
    sha256 = staticmethod(lambda d=b'': ToyHashObj('sha256', d))
    sha384 = staticmethod(lambda d=b'': ToyHashObj('sha384', d))
    sha512 = staticmethod(lambda d=b'': ToyHashObj('sha512', d))


# --------------------------------------------------------------------------- toy block cipher (Toy.C09_ToyOracle.toy_blk_enc)
class ToyBlock(object):
    """stands in for a Rijndael object: add the key bytes cyclically, rotate the block by one position"""

    def __init__(self, key):
        self.key = bytes(key)

    def _k(self, i):
        return self.key[i % max(1, len(self.key))] if self.key else 0

    def encrypt(self, blk):
        x = [(b + self._k(i)) % 256 for i, b in enumerate(bytes(blk))]
        return bytearray(x[1:] + x[:1])

    def decrypt(self, blk):
        blk = list(bytes(blk))
        n = len(blk)
        x = blk[n - 1:] + blk[:n - 1]
        return bytearray((b - self._k(i)) % 256 for i, b in enumerate(x))
