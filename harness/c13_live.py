"""C13: histories of connections on live tlslite-ng endpoints.

  * generation of histories (interleaved with execution, so that events refer to objects
    that exist), all choices from one random.Random(seed)
  * execution on real TLSConnection pairs (loop.Pair), one SessionCache / settings per
    server configuration, the client application keeps its Session objects, FakeClock
  * ground truth kept by the harness itself (who issued what, when, under which key, what
    was invalidated / altered) and the property oracle written from the property text
  * Gallina literals of the same history for coq/Model/C13_Resume.v

Time is counted in quarter seconds since EPOCH (floats stay exact)."""
import random

import loop
from loop import Pair, creds, FakeClock, DetRandom, classify, run_gen
from tlslite.api import SessionCache, HandshakeSettings
from tlslite.constants import CipherSuite, ExtensionType, AlertDescription
from tlslite.messages import ClientHello, ServerHello
from tlslite.utils.codec import Parser

EPOCH = 1700000000.0
SNI = [None, 'a.example.com', 'b.example.com']
CCERT = [None, 'client-rsa', 'client-ecdsa']
MENUS = [None, ['aes128', 'aes128gcm'], ['aes256gcm', 'aes128gcm'], ['chacha20-poly1305'], ['aes128gcm'],
         ['aes128gcm', 'chacha20-poly1305'], ['aes256', 'aes128'], ['aes128', 'aes128gcm', 'aes256gcm'],
         ['aes256gcm']]
VER = {1: (3, 1), 2: (3, 2), 3: (3, 3), 4: (3, 4)}
SRPU = [None, 'test', 'other']          # SRP user handles; password = user + '-pw'
KINDS = ['cert', 'srp', 'anon']          # client flavour (ev['kind']) / server credentials (cfg['auth'])
_VDB = []


def verifier_db():
    if not _VDB:
        from tlslite.api import VerifierDB
        db = VerifierDB()
        db.create()
        for u in SRPU[1:]:
            db[u.encode()] = VerifierDB.makeVerifier(u.encode(), (u + '-pw').encode(), 1024)
        _VDB.append(db)
    return _VDB[0]


def srp_handle(name):
    if not name:
        return 0
    if isinstance(name, (bytes, bytearray)):
        name = bytes(name).decode()
    return SRPU.index(name) if name in SRPU else 99


def key_bytes(k):
    return bytearray([k & 0xff]) * 32


def mk_settings(maxv, menu, ems, etm):
    s = HandshakeSettings()
    s.minVersion = (3, 1)
    s.maxVersion = VER[maxv]
    if MENUS[menu] is not None:
        s.cipherNames = list(MENUS[menu])
    s.useExtendedMasterSecret = ems
    s.useEncryptThenMAC = etm
    return s


def server_settings(cfg):
    s = mk_settings(cfg['maxv'], cfg['menu'], cfg['ems'], cfg['etm'])
    s.ticketKeys = [key_bytes(k) for k in cfg['keys']]
    s.ticketLifetime = cfg['life']
    s.ticket_count = cfg['count']
    return s


def client_suites(cs, kind=0):
    """The suites the client offers (what _clientSendClientHello builds) for a cert / SRP / anonymous client."""
    v = cs.validate()
    out = [CipherSuite.TLS_EMPTY_RENEGOTIATION_INFO_SCSV]
    if kind == 1:
        out += CipherSuite.getSrpAllSuites(v)
    elif kind == 2:
        out += CipherSuite.getEcdhAnonSuites(v)
        out += CipherSuite.getAnonSuites(v)
    else:
        out += CipherSuite.getTLS13Suites(v)
        out += CipherSuite.getEcdsaSuites(v)
        out += CipherSuite.getEcdheCertSuites(v)
        out += CipherSuite.getDheCertSuites(v)
        out += CipherSuite.getCertSuites(v)
        out += CipherSuite.getDheDsaSuites(v)
    return out


def group_intersect(ss, version, client_groups):
    """(ecGroupIntersect, ffGroupIntersect) as _serverGetClientHello derives them from the hello's
    supported_groups extension (None = no extension: both allowed)."""
    from tlslite.tlsconnection import TLSConnection
    from tlslite.utils.lists import getFirstMatching
    if client_groups is None:
        return True, True
    v = ss.validate()
    ec = bool(getFirstMatching(client_groups, TLSConnection._curveNamesToList(v, version)))
    ff = getFirstMatching(client_groups, TLSConnection._groupNamesToList(v))
    if not ff:
        ff = not any(i for i in client_groups if i in range(256, 512))
    return ec, bool(ff)


def server_acceptable(ss, version, auth=0, client_groups=None):
    """Suites the server is willing to use for `version` with certificate / verifierDB(+certificate) /
    anonymous credentials, given the groups the client advertised."""
    v = ss.validate()
    out = []
    if auth == 1:
        out += CipherSuite.getSrpCertSuites(v, version)
        out += CipherSuite.getSrpSuites(v, version)
    elif auth == 2:
        out += CipherSuite.getAnonSuites(v, version)
        out += CipherSuite.getEcdhAnonSuites(v, version)
    else:
        ec, ff = group_intersect(ss, version, client_groups)
        if ec or ff:
            out += CipherSuite.getTLS13Suites(v, version)
        if ec:
            out += CipherSuite.getEcdsaSuites(v, version)
            out += CipherSuite.getEcdheCertSuites(v, version)
        if ff:
            out += CipherSuite.getDheCertSuites(v, version)
            out += CipherSuite.getDheDsaSuites(v, version)
        out += CipherSuite.getCertSuites(v, version)
    return CipherSuite.filterForVersion(out, minVersion=version, maxVersion=version)


def first_handshake_msg(raw, cls):
    """Parse the first (plaintext) handshake message of a flight."""
    raw = bytes(raw)
    if len(raw) < 9 or raw[0] != 22:
        return None
    ln = int.from_bytes(raw[3:5], 'big')
    body = raw[5:5 + ln]
    hl = int.from_bytes(body[1:4], 'big')
    if len(body) < 4 + hl:
        return None
    try:
        return cls().parse(Parser(bytearray(body[1:4 + hl])))
    except Exception:  # noqa
        return None


def fp_handle(chain):
    if chain is None or not chain.x509List:
        return 0
    fp = chain.getFingerprint()
    for i, name in enumerate(CCERT):
        if name and creds(name)[0].getFingerprint() == fp:
            return i
    return 99


class Live(object):
    def __init__(self, cfgs, seed):
        self.clock = FakeClock(EPOCH).install()
        self.rand = DetRandom(seed).install()
        self.q = 0
        self.servers = [{'cfg': dict(c), 'cache': SessionCache(maxEntries=c['cap'], maxAge=c['maxage'])}
                        for c in cfgs]
        self.objs = []      # ground truth about every client Session object
        self.conns = []
        self.obs = []
        self.verdicts = []  # (key, what, detail)
        self.conn_classes = []   # per connection class, for coverage accounting
        self.chain, self.key = creds('rsa')
        self.shadow = {}    # memo of full-negotiation oracles

    def done(self):
        self.clock.uninstall()
        self.rand.uninstall()

    # ---------------------------------------------------------------- helpers
    def set_clock(self):
        self.clock.now = EPOCH + self.q / 4.0

    def flag(self, key, what, **detail):
        self.verdicts.append((key, what, detail))

    def handshake(self, ev, cfg, cache, sess, half=0):
        """half != 0: the transport holds back the client's second flight (1: all of it, 2: from the
        ChangeCipherSpec record on); returns outcome ('suspended', state) when the handshake hangs there."""
        cs = mk_settings(ev['maxv'], ev['menu'], ev['ems'], ev['etm'])
        ss = server_settings(cfg)
        p = Pair()
        cap_c, cap_s = [], []
        st = {'chunks': 0, 'holding': False, 'held': [], 'ms': None}

        def ctap(n, b):
            cap_c.append(bytes(b))
            st['chunks'] += 1
            if not half:
                return b
            if st['holding']:
                st['held'].append(bytes(b))
                return b''
            if half == 1:
                if st['chunks'] > 1:
                    st['holding'] = True
                    st['held'].append(bytes(b))
                    return b''
                return b
            out, rest = b'', bytes(b)
            while len(rest) >= 5:
                ln = 5 + int.from_bytes(rest[3:5], 'big')
                if rest[0] == 20:
                    st['holding'] = True
                    break
                out, rest = out + rest[:ln], rest[ln:]
            if st['holding']:
                st['held'].append(rest)
                return out
            return b
        p.csock.tap = ctap
        p.ssock.tap = lambda n, b: (cap_s.append(bytes(b)), b)[1]
        ckw = dict(session=sess, settings=cs, serverName=SNI[ev['sni']])
        kind = ev.get('kind', 0)
        if kind == 0 and ev['ccert']:
            ch, k = creds(CCERT[ev['ccert']])
            ckw.update(certChain=ch, privateKey=k)
        if kind == 1:
            u = SRPU[ev.get('srp') or 1]
            ckw.update(username=u, password=u + '-pw')
        skw = dict(settings=ss, reqCert=cfg['reqcert'], sessionCache=cache if cfg['usecache'] else None)
        auth = cfg.get('auth', 0)
        if auth == 2:
            skw.update(anon=True)
            skw.pop('reqCert')
        else:
            skw.update(certChain=self.chain, privateKey=self.key)
            if auth == 1:
                skw.update(verifierDB=verifier_db())
        if not half:
            c, s = p.handshake(client_kw=ckw, server_kw=skw, client_kind=KINDS[kind])
            return p, classify(c), classify(s), b''.join(cap_c), b''.join(cap_s), cs, ss
        # the (deviating) client remembers the master secret it derives
        orig = p.client._calculate_master_secret

        def rec_ms(*a, **k):
            st['ms'] = orig(*a, **k)
            return st['ms']
        p.client._calculate_master_secret = rec_ms
        cg = getattr(p.client, {0: 'handshakeClientCert', 1: 'handshakeClientSRP',
                                2: 'handshakeClientAnonymous'}[kind])(async_=True, **ckw)
        sg = p.server.handshakeServerAsync(**skw)
        gens, res, idle = [cg, sg], [None, None], 0
        while idle < 400 and (res[0] is None or res[1] is None):
            before = (len(cap_c), len(cap_s))
            for i in (0, 1):
                if res[i] is None:
                    try:
                        next(gens[i])
                    except StopIteration:
                        res[i] = ('ok', None)
                    except Exception as e:  # noqa
                        res[i] = ('exc', e)
            idle = idle + 1 if (len(cap_c), len(cap_s)) == before and st['holding'] else 0
            if not st['holding'] and idle == 0 and sum(map(len, cap_c)) + sum(map(len, cap_s)) > 10 ** 7:
                break
        if res[0] is None and res[1] is None and st['holding']:
            st['gens'] = (cg, sg)
            return p, ('suspended', st), ('suspended', st), b''.join(cap_c), b''.join(cap_s), cs, ss
        for i in (0, 1):          # it ended before the hold point: finish normally
            if res[i] is None:
                res[i] = loop.run_gen(gens[i])
        return p, classify(res[0]), classify(res[1]), b''.join(cap_c), b''.join(cap_s), cs, ss

    # ---------------------------------------------------------------- events
    def connect(self, ev):
        """ev: srv maxv menu ems etm sni ccert offer.  Fills in the oracles, returns the observation."""
        self.set_clock()
        srv = self.servers[ev['srv']]
        cfg = srv['cfg']
        ci = len(self.conns)
        o = self.objs[ev['offer']] if ev['offer'] is not None else None
        sess = o['session'] if o else None
        offered_valid = bool(sess is not None and sess.valid())
        v = min(ev['maxv'], cfg['maxv'])
        # --- oracles: acceptable suites and what a full negotiation selects (shadow handshake)
        ss0 = server_settings(cfg)
        cs0 = mk_settings(ev['maxv'], ev['menu'], ev['ems'], ev['etm'])
        ev.setdefault('kind', 0)
        ev['srp'] = (ev.get('srp') or 1) if ev['kind'] == 1 else 0
        ev['suites'] = client_suites(cs0, ev['kind'])
        ev['acc'] = server_acceptable(ss0, VER[v], cfg.get('auth', 0))
        skey = (ev['kind'], ev['srp'], cfg.get('auth', 0), ev['maxv'], ev['menu'], ev['ems'], ev['etm'], ev['ccert'], ev['sni'],
                cfg['maxv'], cfg['menu'], cfg['ems'], cfg['etm'], cfg['reqcert'])
        if skey not in self.shadow:
            shadow_cfg = dict(cfg, usecache=False, keys=[], count=0)
            sp, sc, ssv, _, _, _, _ = self.handshake(dict(ev), shadow_cfg, None, None)
            if sc == ('ok',) and ssv == ('ok',):
                fs = sp.server.session.cipherSuite
                self.shadow[skey] = (fs, fs not in CipherSuite.streamSuites and fs not in CipherSuite.aeadSuites,
                                     384 if fs in CipherSuite.sha384PrfSuites else 256, 0)
            else:
                self.shadow[skey] = (0, False, 256, ssv[1] if ssv[0] == 'LocalAlert' else 0)
        ev['fsuite'], ev['fcbc'], ev['fhash'], ev['falert'] = self.shadow[skey]
        # --- the connection itself
        p, c, s, raw_c, raw_s, cs, ss = self.handshake(ev, cfg, srv['cache'], sess, half=ev.get('half', 0))
        ch = first_handshake_msg(raw_c, ClientHello)
        sh = first_handshake_msg(raw_s, ServerHello)
        if ch is not None:
            # the acceptable list depends on the groups this very hello advertises
            ge = ch.getExtension(ExtensionType.supported_groups)
            ev['acc'] = server_acceptable(ss0, VER[v], cfg.get('auth', 0), None if ge is None else (ge.groups or []))
        conn = {'pair': p, 'srv': ev['srv'], 'obj': None, 'open': False, 'ver': v}
        self.conns.append(conn)
        rec = {'ci': ci, 'ver': v, 'offer': ev['offer'], 'offered_valid': offered_valid}
        # what the client put on the wire (ground truth for "ClientHello consistent")
        hello = None
        if ch is not None:
            tk = ch.getExtension(ExtensionType.session_ticket)
            psk = ch.getExtension(ExtensionType.pre_shared_key)
            sn = ch.server_name
            hello = {'sid': bytes(ch.session_id), 'suites': list(ch.cipher_suites),
                     'ems': ch.getExtension(ExtensionType.extended_master_secret) is not None,
                     'etm': ch.getExtension(ExtensionType.encrypt_then_mac) is not None,
                     'sni': SNI.index(sn.decode()) if sn else 0,
                     'srp': srp_handle(ch.srp_username),
                     'ticket': bytes(tk.ticket) if tk is not None and tk.ticket else b'',
                     'psk': bytes(psk.identities[0].identity) if psk is not None and psk.identities else b''}
            if set(hello['suites']) - {0x5600} != set(ev['suites']):
                self.flag('tie:client-suites', 'harness computation of the offered suites differs from the wire',
                          wire=hello['suites'], computed=ev['suites'])
        rec['hello'] = hello
        ok = (c == ('ok',) and s == ('ok',))
        if c[0] == 'suspended':
            # held up before the server saw the client's Finished; the client already knows ID and master secret
            from tlslite.session import Session
            obs = [4, 0]
            conn['open'] = True
            conn['suspended'] = c[1]['gens']
            ps = Session()
            ps.create(c[1]['ms'] or bytearray(48), sh.session_id if sh is not None else bytearray(0),
                      sh.cipher_suite if sh is not None else 0,
                      bytearray(SRPU[ev['srp']], 'utf-8') if ev['kind'] == 1 else None,
                      None, None, None, False, SNI[ev['sni']],
                      encryptThenMAC=sh is not None and sh.getExtension(ExtensionType.encrypt_then_mac) is not None,
                      extendedMasterSecret=sh is not None and
                      sh.getExtension(ExtensionType.extended_master_secret) is not None)
            self.objs.append({'session': ps, 'conn': ci, 'srv': ev['srv'], 'ver': v, 'completed': False,
                              'params': [ps.cipherSuite, int(ps.extendedMasterSecret), int(ps.encryptThenMAC),
                                         ev['sni'], 0, 0],
                              'origin_ccert': 0, 'inval_c': False, 'inval_s': False, 'inval_s_ticket': False,
                              'altered': False, 'revived': False, 'rms_altered': False, 'kind': ev['kind'],
                              'key': None, 'issued_q': (self.q // 4) * 4, 'stored_q': None,
                              'sid': bytes(ps.sessionID)})
        elif c[0] == 'Other' and c[1] == 'ValueError':
            obs = [3, 0]
        elif ok:
            srv_res_wire = bool(p.server.resumed)
            if v == 4 and sh is not None:
                srv_res_wire = sh.getExtension(ExtensionType.pre_shared_key) is not None
            rec['srv_resumed_attr'] = bool(p.server.resumed)
            rec['srv_resumed'] = srv_res_wire
            rec['cli_resumed'] = bool(p.client.resumed)
            # both directions must carry data (also makes the 1.3 client read its tickets)
            w1, r1, got1 = p.transfer(p.server, p.client, b'pong-%d' % ci)
            w2, r2, got2 = p.transfer(p.client, p.server, b'ping-%d' % ci)
            if got1 != b'pong-%d' % ci or got2 != b'ping-%d' % ci:
                self.flag('data-transfer-failed', 'handshake completed but application data does not flow',
                          conn=ci, w1=repr(w1), r1=repr(r1), w2=repr(w2), r2=repr(r2))
            ssn, csn = p.server.session, p.client.session
            sview = [ssn.cipherSuite, int(bool(ssn.extendedMasterSecret)), int(bool(ssn.encryptThenMAC)),
                     SNI.index(ssn.serverName or None), fp_handle(ssn.clientCertChain), int(bool(ssn.sessionID)),
                     srp_handle(ssn.srpUsername)]
            cview = [csn.cipherSuite, int(bool(csn.extendedMasterSecret)), int(bool(csn.encryptThenMAC)),
                     int(bool(csn.sessionID))]
            nt = [len(csn.tls_1_0_tickets or []), len(csn.tickets or [])]
            obs = [0, 0, v, int(srv_res_wire), int(rec['cli_resumed'])] + sview + cview + nt
            rec['sview'] = sview
            conn['open'] = True
            # bind / create the client object
            if rec['cli_resumed'] and v < 4:
                if csn is not sess:
                    self.flag('tie:resumed-session-object', 'resumed client connection is not bound to the offered Session', conn=ci)
                conn['obj'] = ev['offer']
            else:
                pred = o if (rec['cli_resumed'] or srv_res_wire) else None
                self.objs.append({
                    'session': csn, 'conn': ci, 'srv': ev['srv'], 'ver': v,
                    'params': sview[:5] + [sview[6]],
                    'origin_ccert': pred['origin_ccert'] if pred else sview[4],
                    'inval_c': False, 'inval_s': False, 'inval_s_ticket': False, 'altered': False, 'revived': False,
                    'rms_altered': False, 'kind': ev['kind'],
                    'key': cfg['keys'][0] if (nt[0] or nt[1]) and cfg['keys'] else None,
                    'issued_q': (self.q // 4) * 4, 'stored_q': self.q if (cfg['usecache'] and v < 4) else None,
                    'sid': bytes(csn.sessionID)})
                conn['obj'] = len(self.objs) - 1
        elif s[0] == 'LocalAlert' and c[0] in ('RemoteAlert',):
            obs = [1, s[1]]
        elif c[0] == 'LocalAlert' and s[0] in ('RemoteAlert',):
            obs = [2, c[1]]
        else:
            obs = [9, 0]
            self.flag('undocumented-outcome', 'handshake ended outside the documented outcome classes: client %r server %r' % (c, s),
                      conn=ci, client=repr(c), server=repr(s))
        rec['obs'] = obs
        rec['outcome'] = (c, s)
        self.obs.append(obs)
        self.oracle(ev, rec, cfg, o)
        conn['mech'] = rec.get('offered') if (obs[0] == 0 and rec.get('cli_resumed')) else 'full'
        return obs

    def close(self, ev):
        self.set_clock()
        c = ev['conn']
        if c >= len(self.conns) or not self.conns[c]['open']:
            return
        conn = self.conns[c]
        p = conn['pair']
        kind = ev['kind']
        conn['open'] = False
        o = self.objs[conn['obj']] if conn['obj'] is not None else None
        if conn.get('suspended'):
            # the held-up handshake is abandoned: the client's transport goes away
            p.csock.close()
            run_gen(conn['suspended'][1])
            conn['suspended'] = None
        elif kind == 0:
            p.close_both()
        elif kind == 1:
            # corrupt the next client record: the server answers with a fatal alert, the client reads it
            p.csock.tap = lambda n, b: b[:-1] + bytes([b[-1] ^ 1])
            run_gen(p.client.writeAsync(b'x'))
            r1 = run_gen(p.server.readAsync(max=16, min=1))
            r2 = run_gen(p.client.readAsync(max=16, min=1))
            if classify(r1)[0] != 'LocalAlert' or classify(r2)[0] != 'RemoteAlert':
                self.flag('tie:fatal-close', 'could not produce a fatal alert seen by both ends', r1=repr(r1), r2=repr(r2))
            if o:
                o['inval_c'] = True
                o['inval_s_ticket' if conn.get('mech') in ('ticket', 'psk') else 'inval_s'] = True
        elif kind == 2:
            p.csock.close()
            r1 = run_gen(p.server.readAsync(max=16, min=1))
            if classify(r1)[0] != 'AbruptClose':
                self.flag('tie:abrupt-close', 'server did not see an abrupt close', r1=repr(r1))
            if o:
                o['inval_s_ticket' if conn.get('mech') in ('ticket', 'psk') else 'inval_s'] = True
        elif kind == 3:
            p.ssock.close()
            r1 = run_gen(p.client.readAsync(max=16, min=1))
            if classify(r1)[0] != 'AbruptClose':
                self.flag('tie:abrupt-close', 'client did not see an abrupt close', r1=repr(r1))
            if o:
                o['inval_c'] = True

    def tick(self, ev):
        self.q += max(0, ev['dt'])
        self.set_clock()

    def cfg(self, ev):
        srv = self.servers[ev['srv']]
        new = dict(ev['cfg'])
        new['cap'] = srv['cfg']['cap']          # the ring size of an existing cache cannot change
        ev['cfg'] = new
        srv['cfg'] = dict(new)
        srv['cache'].maxAge = new['maxage']

    def first_ticket(self, ci, which):
        s = self.objs[ci]['session']
        lst = s.tls_1_0_tickets if which == 0 else s.tickets
        return lst[0] if lst else None

    def tamper(self, ev):
        if ev['ci'] >= len(self.objs):
            return
        t = self.first_ticket(ev['ci'], ev['which'])
        if t is not None and ev.get('strict') and ev['bit'] >= 8 * len(t.ticket):
            ev['e'], ev['dt'] = 'tick', 0        # beyond the end of this ticket: nothing to flip
            return
        if t is not None:
            t.ticket = bytearray(t.ticket)
            bit = ev['bit'] % (8 * len(t.ticket))
            ev['bit'] = bit
            t.ticket[bit // 8] ^= 1 << (bit % 8)
            self.objs[ev['ci']]['altered'] = True

    def forge(self, ev):
        if ev['ci'] >= len(self.objs):
            return
        t = self.first_ticket(ev['ci'], ev['which'])
        if t is not None:
            r = random.Random(ev['n'])
            t.ticket = bytearray(r.getrandbits(8) for _ in range(len(t.ticket)))
            self.objs[ev['ci']]['altered'] = True

    def dev_keep(self, ev):
        if ev['ci'] >= len(self.objs):
            return
        self.set_clock()
        s = self.objs[ev['ci']]['session']
        for t in (s.tls_1_0_tickets or []):
            t.time_received = self.clock.now
        for t in (s.tickets or []):
            t.time = self.clock.now

    def dev_revive(self, ev):
        if ev['ci'] >= len(self.objs):
            return
        self.objs[ev['ci']]['session'].resumable = True
        self.objs[ev['ci']]['revived'] = True

    def dev_sni(self, ev):
        if ev['ci'] >= len(self.objs):
            return
        self.objs[ev['ci']]['session'].serverName = SNI[ev['sni']]

    def dev_rms(self, ev):
        """deviating client: the PSK binder is made with another secret (garbage binder)"""
        if ev['ci'] >= len(self.objs):
            return
        sess = self.objs[ev['ci']]['session']
        if sess.resumptionMasterSecret:
            r = bytearray(sess.resumptionMasterSecret)
            r[0] ^= 0x5a
            sess.resumptionMasterSecret = r
            self.objs[ev['ci']]['rms_altered'] = True

    def apply(self, ev):
        return {'conn': self.connect, 'close': self.close, 'tick': self.tick, 'cfg': self.cfg,
                'tamper': self.tamper, 'forge': self.forge, 'keep': self.dev_keep,
                'revive': self.dev_revive, 'devsni': self.dev_sni, 'devrms': self.dev_rms}[ev['e']](ev)

    # ---------------------------------------------------------------- the property, directly
    def oracle(self, ev, rec, cfg, o):
        """Checks the text of C13 on this connection using only what the harness itself knows
        (wire ClientHello/ServerHello, its own bookkeeping).  Independent of the Coq model."""
        v = rec['ver']
        vc = 'tls13' if v == 4 else 'tls12'
        hello = rec['hello']
        obs = rec['obs']
        done = obs[0] == 0
        resumed = done and (rec['srv_resumed'] or rec['cli_resumed'])
        offered = None      # which mechanism the ClientHello actually used
        if hello is not None and o is not None:
            if v == 4 and hello['psk']:
                offered = 'psk'
            elif v < 4 and hello['ticket']:
                offered = 'ticket'
            elif v < 4 and hello['sid'] and hello['sid'] == o['sid']:
                offered = 'sid'
        rec['offered'] = offered
        path = '%s-%s%s' % (offered, vc, {1: '-srp', 2: '-anon'}.get(ev.get('kind', 0), ''))
        cls = [vc, offered, 'resumed' if resumed else ('done' if done else 'abort%r' % (obs[:2],))]
        # ground truth about the offered session, as the property lists it
        conds = {}
        if o is not None and offered:
            same_server = (o['srv'] == ev['srv'])
            # what the server can know: a failure it saw itself.  A failure only the client saw obliges the
            # (honest) client not to offer the session any more; that is checked separately below.
            # inval_s: a connection bound to the server's cached Session object died at the server;
            # inval_s_ticket: a connection resumed from a ticket of this session did (the server end
            # then holds a fresh Session object, the failure cannot reach the cache entry)
            if offered == 'sid':
                conds['not-invalidated'] = not o['inval_s']
                conds['no-failed-ticket-connection'] = not o['inval_s_ticket']
            else:
                conds['not-invalidated'] = not (o['inval_s'] or o['inval_s_ticket'])
            if o['inval_c'] and not o['revived']:
                self.flag('client-offers-invalidated-session:' + path,
                          'the client offered session object %d although a fatal error invalidated it' % ev['offer'], conn=rec['ci'])
            conds['completed'] = o.get('completed', True)
            if offered == 'sid':
                conds['known-to-server'] = same_server and o['stored_q'] is not None
                conds['not-expired'] = o['stored_q'] is not None and self.q - o['stored_q'] <= cfg['maxage'] * 4
            else:
                conds['unaltered'] = not o['altered']
                conds['current-key'] = o['key'] is not None and o['key'] in cfg['keys']
                conds['not-expired'] = o['issued_q'] + cfg['life'] * 4 >= self.q
            p = o['params']
            cons = {}
            if v < 4:
                cons['suite-offered'] = p[0] in hello['suites']
                cons['suite-acceptable'] = p[0] in ev['acc']
                cons['sni'] = hello['sni'] == 0 or hello['sni'] == p[3]
                cons['srp'] = hello['srp'] == 0 or hello['srp'] == p[5]
                cons['etm'] = (not p[2]) or hello['etm']
                cons['ems'] = bool(p[1]) == hello['ems']
            if v == 4 and offered == 'psk':
                cons['binder'] = not o['rms_altered']     # RFC 8446 4.2.11.2: a wrong binder MUST abort
            rec['conds'], rec['cons'] = conds, cons
            cls.append(tuple(sorted(k for k, x in conds.items() if not x)))
            cls.append(tuple(sorted(k for k, x in cons.items() if not x)))
        rec['class'] = tuple(cls)
        self.conn_classes.append(rec['class'])
        if done:
            # both ends' `resumed` attributes must tell what happened on the wire, resumed or not
            wire = rec['srv_resumed']
            if rec['srv_resumed_attr'] != wire:
                self.flag('server-resumed-attribute-wrong:' + vc,
                          'connection %d: server connection.resumed=%s although the handshake on the wire was %sa resumption (offered: %s)'
                          % (rec['ci'], rec['srv_resumed_attr'], '' if wire else 'NOT ', offered), conn=rec['ci'])
            if not resumed:
                # declined / nothing offered: the server may only know what was proved on THIS connection
                proved = ev['ccert'] if (cfg['reqcert'] and ev['kind'] == 0 and cfg.get('auth', 0) != 2) else 0
                if rec['sview'][4] != proved:
                    self.flag('unproved-client-identity:%s' % path,
                              'connection %d was not resumed (%s) but the server session has client identity %r; '
                              'on this connection the client proved %r'
                              % (rec['ci'], 'nothing offered' if not offered else
                                 'offer declined: ' + (','.join(k for k, x in conds.items() if not x) or 'hello/suite mismatch'),
                                 rec['sview'][4], proved), conn=rec['ci'], conds=conds)
        if resumed:
            if o is None or not offered:
                self.flag('resumed-without-offer:' + vc, 'connection resumed although no session was offered', conn=rec['ci'])
                return
            for k, okk in conds.items():
                if not okk:
                    key = 'resumed-but:%s:%s' % (k, path)
                    if k == 'not-invalidated' and offered in ('ticket', 'psk'):
                        key = 'stateless-ticket-outlives-invalidation:' + vc
                    if k == 'no-failed-ticket-connection':
                        key = 'ticket-connection-failure-not-propagated-to-cache:' + vc
                    self.flag(key, 'connection %d resumed (%s) from a session that fails "%s"' % (rec['ci'], path, k),
                              conn=rec['ci'], conds=conds)
            for k, okk in cons.items():
                if not okk:
                    self.flag('resumed-but-hello-inconsistent:%s:%s' % (k, path),
                              'connection %d resumed although the ClientHello is inconsistent with the session (%s)' % (rec['ci'], k),
                              conn=rec['ci'], cons=cons)
            sv = rec['sview']
            names = ['suite', 'ems', 'etm', 'sni', 'client-identity', 'srp-user']
            for i, n in enumerate(names):
                want = o['params'][i]
                got = sv[i] if i < 5 else sv[6]
                if got != want:
                    self.flag('resumed-differs:%s:%s' % (n, path),
                              'resumed connection %d has %s=%r, the original session had %r' % (rec['ci'], n, got, want),
                              conn=rec['ci'], got=sv, want=o['params'])
            if rec['srv_resumed'] != rec['cli_resumed']:
                self.flag('ends-disagree-on-resumption:' + vc, 'client resumed=%s, server resumed=%s (wire)' % (rec['cli_resumed'], rec['srv_resumed']), conn=rec['ci'])
            return
        # not resumed: the connection must not break, unless a full handshake is impossible anyway
        # or the offer was a genuine session with an inconsistent hello (the server may abort then)
        if obs[0] in (3, 4):
            return      # client API refused before sending anything / handshake deliberately held up by the transport
        if not done and ev['fsuite'] != 0:
            genuine = bool(conds) and all(x for k, x in conds.items()
                                          if k not in ('not-invalidated', 'no-failed-ticket-connection'))
            inconsistent = genuine and not all(rec.get('cons', {}).values())
            # the server may refuse a genuine session offered with an inconsistent hello by an alert;
            # nothing entitles the client to abort once the server has started a full handshake
            if not (inconsistent and obs[0] == 1):
                who = {1: 'server', 2: 'client'}.get(obs[0], 'other')
                self.flag('fallback-broken:%s:%s-alert-%d' % (path, who, obs[1]),
                          'connection %d: resumption was not possible (%s) but instead of a full handshake the %s aborted with alert %d'
                          % (rec['ci'], 'nothing offered' if not offered else
                             ('offer declined: ' + ','.join(k for k, x in conds.items() if not x) if not genuine else 'offer consistent'),
                             who, obs[1]),
                          conn=rec['ci'], conds=conds, cons=rec.get('cons'))


# ------------------------------------------------------------------------------ generation
def rand_cfg(rng, maxv=None):
    life = rng.choice([8, 60, 100, 3600, 86400])
    return {'maxv': maxv or rng.choice([1, 2, 3, 3, 4, 4]),
            'keys': rng.choice([[], [1], [1], [1], [2, 1]]),
            'life': life, 'count': rng.choice([0, 1, 1, 2]),
            'usecache': rng.random() < 0.6, 'maxage': rng.choice([10, 50, 200, 14400]),
            'cap': rng.choice([2, 3, 10000, 10000]),
            'ems': rng.random() < 0.8, 'etm': rng.random() < 0.8, 'reqcert': rng.random() < 0.4,
            'menu': rng.choice([0, 0, 0, 1, 6, 7, 2, 5]),
            'auth': rng.choice([0, 0, 0, 0, 0, 0, 0, 1, 1, 2])}


def mutate_cfg(rng, cfg, keyctr):
    c = dict(cfg)
    what = rng.choice(['rotate', 'rotate', 'replace', 'nokeys', 'life', 'count', 'cache', 'maxage', 'menu',
                       'ems', 'etm', 'reqcert', 'maxv', 'auth'])
    if what == 'rotate':
        c['keys'] = [keyctr] + c['keys'][:1]
    elif what == 'replace':
        c['keys'] = [keyctr]
    elif what == 'nokeys':
        c['keys'] = []
    elif what == 'life':
        c['life'] = rng.choice([8, 60, 100, 3600])
    elif what == 'count':
        c['count'] = rng.choice([0, 1, 2])
    elif what == 'cache':
        c['usecache'] = not c['usecache']
    elif what == 'maxage':
        c['maxage'] = rng.choice([10, 50, 200])
    elif what == 'menu':
        c['menu'] = rng.choice([0, 1, 2, 5, 6, 7])
    elif what in ('ems', 'etm', 'reqcert'):
        c[what] = not c[what]
    elif what == 'maxv':
        c['maxv'] = rng.choice([1, 2, 3, 4])
    elif what == 'auth':
        c['auth'] = rng.choice([0, 0, 1, 2])
    return c, what


def gen_conn(rng, live, theme):
    ev = {'e': 'conn', 'srv': rng.randrange(len(live.servers)) if rng.random() < 0.85 else 0,
          'maxv': theme['maxv'] if rng.random() < 0.85 else rng.choice([1, 2, 3, 4]),
          'menu': theme['menu'] if rng.random() < 0.8 else rng.choice([0, 1, 2, 5, 6, 7]),
          'ems': theme['ems'] if rng.random() < 0.85 else (not theme['ems']),
          'etm': theme['etm'] if rng.random() < 0.85 else (not theme['etm']),
          'sni': theme['sni'], 'ccert': theme['ccert'] if rng.random() < 0.8 else rng.choice([0, 0, 1, 2]),
          'offer': None, 'kind': theme['kind'] if rng.random() < 0.85 else rng.choice([0, 1, 2]),
          'srp': 1 if rng.random() < 0.85 else 2}
    if live.objs and rng.random() < 0.85:
        ev['offer'] = len(live.objs) - 1 if rng.random() < 0.6 else rng.randrange(len(live.objs))
        o = live.objs[ev['offer']]
        if rng.random() < 0.8:
            ev['srv'] = o['srv']
        s = o['session']
        if s.valid():
            ev['sni'] = SNI.index(s.serverName or None)   # the client API insists on this ...
            # ... and on the SRP user name: an SRP session can only be offered by an SRP client of that user
            if s.srpUsername:
                ev['kind'], ev['srp'] = 1, srp_handle(s.srpUsername)
            elif ev['kind'] == 1:
                ev['kind'] = o.get('kind', 0) if o.get('kind', 0) != 1 else 0
    if ev['offer'] is None and rng.random() < 0.07:
        ev['half'] = rng.choice([1, 2])        # this handshake is held up before the client's Finished
        ev['maxv'] = min(ev['maxv'], 3)
    if ev['kind'] != 0:
        ev['ccert'] = 0
        ev['maxv'] = min(ev['maxv'], 3)          # SRP / anonymous suites exist up to TLS 1.2 only
    return ev


def gen_next(rng, live, theme, keyctr):
    if not live.conns:
        return gen_conn(rng, live, theme)
    r = rng.random()
    if r < 0.42:
        return gen_conn(rng, live, theme)
    if r < 0.57:
        opens = [i for i, c in enumerate(live.conns) if c['open']]
        if opens:
            return {'e': 'close', 'conn': rng.choice(opens), 'kind': rng.choice([0, 0, 1, 1, 2, 3])}
        return gen_conn(rng, live, theme)
    if r < 0.72:
        # land on / around an expiry boundary of something that exists
        targets = []
        for o in live.objs[-3:]:
            cfg = live.servers[o['srv']]['cfg']
            targets.append(o['issued_q'] + cfg['life'] * 4)
            if o['stored_q'] is not None:
                targets.append(o['stored_q'] + cfg['maxage'] * 4)
        if targets and rng.random() < 0.7:
            t = rng.choice(targets) + rng.choice([-4, -1, 0, 0, 1, 2, 4])
            if t > live.q:
                return {'e': 'tick', 'dt': t - live.q}
        return {'e': 'tick', 'dt': rng.choice([1, 2, 3, 4, 7, 40, 400, 4 * 3600, 4 * 86400 * 8])}
    if r < 0.84:
        i = rng.randrange(len(live.servers))
        c, _ = mutate_cfg(rng, live.servers[i]['cfg'], keyctr[0])
        keyctr[0] += 1
        return {'e': 'cfg', 'srv': i, 'cfg': c}
    if not live.objs:
        return gen_conn(rng, live, theme)
    ci = len(live.objs) - 1 if rng.random() < 0.7 else rng.randrange(len(live.objs))
    which = 1 if live.objs[ci]['ver'] == 4 else 0
    if r < 0.89:
        return {'e': 'tamper', 'ci': ci, 'which': which, 'bit': rng.randrange(4096)}
    if r < 0.91:
        return {'e': 'forge', 'ci': ci, 'which': which, 'n': rng.randrange(1000)}
    if r < 0.95:
        return {'e': 'keep', 'ci': ci}
    if r < 0.975:
        return {'e': 'revive', 'ci': ci}
    if r < 0.985 and which == 1:
        return {'e': 'devrms', 'ci': ci}
    return {'e': 'devsni', 'ci': ci, 'sni': rng.choice([0, 1, 2])}


def run_history(job):
    """job: dict(seed, max_conns, max_events) or dict(seed, cfgs, events) for a fixed history.
    Returns a picklable dict."""
    seed = job['seed']
    rng = random.Random(seed)
    if 'events' in job:
        cfgs = job['cfgs']
        live = Live(cfgs, seed)
        events = [dict(e) for e in job['events']]
        try:
            for ev in events:
                live.apply(ev)
        finally:
            live.done()
    else:
        nserv = 1 if rng.random() < 0.7 else 2
        tv = rng.choice([1, 2, 3, 3, 3, 4, 4, 4])
        cfgs = []
        for i in range(nserv):
            c = rand_cfg(rng, maxv=tv if rng.random() < 0.8 else None)
            if i == 1:
                c['keys'] = [k + 100 for k in c['keys']]      # a foreign server has its own keys
            cfgs.append(c)
        theme = {'maxv': tv if rng.random() < 0.8 else rng.choice([1, 2, 3, 4]),
                 'menu': rng.choice([0, 0, 0, 1, 6, 7, 5]),
                 'ems': rng.random() < 0.8, 'etm': rng.random() < 0.8,
                 'sni': rng.choice([0, 1, 1, 2]), 'ccert': rng.choice([0, 0, 1, 2]),
                 'kind': cfgs[0].get('auth', 0)}
        live = Live(cfgs, seed)
        events = []
        keyctr = [10]
        try:
            nconn = 0
            while len(events) < job['max_events'] and nconn < job['max_conns']:
                ev = gen_next(rng, live, theme, keyctr)
                live.apply(ev)
                events.append(ev)
                if ev['e'] == 'conn':
                    nconn += 1
        finally:
            live.done()
    return {'seed': seed, 'cfgs': cfgs, 'events': events, 'obs': live.obs,
            'verdicts': live.verdicts, 'conn_classes': live.conn_classes}


# ------------------------------------------------------------------------------ literals
def zlit(n):
    return str(int(n)) if n >= 0 else '(%d)' % n


def b(x):
    return 'true' if x else 'false'


def zl(xs):
    return '[' + ';'.join(str(int(x)) for x in xs) + ']'


def cfg_lit(c):
    return ('{| sv_maxv := %d; sv_keys := %s; sv_life := %d; sv_count := %d; sv_usecache := %s; sv_maxage := %d; '
            'sv_cap := %d; sv_ems := %s; sv_etm := %s; sv_reqcert := %s |}'
            % (c['maxv'], zl(c['keys']), c['life'] * 4, c['count'], b(c['usecache']), c['maxage'] * 4, c['cap'],
               b(c['ems']), b(c['etm']), b(c['reqcert'])))


def event_lit(ev):
    e = ev['e']
    if e == 'conn':
        return ('EConn {| cp_srv := %d; cp_maxv := %d; cp_suites := %s; cp_ems := %s; cp_etm := %s; cp_sni := %d; '
                'cp_srp := %d; cp_ccert := %d; cp_offer := %s; cp_half := %d; o_acc := %s; o_fsuite := %d; o_fcbc := %s; o_fhash := %d; o_falert := %d |}'
                % (ev['srv'], ev['maxv'], zl(ev['suites']), b(ev['ems']), b(ev['etm']), ev['sni'], ev.get('srp', 0),
                   ev['ccert'] if ev.get('kind', 0) == 0 else 0,
                   'None' if ev['offer'] is None else '(Some %d)' % ev['offer'], ev.get('half', 0),
                   zl(ev['acc']), ev['fsuite'], b(ev['fcbc']), ev['fhash'], ev['falert']))
    if e == 'close':
        return 'EClose %d %d' % (ev['conn'], ev['kind'])
    if e == 'tick':
        return 'ETick %s' % zlit(ev['dt'])
    if e == 'cfg':
        return 'ECfg %d %s' % (ev['srv'], cfg_lit(ev['cfg']))
    if e == 'tamper':
        return 'ETamper %d %d %s' % (ev['ci'], ev['which'], zlit(ev['bit']))
    if e == 'forge':
        return 'EForge %d %d %d' % (ev['ci'], ev['which'], ev['n'])
    if e == 'keep':
        return 'EDevKeep %d' % ev['ci']
    if e == 'revive':
        return 'EDevRevive %d' % ev['ci']
    if e == 'devsni':
        return 'EDevSni %d %d' % (ev['ci'], ev['sni'])
    if e == 'devrms':
        return 'EDevRms %d' % ev['ci']
    raise ValueError(e)


def history_lit(res):
    return '([%s],\n [%s],\n [%s])' % (';'.join(cfg_lit(c) for c in res['cfgs']),
                                     ';\n  '.join(event_lit(e) for e in res['events']),
                                     ';'.join(zl(o) for o in res['obs']))
