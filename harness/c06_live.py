"""C06 live machinery: a deviating peer built around a real TLSConnection.

The endpoint under test (EUT) is never patched.  The PEER endpoint's _sendMsg /
_queue_message / _queue_flush / record-layer changeWriteState are wrapped: every handshake
or ChangeCipherSpec message the peer wants to send is queued, its own transcript hash is
updated as if it had been sent, and at the end of each flight (the peer starts waiting for
input) the queued list is transformed by the deviation ops and emitted record by record.
Records are handed to the EUT one at a time, only when the EUT has consumed everything
before, so the harness knows exactly which records the EUT had seen when it completed or
aborted.  Each emitted record is described by a symbol of the Coq model's alphabet
(epoch, payload), see coq/Model/C06_HsOrder.v.
"""
import os
import sys

import loop
from tlslite.constants import ContentType, HandshakeType, AlertDescription, AlertLevel, CertificateType
from tlslite.messages import (Message, ChangeCipherSpec, HelloRequest, ServerHelloDone, Finished,
                              NewSessionTicket1_0, KeyUpdate, Certificate, ApplicationData, Alert,
                              CertificateRequest)
from tlslite.x509certchain import X509CertChain
from tlslite import errors as tlserr

HS_NAMES = {0: 'HReq', 1: 'CH', 2: 'SH', 4: 'NST', 5: 'EOED', 8: 'EE', 11: 'Cert', 12: 'SKE', 13: 'CR',
            14: 'SHD', 15: 'CV', 16: 'CKE', 20: 'Fin', 24: 'KU', 25: 'CCert', 67: 'NPN'}
HRR_RANDOM = bytes.fromhex('CF21AD74E59A6111BE1D8C021E65B891C2A211167ABB8C5E079E09E2C8A8339C')


def hs_kind(data):
    """model name of a serialized handshake message"""
    t = data[0]
    if t == 2 and len(data) >= 38 and bytes(data[6:38]) == HRR_RANDOM:
        return 'HRR'
    if t == 11:
        # empty certificate list?  <=1.2: 3-byte list length; 1.3: context(1) + list length(3)
        body = data[4:]
        if len(body) == 3 and body == b'\x00\x00\x00':
            return 'CertE'
        if len(body) == 4 and body == b'\x00\x00\x00\x00':
            return 'CertE'
        return 'CertN'
    return HS_NAMES.get(t, 'HOther')


class Item(object):
    """one thing to put on the wire: bytes of one content type under one write epoch"""

    def __init__(self, ct, data, epoch, ver=None, tag=''):
        self.ct, self.data, self.epoch, self.ver, self.tag = ct, bytes(data), epoch, ver, tag
        self.prot_ccs = False     # TLS 1.3: send as a protected record with inner type 20
        self.raw = False          # bytes go on the wire as they are (a record nobody can open)

    def copy(self):
        i = Item(self.ct, self.data, self.epoch, self.ver, self.tag)
        i.prot_ccs = self.prot_ccs
        i.raw = self.raw
        if getattr(self, 'bad_content', False):
            i.bad_content = True
        return i

    def kind(self):
        if self.ct == ContentType.handshake:
            return hs_kind(self.data)
        return {20: 'CCS', 21: 'Alert', 23: 'App', 24: 'HB'}.get(self.ct, 'ct%d' % self.ct)


def extra_item(what, epoch, ver, version, ref_items):
    """messages a deviating peer may add"""
    hs = ContentType.handshake
    if what == 'HReq':
        return Item(hs, HelloRequest().create().write(), epoch, ver)
    if what == 'SHD':
        return Item(hs, ServerHelloDone().create().write(), epoch, ver)
    if what == 'Fin':
        n = 36 if version == (3, 0) else (32 if version >= (3, 4) else 12)
        f = Finished(version, 32) if version >= (3, 4) else Finished(version)
        it = Item(hs, f.create(bytearray(b'\x5a' * n)).write(), epoch, ver)
        it.bad_content = True
        return it
    if what == 'CCS':
        return Item(ContentType.change_cipher_spec, ChangeCipherSpec().create().write(), epoch, ver)
    if what == 'CCSbad':
        return Item(ContentType.change_cipher_spec, b'\x02', epoch, ver)
    if what == 'CCSprot':
        i = Item(ContentType.change_cipher_spec, b'\x01', epoch, ver)
        i.prot_ccs = True
        return i
    if what == 'NST':
        return Item(hs, NewSessionTicket1_0().create(3600, bytearray(b'harness-ticket-0123456789abcdef')).write(),
                    epoch, ver)
    if what == 'KU':
        return Item(hs, KeyUpdate().create(0).write(), epoch, ver)
    if what == 'App':
        return Item(ContentType.application_data, b'early application data', epoch, ver)
    if what == 'AppEmpty':
        return Item(ContentType.application_data, b'', epoch, ver)
    if what == 'CertE':
        c = Certificate(CertificateType.x509, version)
        c.create(X509CertChain([]), bytearray()) if version >= (3, 4) else c.create(X509CertChain([]))
        return Item(hs, c.write(), epoch, ver)
    if what == 'Undec':
        # what a stray early-data / wrong-epoch / forged record looks like: application_data outer
        # type, 40 bytes that open under no key
        body = bytes((i * 37 + 11) & 0xff for i in range(40))
        it = Item(ContentType.application_data, b'\x17\x03\x03\x00\x28' + body, epoch, ver)
        it.raw = True
        return it
    if what == 'CR':
        from tlslite.constants import ClientCertificateType, HashAlgorithm, SignatureAlgorithm, SignatureScheme
        cr = CertificateRequest(version)
        if version >= (3, 4):
            from tlslite.extensions import SignatureAlgorithmsExtension
            ext = SignatureAlgorithmsExtension().create([SignatureScheme.rsa_pss_rsae_sha256,
                                                         SignatureScheme.rsa_pkcs1_sha256])
            cr.create(context=b'', extensions=[ext])
        else:
            cr.create([ClientCertificateType.rsa_sign], [],
                      [(HashAlgorithm.sha256, SignatureAlgorithm.rsa), (HashAlgorithm.sha1, SignatureAlgorithm.rsa)])
        it = Item(hs, cr.write(), epoch, ver)
        it.swallow = True
        return it
    if what == 'CH' or what == 'SH':
        for it in ref_items:
            if it.ct == hs and it.kind() in (what, 'HRR' if what == 'SH' else what):
                return Item(hs, it.data, epoch, ver)
        return None
    if what == 'AlertNoCert':
        # the SSLv3-only way of saying "no client certificate"
        return Item(ContentType.alert, Alert().create(AlertDescription.no_certificate, AlertLevel.warning).write(),
                    epoch, ver)
    if what == 'AlertWarn':
        return Item(ContentType.alert, Alert().create(AlertDescription.user_canceled, AlertLevel.warning).write(),
                    epoch, ver)
    raise ValueError(what)


# ------------------------------------------------------------------------------------------
class DevPeer(object):
    """Wraps the peer endpoint.  ops: list of dicts (see apply_ops)."""

    def __init__(self, conn, sock, ops, version):
        self.conn, self.sock, self.ops = conn, sock, list(ops)
        self.version = version
        self.k = 0                    # index of the next handshake/CCS message the peer produces
        self.held = []                # Items of the current flight
        self.sent_items = []          # every honest Item produced so far (for replays)
        self.records = []             # [(sym, bytes)] in wire order, not yet given to the EUT
        self.syms = []                # symbols of all emitted records
        self.cur = None
        rl = conn._recordLayer
        self.wstates = [rl._writeState]
        self.orig_send = conn._sendMsg
        self.orig_cws = rl.changeWriteState
        conn._sendMsg = self.sendMsg
        conn._queue_message = self.queue_message
        conn._queue_flush = self.queue_flush
        rl.changeWriteState = self.changeWriteState
        self.swap_pending = None
        self.swallow_cert = False     # the peer (a server) asked for a certificate it did not plan
        self.orig_getmsg = conn._getMsg
        conn._getMsg = self.getMsg
        self.orig_nextrec = conn._getNextRecord
        conn._getNextRecord = self.getNextRecord
        self.swallowed_warnings = []
        sock.tap = self.tap
        self.applied = []
        self.honest_log = []          # (k, kind, epoch, flight)
        self.flight = 0

    # ---- wrappers installed on the peer
    def changeWriteState(self):
        self.orig_cws()
        self.wstates.append(self.conn._recordLayer._writeState)

    def epoch(self):
        return len(self.wstates) - 1

    def _ver(self):
        rl = self.conn._recordLayer
        return (rl.version, getattr(rl, 'tls13record', False))

    def sendMsg(self, msg, randomizeFirstBlock=True, update_hashes=True):
        ct = msg.contentType
        if ct in (ContentType.alert, ContentType.application_data, ContentType.heartbeat):
            # the peer's own alerts / data: keep wire order, then pass through
            for r in self.flush_flight():
                yield r
            data = msg.write()
            it = Item(ct, data, self.epoch(), self._ver())
            for r in self.emit_record([it], self.sym_plain(it)):
                yield r
            return
        self.process(msg)
        if False:
            yield 0

    def getMsg(self, expectedType, secondaryType=None, constructorType=None):
        """peer side only: a server that slipped in a CertificateRequest of its own consumes the
        Certificate message a lenient client answers with (a consistently deviating peer)"""
        want = secondaryType if isinstance(secondaryType, tuple) else (secondaryType,)
        if self.swallow_cert and (HandshakeType.client_key_exchange in want or
                                  (self.version >= (3, 4) and HandshakeType.finished in want)):
            self.swallow_cert = False
            for r in self.orig_getmsg(ContentType.handshake, HandshakeType.certificate, CertificateType.x509):
                if r in (0, 1):
                    yield r
        for r in self.orig_getmsg(expectedType, secondaryType, constructorType):
            yield r

    def getNextRecord(self):
        """peer side only: a no_renegotiation warning from the endpoint under test does not stop
        the deviating peer"""
        for r in self.orig_nextrec():
            if isinstance(r, tuple) and r[0].type == ContentType.alert:
                b = r[1].bytes
                if len(b) >= 2 and b[0] == AlertLevel.warning and b[1] == AlertDescription.no_renegotiation:
                    self.swallowed_warnings.append(int(b[1]))
                    continue
            yield r

    def _hold(self, it, k=None, extra=False, do_hash=True):
        """queue an Item for the current flight; the peer's OWN transcript covers exactly what it
        really sends (a consistently deviating peer, not an on-path modification)"""
        it.k = k
        it.extra = extra
        if getattr(it, 'swallow', False) and not self.conn._client:
            self.swallow_cert = True
        if it.ct == ContentType.handshake and do_hash:
            self.conn._handshake_hash.update(bytearray(it.data))
        self.held.append(it)

    def process(self, msg):
        """message-level deviations are applied when the peer produces the message"""
        ct = msg.contentType
        data = msg.write()
        k = self.k
        self.k += 1
        it = Item(ct, data, self.epoch(), self._ver(), tag='k%d' % k)
        self.honest_log.append((k, it.kind(), it.epoch, self.flight))
        self.sent_items.append(it)
        mine = [o for o in self.ops if o.get('k') == k]
        for o in mine:
            if o['op'] == 'insert':
                x = extra_item(o['what'], it.epoch if o.get('epoch') is None else o['epoch'], it.ver,
                               self.version, self.sent_items)
                if x is not None:
                    # nohash: the message stays out of the peer's transcript (what an endpoint that
                    # silently skips it would compute)
                    self._hold(x, None, True, do_hash=not o.get('nohash'))
                    self.applied.append(o)
        if any(o['op'] == 'swap' for o in mine) and self.swap_pending is None:
            # the message is held back; it enters the peer's transcript now (values the peer derives
            # before the next message stay those of an honest run) and the order in the transcript
            # is corrected when the next handshake message arrives
            snap = self.conn._handshake_hash.copy()
            if ct == ContentType.handshake:
                self.conn._handshake_hash.update(bytearray(data))
            self.swap_pending = (it, k, [o for o in mine if o['op'] == 'swap'][0], (snap, len(self.held)))
            return
        if any(o['op'] == 'skip' for o in mine):
            self.applied.append([o for o in mine if o['op'] == 'skip'][0])
        elif any(o['op'] == 'replace' for o in mine):
            o = [o for o in mine if o['op'] == 'replace'][0]
            x = extra_item(o['what'], it.epoch, it.ver, self.version, self.sent_items)
            if x is not None:
                self._hold(x, None, True)
                self.applied.append(o)
            else:
                self._hold(it, k)
        else:
            self._hold(it, k)
            for o in mine:
                if o['op'] == 'dup':
                    self._hold(it.copy(), None, True)
                    self.applied.append(o)
        for o in mine:
            if o['op'] == 'append':
                x = extra_item(o['what'], it.epoch if o.get('epoch') is None else o['epoch'], it.ver,
                               self.version, self.sent_items)
                if x is not None:
                    self._hold(x, None, True)
                    self.applied.append(o)
        if self.swap_pending is not None and self.swap_pending[1] != k:
            pit, pk, po, snap = self.swap_pending
            self.swap_pending = None
            pit.epoch = self.epoch()
            pit.ver = self._ver()
            if ct == ContentType.handshake and pit.ct == ContentType.handshake:
                # transcript in the order really sent: ..., k+1, k
                self.conn._handshake_hash = snap[0]
                for h in self.held[snap[1]:]:
                    if h.ct == ContentType.handshake:
                        self.conn._handshake_hash.update(bytearray(h.data))
                self.conn._handshake_hash.update(bytearray(pit.data))
            self._hold(pit, pk, do_hash=False)
            self.applied.append(po)

    def queue_message(self, msg):
        self.process(msg)

    def queue_flush(self):
        if False:
            yield 0

    def tap(self, name, chunk):
        self.records.append([self.cur, chunk])
        return b''

    # ---- symbols
    def sym_plain(self, it, aligned=True):
        ct = it.ct
        if ct == ContentType.handshake:
            if getattr(it, 'bad_content', False):
                return (it.epoch, 'PH', it.kind(), aligned, 'bad')
            return (it.epoch, 'PH', it.kind(), aligned)
        if ct == ContentType.change_cipher_spec:
            # the TLS 1.3 record layer never protects a ChangeCipherSpec record
            ep = 0 if (self.version >= (3, 4) and not it.prot_ccs) else it.epoch
            return (ep, 'PCcs', it.data == b'\x01')
        if ct == ContentType.alert:
            lvl, desc = it.data[0], it.data[1]
            if desc == 0:
                k = 'AClose'
            elif lvl == 1 and desc == AlertDescription.no_certificate:
                k = 'AWarnNoCert'
            elif lvl == 1:
                k = 'AWarn'
            else:
                k = 'AFatal'
            return (it.epoch, 'PAlert', k)
        if ct == ContentType.application_data:
            if it.raw:
                return (2, 'PApp', False, 'undec')
            return (it.epoch, 'PApp', len(it.data) == 0)
        if ct == ContentType.heartbeat:
            return (it.epoch, 'PHb')
        raise ValueError(ct)

    # ---- emission
    def emit_record(self, items, syms, epoch=None):
        """items: Items of ONE content type sent in ONE record under one epoch.
        syms: symbol or list of symbols describing the record for the model."""
        if not isinstance(syms, list):
            syms = [syms]
        it0 = items[0]
        ep = it0.epoch if epoch is None else epoch
        rl = self.conn._recordLayer
        saved = (rl._writeState, rl.version, getattr(rl, 'tls13record', None))
        rl._writeState = self.wstates[ep]
        if it0.ver is not None:
            rl.version = it0.ver[0]
            if saved[2] is not None:
                rl.tls13record = it0.ver[1]
        first = len(self.syms)
        self.syms.extend(syms)
        self.cur = first + len(syms) - 1      # the record is "complete" for the EUT at its last symbol
        try:
            data = b''.join(i.data for i in items)
            if it0.raw:
                self.conn.sock.send(bytearray(it0.data))
            elif it0.prot_ccs:
                for r in self._send_protected(ContentType.change_cipher_spec, data):
                    yield r
            else:
                for r in self.conn._recordLayer.sendRecord(Message(it0.ct, bytearray(data))):
                    yield r
            self.conn.sock.flush()
        finally:
            rl._writeState = saved[0]
            rl.version = saved[1]
            if saved[2] is not None:
                rl.tls13record = saved[2]
            self.cur = None

    def _send_protected(self, inner_type, data):
        """TLS 1.3 record protected under the current write keys with an arbitrary inner type."""
        rl = self.conn._recordLayer
        buf = bytearray(data) + bytearray([inner_type])
        enc = rl._encryptThenSeal(buf, ContentType.application_data)
        for r in rl._recordSocket.send(Message(ContentType.application_data, enc), 0):
            yield r

    def flush_flight(self):
        if self.swap_pending is not None:       # nothing followed in this flight: no swap
            pit, pk, po, snap = self.swap_pending
            self.swap_pending = None
            self._hold(pit, pk, do_hash=False)
        if not self.held:
            return
        items, self.held = self.held, []
        self.flight += 1
        plan = apply_ops(self, items)
        for rec in plan:
            for r in self.emit_record(rec['items'], rec['syms'], rec.get('epoch')):
                yield r

    # ---- delivery to the EUT, one record at a time
    def deliver_next(self):
        if not self.records:
            return False
        cur, chunk = self.records.pop(0)
        self.sock.peer.inbuf += chunk
        if cur is not None:
            self.delivered = max(getattr(self, 'delivered', 0), cur + 1)
        return True


def hsym(it, ep, kind, aligned):
    """symbol of a handshake message (marks messages whose CONTENT is deliberately wrong)"""
    if getattr(it, 'bad_content', False):
        return (ep, kind, it.kind(), aligned, 'bad')
    return (ep, kind, it.kind(), aligned)


def split_at(data, n):
    n = max(1, min(len(data) - 1, n))
    return data[:n], data[n:]


def apply_ops(dp, items):
    """Transform one flight (list of honest Items) into a list of records
    {'items': [...], 'syms': [...], 'epoch': override}.  Ops address messages by their
    global index k (order in which the honest peer produces them)."""
    ops = dp.ops
    seq = []        # list of ('item', Item) after message-level ops
    ks = [it.k for it in items]

    def find(op):
        return [o for o in ops if o['op'] == op and o.get('k') in ks]

    work = list(items)
    for o in ops:
        if o['op'] == 'epoch':
            for it in work:
                if getattr(it, 'k', None) == o.get('k') and o.get('k') is not None:
                    it.epoch = o['epoch']
                    dp.applied.append(o)
    # 'merge': message k and all later handshake messages of the flight travel in ONE record under
    # k's epoch (ChangeCipherSpec items in between are dropped)
    o_merge = next((o for o in ops if o['op'] == 'merge' and o.get('k') in ks), None)
    if o_merge:
        idx = next((i for i, it in enumerate(work) if getattr(it, 'k', None) == o_merge['k']), None)
        if idx is not None and work[idx].ct == ContentType.handshake:
            head = work[:idx]
            tail = [it for it in work[idx:] if it.ct == ContentType.handshake]
            recs0 = []
            for it in head:
                recs0.append({'items': [it], 'syms': [dp.sym_plain(it)]})
            ep = tail[0].epoch
            syms = []
            for j, it in enumerate(tail):
                it.epoch = ep
                it.ver = tail[0].ver
                last = j == len(tail) - 1
                syms.append(hsym(it, ep, 'PH' if j == 0 else 'PBufH', last))
            recs0.append({'items': tail, 'syms': syms})
            dp.applied.append(o_merge)
            return recs0
    # record-level ops
    recs = []
    i = 0
    while i < len(work):
        it = work[i]
        k = getattr(it, 'k', None)
        o_split = next((o for o in ops if o['op'] == 'split' and o.get('k') == k and k is not None), None)
        o_coal = next((o for o in ops if o['op'] == 'coalesce' and o.get('k') == k and k is not None), None)
        o_span = next((o for o in ops if o['op'] == 'span' and o.get('k') == k and k is not None), None)
        o_glue = next((o for o in ops if o['op'] == 'glue' and o.get('k') == k and k is not None), None)
        if o_glue and it.ct == ContentType.handshake:
            # an extra handshake message rides in the SAME record, behind message k (it is not part
            # of the peer's transcript: it belongs to what follows)
            x = extra_item(o_glue['what'], it.epoch, it.ver, dp.version, dp.sent_items)
            if x is not None:
                recs.append({'items': [it, x],
                             'syms': [hsym(it, it.epoch, 'PH', False), hsym(x, it.epoch, 'PBufH', True)]})
                dp.applied.append(o_glue)
                i += 1
                continue
        if o_split and it.ct == ContentType.handshake and len(it.data) > 1:
            a, b = split_at(it.data, o_split.get('at', 2))
            ia, ib = it.copy(), it.copy()
            ia.data, ib.data = a, b
            recs.append({'items': [ia], 'syms': [(it.epoch, 'PFrag')]})
            mid = o_split.get('between')
            if mid:
                x = extra_item(mid, it.epoch, it.ver, dp.version, dp.sent_items)
                recs.append({'items': [x], 'syms': [dp.sym_plain(x)]})
            recs.append({'items': [ib], 'syms': [hsym(it, it.epoch, 'PH', True)]})
            dp.applied.append(o_split)
        elif o_coal and i + 1 < len(work) and work[i + 1].ct == it.ct == ContentType.handshake \
                and work[i + 1].epoch == it.epoch:
            nxt = work[i + 1]
            part = o_coal.get('part')
            if part:
                a, b = split_at(nxt.data, part)
                na, nb = nxt.copy(), nxt.copy()
                na.data, nb.data = a, b
                recs.append({'items': [it, na],
                             'syms': [hsym(it, it.epoch, 'PH', False), (it.epoch, 'PBufFrag')]})
                recs.append({'items': [nb], 'syms': [hsym(nxt, nxt.epoch, 'PH', True)]})
            else:
                recs.append({'items': [it, nxt],
                             'syms': [hsym(it, it.epoch, 'PH', False), hsym(nxt, it.epoch, 'PBufH', True)]})
            i += 1
            dp.applied.append(o_coal)
        elif o_span and it.ct == ContentType.handshake and len(it.data) > 1:
            # the first bytes of message k travel EARLIER: at the end of the record of the previous
            # handshake message ('join'), or as a record of their own before the previous item
            # (e.g. before ChangeCipherSpec), under that earlier item's epoch
            a, b = split_at(it.data, o_span.get('at', 4))
            ia, ib = it.copy(), it.copy()
            ia.data, ib.data = a, b
            j = len(recs) - 1
            while j >= 0 and recs[j]['items'][0].ct != ContentType.handshake:
                j -= 1
            if o_span.get('join') and j >= 0 and len(recs[j]['syms']) == 1 and recs[j]['syms'][0][1] == 'PH':
                prev = recs[j]
                pit = prev['items'][0]
                ia.epoch = pit.epoch
                ia.ver = pit.ver
                prev['items'].append(ia)
                s0 = prev['syms'][0]
                prev['syms'] = [tuple([s0[0], 'PH', s0[2], False] + list(s0[4:])), (s0[0], 'PBufFrag')]
                recs.append({'items': [ib], 'syms': [hsym(it, it.epoch, 'PH', True)]})
                dp.applied.append(o_span)
            elif recs and recs[-1]['items'][0].ct != ContentType.handshake:
                pit = recs[-1]['items'][0]
                ia.epoch = pit.epoch
                ia.ver = pit.ver
                recs.insert(len(recs) - 1, {'items': [ia], 'syms': [(pit.epoch, 'PFrag')]})
                recs.append({'items': [ib], 'syms': [hsym(it, it.epoch, 'PH', True)]})
                dp.applied.append(o_span)
            else:
                recs.append({'items': [it], 'syms': [dp.sym_plain(it)]})
        else:
            s = dp.sym_plain(it)
            if it.prot_ccs:
                s = (it.epoch, 'PCcs', True)
            recs.append({'items': [it], 'syms': [s]})
        i += 1
    return recs


# ------------------------------------------------------------------------------------------
def wrap_gen(gen, on_wait):
    """run gen; whenever it reports 'waiting to read' call on_wait() (a generator) first"""
    while True:
        try:
            r = next(gen)
        except StopIteration:
            for x in on_wait():
                yield x
            return
        if r == 0:
            for x in on_wait():
                yield x
        yield r


def eut_gen(gen, dp, state):
    """the EUT's generator, fed one record at a time"""
    while True:
        try:
            r = next(gen)
        except StopIteration:
            state['done_at'] = getattr(dp, 'delivered', 0)
            return
        except Exception:
            state['done_at'] = getattr(dp, 'delivered', 0)
            raise
        if r == 0 and not dp.sock.peer.inbuf:
            if dp.deliver_next():
                yield 1       # progress
                continue
        yield r


# ------------------------------------------------------------------------------------------
# flavours: role under test x version x key exchange x options
VERS = {'ssl3': (3, 0), 'tls10': (3, 1), 'tls11': (3, 2), 'tls12': (3, 3), 'tls13': (3, 4)}
PSK = (b'c06-psk-identity', b'\x42' * 32, 'sha256')
_VDB = {}


def vdb():
    if 'db' not in _VDB:
        _VDB['db'] = loop.make_verifier_db(b'test', b'password', 1024)
    return _VDB['db']


def flavour_setup(fl):
    """-> (client_kind, client_kw, server_kw) for loop-style handshakes.
    fl: dict(eut, ver, kx, reqcert, clientcert, ticket, npn, hrr, resume)"""
    ver = VERS[fl['ver']]
    kx = fl['kx']
    cs = loop.settings(minv=ver, maxv=ver)
    ss = loop.settings(minv=ver, maxv=ver)
    for s in (cs, ss):
        s.use_heartbeat_extension = False
        s.ticket_count = 0
        if not fl.get('compress'):
            s.certificate_compression_send = []
    ckw, skw = {'settings': cs}, {'settings': ss}
    kind = 'cert'
    chain, key = loop.creds('rsa')
    if ver <= (3, 3):
        names = {'rsa': ['rsa'], 'dhe': ['dhe_rsa'], 'ecdhe': ['ecdhe_rsa'], 'srp': ['srp_sha'],
                 'srpcert': ['srp_sha_rsa'], 'anon': ['dh_anon'], 'anonec': ['ecdh_anon']}[kx]
        cs.keyExchangeNames = list(names)
        ss.keyExchangeNames = list(names)
        if kx in ('rsa', 'dhe', 'ecdhe'):
            skw.update(certChain=chain, privateKey=key)
        elif kx == 'srp':
            kind = 'srp'
            ckw.update(username=bytearray(b'test'), password=bytearray(b'password'))
            skw.update(verifierDB=vdb())
        elif kx == 'srpcert':
            kind = 'srp'
            ckw.update(username=bytearray(b'test'), password=bytearray(b'password'))
            skw.update(verifierDB=vdb(), certChain=chain, privateKey=key)
        else:
            kind = 'anon'
            skw.update(anon=True)
        if fl.get('ticket'):
            ss.ticketKeys = [bytearray(b'\x07' * 32)]
            ss.ticket_count = 1
        if fl.get('npn'):
            ckw['nextProtos'] = [b'http/1.1']
            skw['nextProtos'] = [b'http/1.1']
        # boundary values of the options that decide which messages are mandatory: None / [] / [x]
        if 'npn_c' in fl:
            ckw['nextProtos'] = None if fl['npn_c'] is None else [x.encode() for x in fl['npn_c']]
        if 'npn_s' in fl:
            skw['nextProtos'] = None if fl['npn_s'] is None else [x.encode() for x in fl['npn_s']]
        if fl.get('alpn'):
            ckw['alpn'] = [b'http/1.1']
            skw['alpn'] = [b'http/1.1']
        if 'tk_keys' in fl:
            ss.ticketKeys = [bytearray(b'\x07' * 32)] if fl['tk_keys'] else []
        if 'tk_count' in fl:
            ss.ticket_count = fl['tk_count']
    else:
        if kx == 'psk13':
            cs.pskConfigs = [PSK]
            ss.pskConfigs = [PSK]
            skw.update(certChain=chain, privateKey=key)
        else:
            skw.update(certChain=chain, privateKey=key)
        if fl.get('early'):
            cs.pskConfigs = [PSK]
            ss.pskConfigs = [PSK]
        if fl.get('hrr'):
            cs.keyShares = ['secp256r1']
            ss.keyShares = ['x25519']
            ss.eccCurves = ['x25519']
            ss.dhGroups = []
    if fl.get('reqcert'):
        skw['reqCert'] = True
        if fl.get('clientcert') and kind == 'cert':
            cchain, ckey = loop.creds('client-rsa')
            ckw.update(certChain=cchain, privateKey=ckey)
    return kind, ckw, skw


def start_gens(pair, kind, ckw, skw):
    if kind == 'cert':
        cg = pair.client.handshakeClientCert(async_=True, **ckw)
    elif kind == 'anon':
        cg = pair.client.handshakeClientAnonymous(async_=True, **ckw)
    else:
        cg = pair.client.handshakeClientSRP(async_=True, **ckw)
    sg = pair.server.handshakeServerAsync(**skw)
    return cg, sg


def plaintext_handshake(chunks):
    """handshake messages of the unprotected first flight(s) in a byte stream: [(type, bytes)]"""
    data = b''.join(bytes(c) for c in chunks)
    out, buf, i = [], b'', 0
    while i + 5 <= len(data):
        ct, ln = data[i], (data[i + 3] << 8) | data[i + 4]
        body = data[i + 5:i + 5 + ln]
        i += 5 + ln
        if ct == ContentType.change_cipher_spec:
            break
        if ct != ContentType.handshake:
            continue
        buf += body
        while len(buf) >= 4:
            n = (buf[1] << 16) | (buf[2] << 8) | buf[3]
            if len(buf) < 4 + n:
                break
            out.append((buf[0], buf[:4 + n]))
            buf = buf[4 + n:]
    return out


def observed_flags(eut_is_client, eut_msgs, peer_msgs, version):
    """what the wire says about the negotiated options (the EMISSION side): which extensions the
    ServerHello carried, whether a CertificateRequest / HelloRetryRequest was sent"""
    from tlslite.messages import ServerHello
    from tlslite.utils.codec import Parser
    from tlslite.constants import ExtensionType
    srv = peer_msgs if eut_is_client else eut_msgs
    obs = {}
    shs = [m for (t, m) in srv if t == HandshakeType.server_hello]
    real = [m for m in shs if hs_kind(m) == 'SH']
    obs['hrr'] = any(hs_kind(m) == 'HRR' for m in shs)
    if real:
        try:
            sh = ServerHello().parse(Parser(bytearray(real[0][1:])))
            exts = set(e.extType for e in (sh.extensions or []))
            obs['npn'] = ExtensionType.supports_npn in exts
            obs['ticket'] = ExtensionType.session_ticket in exts
            obs['alpn'] = ExtensionType.alpn in exts
        except Exception as e:  # noqa
            obs['parse_error'] = repr(e)
    if version < (3, 4):
        obs['reqcert'] = any(t == HandshakeType.certificate_request for (t, m) in srv)
        obs['full'] = any(t == HandshakeType.server_hello_done for (t, m) in srv)
    return obs


def run_live(fl, ops, post=None, seed=1):
    """One live run.  Returns dict(eut, peer, syms, done_at, honest_log, applied, appdata...)."""
    from tlslite.api import SessionCache
    rnd = loop.DetRandom(seed).install()
    clk = loop.FakeClock().install()
    restore = None
    if fl.get('early'):
        # the (honest) peer client offers 0-RTT in its first ClientHello only
        from tlslite.handshakehelpers import HandshakeHelpers
        from tlslite.constants import ExtensionType
        from tlslite.extensions import TLSExtension
        orig_ub = HandshakeHelpers.__dict__['update_binders']
        calls = {'n': 0}

        def ub(client_hello, *a, **kw):
            calls['n'] += 1
            exts = client_hello.extensions
            exts[:] = [e for e in exts if e.extType != ExtensionType.early_data]
            if calls['n'] == 1:
                exts.insert(len(exts) - 1, TLSExtension(extType=ExtensionType.early_data).create(
                    ExtensionType.early_data, bytearray(0)))
            return orig_ub.__func__(client_hello, *a, **kw)
        HandshakeHelpers.update_binders = staticmethod(ub)
        restore = (HandshakeHelpers, orig_ub)
    try:
        kind, ckw, skw = flavour_setup(fl)
        session = None
        if fl.get('resume'):
            cache = SessionCache()
            skw['sessionCache'] = cache
            p0 = loop.Pair()
            cg, sg = start_gens(p0, kind, dict(ckw), dict(skw))
            r0 = loop.drive([cg, sg])
            if r0[0][0] != 'ok' or r0[1][0] != 'ok':
                return {'error': 'first handshake of resumption flavour failed: %r' % (r0,)}
            session = p0.client.session
            ckw['session'] = session
        pair = loop.Pair()
        eut_is_client = fl['eut'] == 'client'
        eut = pair.client if eut_is_client else pair.server
        peer = pair.server if eut_is_client else pair.client
        peer_sock = pair.ssock if eut_is_client else pair.csock
        dp = DevPeer(peer, peer_sock, ops, VERS[fl['ver']])
        cg, sg = start_gens(pair, kind, ckw, skw)
        st = {}
        if eut_is_client:
            gens = [eut_gen(cg, dp, st), wrap_gen(sg, dp.flush_flight)]
            ei, pi = 0, 1
        else:
            gens = [wrap_gen(cg, dp.flush_flight), eut_gen(sg, dp, st)]
            ei, pi = 1, 0

        def on_idle():
            return dp.deliver_next()
        res = loop.drive(gens, max_steps=400000, on_idle=on_idle)
        out = {'eut': loop.classify(res[ei]), 'peer': loop.classify(res[pi]),
               'syms': list(dp.syms), 'done_at': st.get('done_at', getattr(dp, 'delivered', 0)),
               'honest_log': list(dp.honest_log), 'applied': list(dp.applied),
               'eut_closed': bool(eut.closed), 'resumed': bool(getattr(eut, 'resumed', False)),
               'eut_readbuf': len(eut._readBuffer),
               'eut_tickets12': len(eut.tls_1_0_tickets), 'swallowed': list(dp.swallowed_warnings)}
        eut_sock = pair.csock if eut_is_client else pair.ssock
        out['observed'] = observed_flags(eut_is_client, plaintext_handshake(eut_sock.sent_log),
                                         [(i.data[0], i.data) for i in dp.sent_items if i.ct == ContentType.handshake],
                                         VERS[fl['ver']])
        if res[ei][0] == 'exc' and out['eut'][0] == 'Other':
            out['eut_exc'] = repr(res[ei][1])
        if post is not None and out['eut'][0] == 'ok':
            out['post'] = post(pair, eut, peer, dp, eut_is_client)
        return out
    finally:
        if restore is not None:
            setattr(restore[0], 'update_binders', restore[1])
        rnd.uninstall()
        clk.uninstall()
