"""Shared machinery for all property checks: Coq build, Print Assumptions,
case evaluation by vm_compute, evidence files, violations / known findings."""
import fcntl
import glob
import hashlib
import json
import os
import random
import re
import subprocess
import sys
import time

ROOT = os.environ.get('VERIF_ROOT', '/verif')
REPO = os.path.realpath(os.environ.get('VERIF_REPO', '/repo'))
if REPO == '/repo':
    COQ = os.path.join(ROOT, 'coq')
    OUT = ROOT
else:
    # Testing against a scratch tree (seeded changes): use a private copy of the Coq
    # development and private output directories so that runs never disturb /verif.
    OUT = os.path.join('/tmp/verif-alt', hashlib.md5(REPO.encode()).hexdigest()[:10])
    COQ = os.path.join(OUT, 'coq')
    os.makedirs(OUT, exist_ok=True)
    subprocess.run(['rsync', '-a', '--delete', '--exclude', '_cases', '--exclude', 'Gen/*.v', '--exclude', 'Gen/*.vo',
                    '--exclude', 'Gen/*.glob', '--exclude', 'Gen/.*.aux',
                    '--exclude', '_CoqProject', '--exclude', 'Makefile.coq*', '--exclude', '.Makefile.coq.d',
                    os.path.join(ROOT, 'coq') + '/', COQ + '/'], check=True)
CASES = os.path.join(COQ, '_cases')
NPROC = min(16, os.cpu_count() or 4)

FORBIDDEN = re.compile(
    r'\b(Admitted|admit|Axiom|Axioms|Parameter|Parameters|Conjecture|'
    r'Admit Obligations|Unset Guard Checking|bypass_check|Unset Universe Checking|'
    r'Unset Positivity Checking|native_compute)\b|type-in-type|impredicative-set')


# --------------------------------------------------------------------------
# literals
def zlit(n):
    n = int(n)
    return str(n) if n >= 0 else '(%d)' % n


def blit(bs):
    """bytes-like -> Gallina list Z literal"""
    return '[' + ';'.join(str(b) for b in bs) + ']'


def boollit(b):
    return 'true' if b else 'false'


def optlit(x, f):
    return 'None' if x is None else '(Some %s)' % f(x)


def listlit(xs, f):
    return '[' + ';'.join(f(x) for x in xs) + ']'


def strlit(s):
    return '"' + s.replace('"', '""') + '"%string'


# --------------------------------------------------------------------------
class Lock:
    def __init__(self, name='build'):
        os.makedirs(CASES, exist_ok=True)
        self.path = os.path.join(CASES, '.%s.lock' % name)

    def __enter__(self):
        self.f = open(self.path, 'w')
        fcntl.flock(self.f, fcntl.LOCK_EX)
        return self

    def __exit__(self, *a):
        fcntl.flock(self.f, fcntl.LOCK_UN)
        self.f.close()


def sh(cmd, timeout=600, cwd=None, env=None):
    try:
        p = subprocess.run(cmd, shell=isinstance(cmd, str), cwd=cwd, env=env,
                           stdout=subprocess.PIPE, stderr=subprocess.STDOUT,
                           timeout=timeout)
        return p.returncode, p.stdout.decode('utf-8', 'replace')
    except subprocess.TimeoutExpired as e:
        out = (e.stdout or b'').decode('utf-8', 'replace')
        return 124, out + '\n[timeout after %ss]' % timeout


def write_if_changed(path, text):
    os.makedirs(os.path.dirname(path), exist_ok=True)
    try:
        with open(path) as f:
            if f.read() == text:
                return False
    except OSError:
        pass
    with open(path, 'w') as f:
        f.write(text)
    return True


def all_v_files():
    out = []
    for d in ('Base', 'Gen', 'Model', 'Spec', 'Proofs', 'Props', 'Toy'):
        out += sorted(glob.glob(os.path.join(COQ, d, '*.v')))
    return [os.path.relpath(p, COQ) for p in out]


def coq_project():
    """(Re)write _CoqProject and Makefile.coq when the file list changes."""
    files = all_v_files()
    text = '-Q . TV\n' + '\n'.join(files) + '\n'
    changed = write_if_changed(os.path.join(COQ, '_CoqProject'), text)
    if changed or not os.path.exists(os.path.join(COQ, 'Makefile.coq')):
        rc, out = sh('coq_makefile -f _CoqProject -o Makefile.coq', cwd=COQ)
        if rc != 0:
            raise RuntimeError('coq_makefile failed: ' + out)
    return files


def coq_make(targets, timeout=1500):
    """Full .vo build (never -vos) of the closure of `targets`.
    Returns (ok, log, failing_file)."""
    with Lock('build'):
        coq_project()
        rc, out = sh(['make', '-f', 'Makefile.coq', '-j%d' % NPROC, '-k'] + list(targets),
                     cwd=COQ, timeout=timeout)
    failing = None
    if rc != 0:
        m = re.search(r'File "\./([^"]+)", line (\d+)', out)
        if m:
            failing = '%s:%s' % (m.group(1), m.group(2))
        else:
            m = re.search(r'\*\*\* \[[^\]]*?([\w/]+\.vo)', out)
            failing = m.group(1) if m else 'unknown'
    return rc == 0, out, failing


def forbidden_scan():
    """Search the whole development for forbidden vernacular."""
    hits = []
    for rel in all_v_files():
        with open(os.path.join(COQ, rel)) as f:
            src = f.read()
        src_nc = re.sub(r'\(\*.*?\*\)', lambda m: ' ' * len(m.group(0)), src, flags=re.S)
        for m in FORBIDDEN.finditer(src_nc):
            line = src_nc.count('\n', 0, m.start()) + 1
            hits.append('%s:%d:%s' % (rel, line, m.group(0)))
    return hits


def theorems_in(prop_file):
    with open(os.path.join(COQ, prop_file)) as f:
        src = f.read()
    src = re.sub(r'\(\*.*?\*\)', '', src, flags=re.S)
    return re.findall(r'^\s*(?:Theorem|Corollary)\s+([A-Za-z_][\w\']*)', src, flags=re.M)


def print_assumptions(pid, module, names):
    """Returns {theorem: 'closed' | [axioms...]} by running coqc on a scratch file."""
    os.makedirs(CASES, exist_ok=True)
    path = os.path.join(CASES, 'PA_%s.v' % pid)
    lines = ['Require Import TV.%s.' % module]
    for n in names:
        lines.append('Goal True. idtac "@@%s". Abort.' % n)
        lines.append('Print Assumptions TV.%s.%s.' % (module, n))
    lines.append('Goal True. idtac "@@END". Abort.')
    with open(path, 'w') as f:
        f.write('\n'.join(lines) + '\n')
    rc, out = sh(['coqc', '-Q', COQ, 'TV', path], timeout=600, cwd=CASES)
    res = {}
    if rc != 0:
        return None, out
    chunks = re.split(r'^@@', out, flags=re.M)
    for ch in chunks[1:]:
        name, _, body = ch.partition('\n')
        name = name.strip()
        if name == 'END':
            continue
        if 'Closed under the global context' in body:
            res[name] = 'closed'
        else:
            axs = re.findall(r'^([A-Za-z_][\w\.\']*)\s*:', body, flags=re.M)
            res[name] = axs or [body.strip()[:200]]
    return res, out


# --------------------------------------------------------------------------
# machine-wide cap on concurrently running case-evaluation coqc processes (several checks may
# run at once): lock files used as a counting semaphore
_SLOT_DIR = '/tmp/verif-coqc-slots'
_NSLOTS = 2 * NPROC


def _acquire_slot():
    os.makedirs(_SLOT_DIR, exist_ok=True)
    for k in range(_NSLOTS):
        f = open(os.path.join(_SLOT_DIR, 'slot-%d' % k), 'w')
        try:
            fcntl.flock(f, fcntl.LOCK_EX | fcntl.LOCK_NB)
            return f
        except OSError:
            f.close()
    return None


def _mem_available_gb():
    try:
        with open('/proc/meminfo') as f:
            for line in f:
                if line.startswith('MemAvailable:'):
                    return int(line.split()[1]) / 1048576.0
    except (OSError, ValueError):
        pass
    return 1e9


def _release_slot(f):
    if f is not None:
        try:
            fcntl.flock(f, fcntl.LOCK_UN)
        finally:
            f.close()


def coq_run_files(named_texts, timeout=900):
    """named_texts: list of (name, text).  Runs coqc on each in parallel.
    Returns list of (rc, output).  A coqc that was killed from outside (SIGKILL, e.g. by the
    kernel's out-of-memory killer while other checks run on the same machine) is re-run once,
    alone: that is a property of the machine's load, not of the case."""
    results = _coq_run_files(named_texts, timeout)
    for k, r in enumerate(results):
        if r is not None and r[0] in (-9, 137):
            results[k] = _coq_run_files([named_texts[k]], timeout)[0]
    # shards that ran out of time while sharing the machine: once more, one after the other, with
    # twice the budget each (a shard that is slow by itself still fails, and is reported)
    late = [k for k, r in enumerate(results) if r is not None and r[0] == 124]
    if late and len(late) < len(results):
        for k in late:
            results[k] = _coq_run_files([named_texts[k]], 2 * timeout)[0]
    return results


def _coq_run_files(named_texts, timeout=900):
    os.makedirs(CASES, exist_ok=True)
    procs = []
    results = [None] * len(named_texts)
    paths = []
    for name, text in named_texts:
        p = os.path.join(CASES, name + '.v')
        with open(p, 'w') as f:
            f.write(text)
        paths.append(p)
    idx = 0
    running = {}
    slots = {}
    t_end = time.time() + timeout
    while idx < len(paths) or running:
        while idx < len(paths) and len(running) < NPROC:
            if running and _mem_available_gb() < 8.0:
                break               # leave head-room: start more only when memory allows
            slot = _acquire_slot()
            if slot is None:
                if not running and time.time() > t_end:
                    break
                break
            slots[idx] = slot
            pr = subprocess.Popen('ulimit -s unlimited 2>/dev/null; exec coqc -Q %s TV %s' % (COQ, paths[idx]),
                                  shell=True, cwd=CASES, stdout=subprocess.PIPE,
                                  stderr=subprocess.STDOUT)
            running[idx] = pr
            idx += 1
        done = [k for k, pr in running.items() if pr.poll() is not None]
        for k in done:
            pr = running.pop(k)
            results[k] = (pr.returncode, pr.stdout.read().decode('utf-8', 'replace'))
            _release_slot(slots.pop(k, None))
        if not done:
            if time.time() > t_end:
                for k, pr in running.items():
                    pr.kill()
                    results[k] = (124, '[timeout]')
                    _release_slot(slots.pop(k, None))
                running.clear()
                for k in range(idx, len(paths)):
                    results[k] = (124, '[timeout-not-started]')
                break
            time.sleep(0.05)
    for p in paths:
        for ext in ('.vo', '.vok', '.vos', '.glob'):
            try:
                os.unlink(p[:-2] + ext)
            except OSError:
                pass
        try:
            os.unlink(os.path.join(os.path.dirname(p), '.' + os.path.basename(p)[:-2] + '.aux'))
        except OSError:
            pass
    return results


def coq_bad_indices(tag, imports, case_type, check_fn, case_lits, shard=300, timeout=900,
                    preamble=''):
    """Evaluate `check_fn : case_type -> bool` (or a list of such functions) on every
    literal with vm_compute.  Returns (bad_global_indices, errors); with a list of
    functions, a list of bad-index lists in the same order."""
    fns = check_fn if isinstance(check_fn, (list, tuple)) else [check_fn]
    files = []
    ns = max(1, (len(case_lits) + shard - 1) // shard)      # round-robin: spreads expensive neighbours
    for s in range(ns):
        part = case_lits[s::ns]
        text = ('From Coq Require Import ZArith List Bool String.\n'
                'From TV Require Import Base.Prelude %s.\n'
                'Import ListNotations.\nOpen Scope Z_scope.\n%s\n'
                'Definition cases : list (%s) := [\n%s\n].\n'
                % (' '.join(imports), preamble, case_type, ';\n'.join(part)))
        for fn in fns:
            text += 'Eval vm_compute in (bad_idx (%s) cases).\n' % fn
        files.append(('%s_%04d' % (tag, s), text))
    res = coq_run_files(files, timeout=timeout)
    bads, errs = [[] for _ in fns], []
    for k, (rc, out) in enumerate(res):
        if rc != 0:
            errs.append('%s: rc=%s %s' % (files[k][0], rc, out[-1500:]))
            continue
        ms = re.findall(r'=\s*\[(.*?)\]\s*:\s*list nat', out, flags=re.S)
        if len(ms) != len(fns):
            errs.append('%s: unparsable output %s' % (files[k][0], out[-500:]))
            continue
        for fi, m in enumerate(ms):
            for n in re.findall(r'\d+', m):
                bads[fi].append(int(n) * ns + k)
    if isinstance(check_fn, (list, tuple)):
        return bads, errs
    return bads[0], errs


def coq_eval(tag, imports, exprs, preamble='', timeout=600):
    """Evaluate expressions; returns raw output (used for replay diagnostics)."""
    text = ('From Coq Require Import ZArith List Bool String.\n'
            'From TV Require Import Base.Prelude %s.\n'
            'Import ListNotations.\nOpen Scope Z_scope.\n%s\n' % (' '.join(imports), preamble))
    for e in exprs:
        text += 'Eval vm_compute in (%s).\n' % e
    (rc, out), = coq_run_files([(tag, text)], timeout=timeout)
    return rc, out


# --------------------------------------------------------------------------
def load_known():
    out = []
    for p in [os.path.join(ROOT, 'known_findings.json')] + sorted(glob.glob(os.path.join(ROOT, 'known_findings.d', '*.json'))):
        try:
            with open(p) as f:
                out += json.load(f).get('findings', [])
        except OSError:
            pass
    return out


class Ctx:
    def __init__(self, pid, tier, seed, level='proof'):
        self.pid = pid
        self.tier = tier
        self.seed = seed
        self.level = level
        self.rng = random.Random(seed * 1000003 + sum(map(ord, pid)))
        self.t0 = time.time()
        self.cov = {'evaluations': 0, 'distinct_nontrivial': 0, 'rule': '', 'samples': [],
                    'obligations': 0, 'discharged': 0, 'checker_cmd': '', 'trusted_base': [],
                    'streams': {}}
        self._nontrivial = set()
        self.assumptions = []
        self.violations = []      # (key, what, replay_path, found)
        self.known_hits = []
        self.known = [k for k in load_known() if k.get('property') == pid]
        self.replay_n = 0
        self.notes = []

    # ---- coverage accounting
    def count(self, stream, n=1, nontrivial_keys=(), sample=None):
        st = self.cov['streams'].setdefault(stream, {'evaluations': 0, 'distinct_nontrivial': 0})
        st['evaluations'] += n
        self.cov['evaluations'] += n
        for k in nontrivial_keys:
            kk = (stream, k)
            if kk not in self._nontrivial:
                self._nontrivial.add(kk)
                st['distinct_nontrivial'] += 1
        if sample is not None and len(self.cov['samples']) < 12:
            self.cov['samples'].append({'stream': stream, 'case': sample})

    def log(self, msg):
        print('[%s %6.1fs] %s' % (self.pid, time.time() - self.t0, msg), flush=True)

    # ---- violations
    def write_replay(self, obj):
        d = os.path.join(OUT, 'replay')
        os.makedirs(d, exist_ok=True)
        self.replay_n += 1
        p = os.path.join(d, '%s-%s-%d.json' % (self.pid, self.tier, self.replay_n))
        obj = dict(obj)
        obj.setdefault('property', self.pid)
        obj.setdefault('seed', self.seed)
        with open(p, 'w') as f:
            json.dump(obj, f, indent=1, default=repr)
        return p

    def violation(self, key, what, replay, found_input=True):
        """key identifies the failing input/site (matched against known_findings.json)."""
        for k in self.known:
            if k.get('status') == 'known' and k.get('key') == key:
                if key not in [h[0] for h in self.known_hits]:
                    self.known_hits.append((key, k.get('what', what)))
                return False
        if len(self.violations) >= 25:
            return True
        replay = dict(replay)
        replay['key'] = key
        replay['what'] = what
        p = self.write_replay(replay)
        self.violations.append((key, what, p, found_input))
        return True

    # ---- finish
    def finish(self):
        self.cov['distinct_nontrivial'] = len(self._nontrivial)
        # fail closed: a proof-level check whose obligations were not all discharged must not be quiet
        if self.level == 'proof' and self.cov.get('obligations', 0) != self.cov.get('discharged', 0) \
                and not self.violations:
            self.violation('proof-evidence-incomplete',
                           'only %s of %s theorems were checked (Print Assumptions / build incomplete)'
                           % (self.cov.get('discharged'), self.cov.get('obligations')),
                           {'print_assumptions': self.cov.get('print_assumptions'),
                            'theorems': self.cov.get('theorems')}, found_input=False)
        ev = {
            'property_id': self.pid, 'tier': self.tier, 'seed': self.seed,
            'level': self.level, 'coverage': self.cov,
            'assumptions': self.assumptions,
            'wall_s': round(time.time() - self.t0, 2),
            'violations': len(self.violations),
            'known_findings_hit': [k for k, _ in self.known_hits],
            'notes': self.notes,
        }
        d = os.path.join(OUT, 'evidence')
        os.makedirs(d, exist_ok=True)
        with open(os.path.join(d, self.pid + '.json'), 'w') as f:
            json.dump(ev, f, indent=1, default=repr)
        for key, what in self.known_hits:
            print('KNOWN-FINDING: property=%s %s [%s]' % (self.pid, what, key))
        for key, what, p, found in self.violations:
            print('VIOLATION property=%s replay=%s%s' % (self.pid, p, '' if found else ' no-failing-input-found'))
            print('   -> %s [%s]' % (what, key))
        sys.stdout.flush()
        return 1 if self.violations else 0


# --------------------------------------------------------------------------
def proof_stage(ctx, prop_file, model_targets=(), expected_axioms=()):
    """Build Props/Cxx.vo (+ model targets), scan for forbidden vernacular,
    collect Print Assumptions.  Returns dict(ok, model_ok, failing, log)."""
    pid = ctx.pid
    names = theorems_in(prop_file)
    ctx.cov['obligations'] = len(names)
    ctx.cov['checker_cmd'] = ('make -f Makefile.coq %s (coqc 8.16.1 full .vo build) ; '
                              'Print Assumptions on every theorem of %s'
                              % (prop_file + 'o', prop_file))
    ctx.cov['theorems'] = names
    hits = forbidden_scan()
    if hits:
        ctx.violation('forbidden-vernacular', 'forbidden vernacular in development: %s' % hits[:5],
                      {'hits': hits}, found_input=False)
    target = prop_file + 'o'
    ok, log, failing = coq_make([target] + list(model_targets))
    res = {'ok': ok, 'failing': failing, 'log': log, 'model_ok': True}
    if ok:
        module = prop_file[:-2].replace('/', '.')
        pa, out = print_assumptions(pid, module, names)
        if pa is None:
            res['ok'] = False
            res['failing'] = 'Print Assumptions run failed'
            res['log'] = out
        else:
            ctx.cov['print_assumptions'] = pa
            allowed = set(expected_axioms)
            bad = {n: a for n, a in pa.items() if a != 'closed' and not set(a) <= allowed}
            missing = [n for n in names if n not in pa]
            if bad or missing:
                ctx.violation('unexpected-axioms', 'theorems depend on unexpected axioms: %s %s' % (bad, missing),
                              {'print_assumptions': pa}, found_input=False)
            ctx.cov['discharged'] = len([n for n in names if n in pa])
    if not res['ok']:
        # are the model definitions still loadable?
        mok = True
        if model_targets:
            mok, mlog, mfail = coq_make(list(model_targets))
            if not mok:
                res['model_log'] = mlog
        res['model_ok'] = mok
    if ctx.tier == 'thorough' and res['ok']:
        module = 'TV.' + prop_file[:-2].replace('/', '.')
        rc, out = sh(['coqchk', '-silent', '-o', '-Q', COQ, 'TV', module], timeout=3000, cwd=COQ)
        ctx.cov['coqchk'] = {'rc': rc, 'tail': out[-3000:]}
        if rc != 0:
            ctx.violation('coqchk', 'coqchk rejected the compiled closure', {'out': out[-3000:]}, found_input=False)
    return res


def broken_proof_verdict(ctx, res, found_any):
    """Called after the search when the proof stage failed and no concrete failing
    input was reported by the search."""
    if res['ok']:
        return
    if not found_any:
        ctx.violation('proof-broken:' + str(res['failing']),
                      'proof obligation no longer checks at %s' % res['failing'],
                      {'theorem_or_file': res['failing'], 'log_tail': res['log'][-4000:]},
                      found_input=False)
