"""C20 live observation: one real handshake per (suite, version, configuration) between two
TLSConnection objects (harness/loop.py), forced onto one suite by cutting the ClientHello's
cipher_suites down to that suite, with credentials chosen from the *parsed IANA name*.

Observed, without consulting any CipherSuite list:
  wire   : ServerHello suite/version, Certificate key type, shape of ServerKeyExchange and
           ClientKeyExchange (parsed here from the plaintext handshake records), signature
           algorithm of the ServerKeyExchange, sizes of the application-data records
  objects: session.cipherSuite, getCipherName()/getMacName(), the cipher object installed in
           the record layer (name, AEAD, tag, key bytes), HMAC digest size, fixed nonce bytes
  calls  : which cipherfactory constructors were called with which key/IV lengths, which PRF
           functions mathtls.calc_key applied, which hash the TLS 1.3 key schedule used
           (passive wrappers on module attributes, installed from this process)
"""
import os
import sys

import c20_iana as iana

N_APP = 100
_REC = None


# ------------------------------------------------------------------------------------------
class Recorder(object):
    """Passive wrappers: record arguments, call the original."""
    FACT = ['createAES', 'createAESGCM', 'createAESCCM', 'createAESCCM_8', 'createCHACHA20', 'createRC4',
            'createTripleDES']
    PRFS = ['PRF', 'PRF_1_2', 'PRF_1_2_SHA384', 'PRF_SSL']

    def __init__(self):
        import tlslite.recordlayer as rl
        import tlslite.mathtls as mt
        import tlslite.tlsconnection as tc
        self.fact, self.prfs, self.hkdf = [], [], []
        for n in self.FACT:
            setattr(rl, n, self._wrap_fact(n, getattr(rl, n)))
        for n in self.PRFS:
            setattr(mt, n, self._wrap_prf(n, getattr(mt, n)))
        import tlslite.tlsrecordlayer as trl
        import tlslite.handshakehelpers as hhp
        self.paused = 0
        self.side = '?'
        self.tagged = []        # (side, module, hash name)
        # every hash name handed to the key-schedule helpers, in every module that does TLS 1.3 derivations
        for mod in (rl, tc, trl, hhp):
            for n in ('HKDF_expand_label', 'derive_secret', 'secureHMAC'):
                if hasattr(mod, n):
                    setattr(mod, n, self._wrap_hash(getattr(mod, n), mod.__name__.split('.')[-1]))
        # ticket encryption keys depend on settings.ticketCipher, not on the suite: not recorded
        dk = tc.TLSConnection.__dict__.get('_derive_key_iv')
        if dk is not None:
            f = dk.__func__ if isinstance(dk, staticmethod) else dk

            def paused(*a, **kw):
                self.paused += 1
                try:
                    return f(*a, **kw)
                finally:
                    self.paused -= 1
            tc.TLSConnection._derive_key_iv = staticmethod(paused)

    def _wrap_fact(self, name, f):
        def w(key, *a, **kw):
            iv = -1
            if name in ('createAES', 'createRC4', 'createTripleDES'):
                iv = len(a[0]) if a else -1
            self.fact.append((name, len(key), iv))
            return f(key, *a, **kw)
        return w

    def _wrap_hash(self, f, modname='?'):
        if getattr(f, '_c20', False):
            return f

        def w(*a, **kw):
            if not self.paused:
                algo = kw.get('algorithm', a[-1] if a else None)
                self.hkdf.append(str(algo))
                self.tagged.append((self.side, modname, str(algo)))
            return f(*a, **kw)
        w._c20 = True
        return w

    def _wrap_prf(self, name, f):
        def w(*a, **kw):
            self.prfs.append(name)
            return f(*a, **kw)
        return w

    def reset(self):
        self.fact, self.prfs, self.hkdf = [], [], []
        self.tagged = []
        self.side = '?'


def recorder():
    global _REC
    if _REC is None:
        _REC = Recorder()
    return _REC


# ------------------------------------------------------------------------------------------
def permissive(minv, maxv):
    from tlslite.handshakesettings import HandshakeSettings, ALL_CIPHER_NAMES, ALL_MAC_NAMES, KEY_EXCHANGE_NAMES
    s = HandshakeSettings()
    s.cipherNames = list(ALL_CIPHER_NAMES)
    s.macNames = list(ALL_MAC_NAMES)
    s.keyExchangeNames = list(KEY_EXCHANGE_NAMES)
    s.minVersion, s.maxVersion = tuple(minv), tuple(maxv)
    return s


def records(chunks):
    buf = b''.join(chunks)
    out, p = [], 0
    while p + 5 <= len(buf):
        ty, ln = buf[p], int.from_bytes(buf[p + 3:p + 5], 'big')
        out.append((ty, bytes(buf[p + 5:p + 5 + ln])))
        p += 5 + ln
    return out


def plaintext_handshake(recs):
    hs = b''
    for ty, body in recs:
        if ty != 22:
            break
        hs += body
    msgs, p = [], 0
    while p + 4 <= len(hs):
        ln = int.from_bytes(hs[p + 1:p + 4], 'big')
        msgs.append((hs[p], hs[p + 4:p + 4 + ln]))
        p += 4 + ln
    return msgs


def _vec(b, p, n):
    if p is None or p + n > len(b):
        return None
    ln = int.from_bytes(b[p:p + n], 'big')
    return p + n + ln if p + n + ln <= len(b) else None


def _sig_tail(b, p, ver):
    """-> (signed, (hash, sig) or None) when the rest of b is nothing or exactly one signature; else None"""
    if p is None:
        return None
    if p == len(b):
        return (False, None)
    alg = None
    if ver >= (3, 3):
        if p + 2 > len(b):
            return None
        alg = (b[p], b[p + 1])
        p += 2
    q = _vec(b, p, 2)
    if q == len(b) and q > p + 2:
        return (True, alg)
    return None


def parse_ske(b, ver):
    """every key-exchange format that consumes the ServerKeyExchange body exactly"""
    out = []
    t = _sig_tail(b, _vec(b, _vec(b, _vec(b, 0, 2), 2), 2), ver)
    if t:
        out.append(('dhe',) + t)
    t = _sig_tail(b, _vec(b, _vec(b, _vec(b, _vec(b, 0, 2), 2), 1), 2), ver)
    if t:
        out.append(('srp',) + t)
    if len(b) > 4 and b[0] == 3:
        t = _sig_tail(b, _vec(b, 3, 1), ver)
        if t:
            out.append(('ecdhe',) + t)
    return out


def sig_class(alg):
    if alg is None:
        return ''
    h, s = alg
    if h == 8:
        return {4: 'rsa', 5: 'rsa', 6: 'rsa', 9: 'rsa', 10: 'rsa', 11: 'rsa', 7: 'eddsa', 8: 'eddsa'}.get(s, '?')
    return {1: 'rsa', 2: 'dsa', 3: 'ecdsa'}.get(s, '?')


def wire_view(c2s, s2c):
    """classification of the plaintext part of the handshake, from bytes only (the version is the
    one the ServerHello announces)"""
    w = {'sh_suite': -1, 'sh_ver': -1, 'wire_cert': None, 'wire_kx': 'unknown', 'ske_signed': False, 'sigalg': ''}
    sm = plaintext_handshake(s2c)
    cm = plaintext_handshake(c2s)
    sh = [b for t, b in sm if t == 2]
    if not sh:
        return w
    b = sh[0]
    p = 2 + 32
    p = p + 1 + b[p]
    w['sh_suite'] = int.from_bytes(b[p:p + 2], 'big')
    minor = b[1]
    p += 3
    exts = {}
    if p + 2 <= len(b):
        end = p + 2 + int.from_bytes(b[p:p + 2], 'big')
        p += 2
        while p + 4 <= end:
            et, el = int.from_bytes(b[p:p + 2], 'big'), int.from_bytes(b[p + 2:p + 4], 'big')
            exts[et] = b[p + 4:p + 4 + el]
            p += 4 + el
    if 43 in exts and len(exts[43]) == 2:
        minor = exts[43][1]
    w['sh_ver'] = minor
    w['sh_exts'] = sorted(exts)
    if 41 in exts and len(exts[41]) == 2:
        w['sh_psk'] = int.from_bytes(exts[41], 'big')
    ver = (3, minor)
    if minor == 4:
        w['wire_kx'] = 'tls13' if 51 in exts else 'tls13-no-keyshare'
        return w
    certs = [b for t, b in sm if t == 11]
    rsa_bytes = None
    if certs:
        cb = certs[0]
        if len(cb) > 6:
            ln = int.from_bytes(cb[3:6], 'big')
            der = cb[6:6 + ln]
            from tlslite.x509 import X509
            x = X509()
            x.parseBinary(bytearray(der))
            w['wire_cert'] = str(x.certAlg)
            if x.certAlg == 'rsa':
                rsa_bytes = (len(x.publicKey) + 7) // 8
        else:
            w['wire_cert'] = 'empty'
    skes = [b for t, b in sm if t == 12]
    ckes = [b for t, b in cm if t == 16]
    if not ckes and not skes and not certs and any(t == 20 for t, _ in s2c) and any(t == 20 for t, _ in c2s):
        w['wire_kx'] = 'resumed'        # abbreviated handshake: ServerHello, [NewSessionTicket], CCS, Finished
        return w
    if len(ckes) != 1 or len(skes) > 1:
        w['wire_kx'] = 'unknown:ske=%d,cke=%d' % (len(skes), len(ckes))
        return w
    ck = ckes[0]
    pre2 = _vec(ck, 0, 2) == len(ck) and len(ck) > 2
    pre1 = _vec(ck, 0, 1) == len(ck) and len(ck) > 1
    if not skes:
        inner = len(ck) - 2 if ver != (3, 0) else len(ck)
        if (pre2 if ver != (3, 0) else True) and rsa_bytes is not None and inner == rsa_bytes:
            w['wire_kx'] = 'rsa'
        else:
            w['wire_kx'] = 'unknown:no-ske,cke=%d,rsa=%s' % (len(ck), rsa_bytes)
        return w
    forms = parse_ske(skes[0], ver)
    if len(forms) != 1:
        w['wire_kx'] = 'unknown:ske-forms=%s' % [f[0] for f in forms]
        return w
    kind, signed, alg = forms[0]
    if (kind == 'ecdhe' and pre1) or (kind in ('dhe', 'srp') and pre2):
        w['wire_kx'] = kind
    else:
        w['wire_kx'] = 'unknown:ske=%s,cke-mismatch' % kind
    w['ske_signed'] = bool(signed)
    w['sigalg'] = sig_class(alg)
    return w


def hkdf_label(secret, label, ctx, length, hname):
    """RFC 8446 7.1 HKDF-Expand-Label, stdlib only"""
    import hashlib
    import hmac
    full = b"tls13 " + label
    info = bytes([length >> 8, length & 0xff, len(full)]) + full + bytes([len(ctx)]) + ctx
    out, block, c = b"", b"", 1
    while len(out) < length:
        block = hmac.new(bytes(secret), block + info + bytes([c]), getattr(hashlib, hname)).digest()
        out += block
        c += 1
    return out[:length]


def step_hash(prev, new):
    """which hash turns traffic secret `prev` into `new` by "traffic upd" (None: neither)"""
    hits = [h for h, n in (('sha256', 32), ('sha384', 48)) if len(new) == n and hkdf_label(prev, b"traffic upd", b"", n, h) == bytes(new)]
    return hits[0] if len(hits) == 1 else None


def open_record(m, secret, hname, header, body, seq=0):
    """decrypt one TLS 1.3 record with keys derived here from `secret` under `hname`; -> plaintext or None"""
    from tlslite.utils import cipherfactory as cf
    mk = {'AES_GCM': cf.createAESGCM, 'AES_CCM': cf.createAESCCM, 'AES_CCM_8': cf.createAESCCM_8,
          'CHACHA20': cf.createCHACHA20}[m['cipher']]
    key = hkdf_label(secret, b"key", b"", m['keylen'], hname)
    iv = hkdf_label(secret, b"iv", b"", 12, hname)
    nonce = bytearray(iv)
    for i, b in enumerate(seq.to_bytes(8, 'big')):
        nonce[4 + i] ^= b
    try:
        return mk(bytearray(key), ['python']).open(nonce, bytearray(body), bytearray(header))
    except Exception:  # noqa
        return None


def raw_records(chunks):
    buf = b''.join(chunks)
    out, p = [], 0
    while p + 5 <= len(buf):
        ln = int.from_bytes(buf[p + 3:p + 5], 'big')
        out.append((bytes(buf[p:p + 5]), bytes(buf[p + 5:p + 5 + ln])))
        p += 5 + ln
    return out


def exporter_view(pair, ver):
    """both ends export the same bytes; which hash produced them (recomputed here)"""
    import hashlib
    import hmac
    from tlslite import mathtls
    lab = bytearray(b"EXPORTER-c20")
    a = bytes(pair.client.keyingMaterialExporter(lab, 40))
    b = bytes(pair.server.keyingMaterialExporter(lab, 40))
    sess = pair.client.session
    kinds = []
    if ver == (3, 4):
        for h in ('sha256', 'sha384'):
            e0 = getattr(hashlib, h)(b"").digest()
            if len(sess.exporterMasterSecret) != len(e0):
                continue
            sec = hkdf_label(sess.exporterMasterSecret, bytes(lab), e0, len(e0), h)
            if hkdf_label(sec, b"exporter", e0, 40, h) == a:
                kinds.append(h)
    else:
        seed = pair.client._clientRandom + pair.client._serverRandom
        for k, f in (('md5sha1', mathtls.PRF), ('sha256', mathtls.PRF_1_2), ('sha384', mathtls.PRF_1_2_SHA384)):
            if bytes(f(sess.masterSecret, lab, seed, 40)) == a:
                kinds.append(k)
    return {'same': a == b, 'kind': kinds[0] if len(kinds) == 1 else ''}


def tls13_post(pair, m, data, out, skw, cs, ckw):
    """after a TLS 1.3 handshake: KeyUpdate each way, independent HKDF chain, wire-level decryption of the
    first record under the new client keys, resumption with the ticket, post-handshake authentication"""
    import loop
    from tlslite.constants import KeyUpdateMessageType
    h = iana.prf_at(m, (3, 4))
    sc, ss = pair.client.session, pair.server.session
    cl, sr = [bytes(sc.cl_app_secret)], [bytes(sc.sr_app_secret)]
    post = {'_sid': out['sid'], 'agree0': bytes(ss.cl_app_secret) == cl[0] and bytes(ss.sr_app_secret) == sr[0], 'len0': [len(cl[0]), len(sr[0])]}
    flows = True
    for who in ('client', 'server'):
        a, b = (pair.client, pair.server) if who == 'client' else (pair.server, pair.client)
        loop.drive([a.send_keyupdate_request(KeyUpdateMessageType.update_requested)])
        n0 = len(raw_records(pair.csock.sent_log))
        w1 = pair.transfer(a, b, data)
        w2 = pair.transfer(b, a, data)
        flows = flows and w1[2] == data and w2[2] == data
        cl.append(bytes(sc.cl_app_secret))
        sr.append(bytes(sc.sr_app_secret))
        post['agree_' + who] = bytes(ss.cl_app_secret) == cl[-1] and bytes(ss.sr_app_secret) == sr[-1]
        if who == 'server':
            # the client answered with its own KeyUpdate (old keys), so its next record is the first under the keys
            # derived from cl[-1]: open it with keys derived here, under the hash the NAME denotes, from cl[0]
            want = cl[0]
            for _ in range(2):
                want = hkdf_label(want, b"traffic upd", b"", len(cl[0]), h)
            recs = [r for r in raw_records(pair.csock.sent_log)[n0:] if r[0][0] == 23]
            pt = open_record(m, want, h, recs[-1][0], recs[-1][1]) if recs else None
            post['wire_open'] = bool(pt is not None and bytes(pt[:-1]) == data and pt[-1] == 23)
    post['flows'] = bool(flows)
    post['steps'] = [step_hash(cl[0], cl[1]) or '', step_hash(cl[1], cl[2]) or '', step_hash(sr[0], sr[1]) or '',
                     step_hash(sr[1], sr[2]) or '']
    post['lens'] = [len(x) for x in cl + sr]
    # post-handshake authentication (client certificate was configured): Finished under the suite's hash
    try:
        before = pair.server.session.clientCertChain
        loop.drive([pair.server.request_post_handshake_auth(skw['settings'])])
        w1 = pair.transfer(pair.server, pair.client, data)      # client reads the request, answers
        w2 = pair.transfer(pair.client, pair.server, data)      # server reads Certificate..Finished, then data
        got = pair.server.session.clientCertChain
        post['pha'] = bool(before is None and got is not None and w1[2] == data and w2[2] == data)
    except Exception as e:  # noqa
        post['pha'] = False
        post['pha_error'] = '%s: %s' % (type(e).__name__, e)
    # resumption with the ticket the server sent (PSK binder and ticket PSK under the suite's hash)
    try:
        pair2 = loop.Pair()
        sid = out['sid']
        # the offer must be cut down BEFORE the PSK binders are computed over the ClientHello
        import tlslite.handshakehelpers as hhp
        orig_ub = hhp.HandshakeHelpers.__dict__['update_binders']
        f_ub = orig_ub.__func__ if isinstance(orig_ub, staticmethod) else orig_ub

        def ub(client_hello, *a, **kw):
            client_hello.cipher_suites = [x for x in client_hello.cipher_suites if x in (sid, 0x00FF)]
            return f_ub(client_hello, *a, **kw)
        hhp.HandshakeHelpers.update_binders = staticmethod(ub)
        try:
            ckw2 = dict(ckw)
            ckw2['session'] = pair.client.session
            c, s = pair2.handshake(client_kw=ckw2, server_kw=skw, client_kind='cert')
        finally:
            hhp.HandshakeHelpers.update_binders = orig_ub
        w2v = wire_view(records(pair2.csock.sent_log), records(pair2.ssock.sent_log))
        post['resume'] = {'ok': c[0] == 'ok' and s[0] == 'ok', 'psk': 41 in (w2v.get('sh_exts') or []),
                          'tickets': len(pair.client.session.tickets or []),
                          'suite': int(pair2.client.session.cipherSuite) if pair2.client.session else -1,
                          'outcome': [list(map(str, loop.classify(c))), list(map(str, loop.classify(s)))]}
        if post['resume']['ok']:
            w = pair2.transfer(pair2.client, pair2.server, data)
            post['resume']['flows'] = w[2] == data
    except Exception as e:  # noqa
        post['resume'] = {'ok': False, 'error': '%s: %s' % (type(e).__name__, e)}
    return post


def side_view(conn):
    rl = conn._recordLayer
    ws = rl._writeState
    enc, mac = ws.encContext, ws.macContext
    sess = conn.session
    chain = getattr(sess, 'serverCertChain', None) if sess is not None else None
    return {
        'suite': int(sess.cipherSuite) if sess is not None else -1,
        'ver': int(conn.version[1]) if conn.version else -1,
        'conn_cipher': conn.getCipherName(),
        'sess_cipher': sess.getCipherName() if sess is not None else None,
        'sess_mac': sess.getMacName() if sess is not None else None,
        'enc_aead': bool(getattr(enc, 'isAEAD', False)),
        'enc_tag': int(getattr(enc, 'tagLength', 0) or 0) if enc is not None else 0,
        'mac_ds': int(mac.digest_size) if mac is not None else 0,
        'nonce': len(ws.fixedNonce) if ws.fixedNonce is not None else 0,
        'etm': bool(ws.encryptThenMAC),
        'srv_cert': str(chain.x509List[0].certAlg) if chain and chain.x509List else None,
    }


def app_lens(chunks, start):
    return [len(b) for t, b in records(chunks)[start:] if t == 23]


CFGS = ('client-pinned', 'server-pinned')


def observe(pair, rec, out, sid, ver, n_app):
    """what a completed connection looks like (objects, calls, application records, exporter)"""
    out['cli'] = side_view(pair.client)
    out['srv'] = side_view(pair.server)
    out['fact'] = sorted(set(rec.fact))
    out['prfs'] = sorted(set(rec.prfs))
    out['hkdf'] = sorted(set(rec.hkdf))
    nc, ns = len(records(pair.csock.sent_log)), len(records(pair.ssock.sent_log))
    data = bytes((i * 7 + sid) & 0xff for i in range(n_app))
    w1 = pair.transfer(pair.client, pair.server, data)
    w2 = pair.transfer(pair.server, pair.client, data)
    out['app_ok'] = bool(w1[2] == data and w2[2] == data)
    out['c2s'] = app_lens(pair.csock.sent_log, nc)
    out['s2c'] = app_lens(pair.ssock.sent_log, ns)
    out['n'] = n_app
    if ver >= (3, 1):
        out['exporter'] = exporter_view(pair, ver)
    return data


def cut_offer(conn, keep, out=None):
    """the ClientHello of `conn` offers only the suites in `keep` (plus the renegotiation SCSV)"""
    orig_send = conn._sendMsg

    def send(msg, *a, **kw):
        if type(msg).__name__ == 'ClientHello' and hasattr(msg, 'cipher_suites'):
            have = list(msg.cipher_suites)
            msg.cipher_suites = [x for x in have if x in keep or x == 0x00FF]
            for x in keep:
                if x not in have:
                    msg.cipher_suites.append(x)
                    if out is not None:
                        out['forced_into_offer'] = True
        return orig_send(msg, *a, **kw)
    conn._sendMsg = send


def resume_step(case, pair, rec, out, ckw, skw, kind, ver, n_app):
    """TLS <= 1.2: a second connection that offers the session of the first one.
    mode 'sid' / 'ticket': honest resumption by session ID / by ticket;
    'srv-deviates': the server's cache entry is rewritten to another offered suite `alt` (a server answering a
                    resumption with a different suite; the client has to refuse);
    'cli-deviates': the client offers the session but only the other suite `alt` (the server must not resume)."""
    import loop
    mode, alt, sid = case['resume'], case.get('alt'), case['sid']
    sess = pair.client.session
    info = {'mode': mode, 'alt': alt, 'session_suite': int(sess.cipherSuite), 'tickets': len(sess.tickets or []) if hasattr(sess, 'tickets') else 0,
            'tls10_ticket': bool(getattr(sess, 'tls_1_0_tickets', None))}
    if mode == 'srv-deviates':
        cache = skw['sessionCache']
        try:
            cache[sess.sessionID].cipherSuite = alt
            info['rewritten'] = True
        except KeyError:
            info['rewritten'] = False
    rec.reset()
    pair2 = loop.Pair()
    keep = {'sid': [sid], 'ticket': [sid], 'srv-deviates': [sid, alt], 'cli-deviates': [alt]}[mode]
    cut_offer(pair2.client, keep)
    ckw2 = dict(ckw)
    ckw2['session'] = sess
    c, s = pair2.handshake(client_kw=ckw2, server_kw=skw, client_kind=kind)
    res = {'sid': sid, 'ver': ver[1], 'cfg': out['cfg'] + '/resume:' + mode, 'ok': False, 'resume': info,
           'outcome': [list(map(str, loop.classify(c))), list(map(str, loop.classify(s)))]}
    try:
        res['wire'] = wire_view(records(pair2.csock.sent_log), records(pair2.ssock.sent_log))
    except Exception as e:  # noqa
        res['wire'] = None
        res['wire_error'] = repr(e)
    if c[0] != 'ok' or s[0] != 'ok' or res['wire'] is None:
        return res
    res['ok'] = True
    info['resumed'] = [bool(pair2.client.resumed), bool(pair2.server.resumed)]
    # a resumed connection is judged against the suite of the session it resumes, a full one against its own
    res['sid'] = sid if pair2.client.resumed else res['wire']['sh_suite']
    observe(pair2, rec, res, res['sid'], ver, n_app)
    return res


PSKS = {'sha256': (b"psk-for-sha256", b"\x11" * 32, 'sha256'), 'sha384': (b"psk-for-sha384", b"\x22" * 48, 'sha384')}


def tag_side(gen, rec, side):
    """run a handshake generator, telling the recorder whose code is executing"""
    while True:
        rec.side = side
        try:
            v = next(gen)
        except StopIteration:
            return
        finally:
            rec.side = '?'
        yield v


def run_psk_flow(case, pair, rec, out, cs, ss, ckw, skw):
    """TLS 1.3 with externally provisioned PSKs: case['psks'] = the configured hashes in the order both ends list
    them; the offer is cut to the one suite BEFORE the binders are computed.  Observed: the identity the ServerHello
    selects, every hash name each END hands to the key-schedule helpers (binder computations apart)."""
    import loop
    import tlslite.handshakehelpers as hhp
    sid = case['sid']
    cfgs = [PSKS[h] for h in case['psks']]
    cs.pskConfigs, ss.pskConfigs = list(cfgs), list(cfgs)
    if not case.get('cert', True):
        skw.pop('certChain', None)
        skw.pop('privateKey', None)
    ckw.pop('certChain', None)
    ckw.pop('privateKey', None)
    out['cfg'] = 'psk:%s%s' % ('+'.join(case['psks']), '' if case.get('cert', True) else '/no-cert')
    out['psks'] = list(case['psks'])
    orig_ub = hhp.HandshakeHelpers.__dict__['update_binders']
    f_ub = orig_ub.__func__ if isinstance(orig_ub, staticmethod) else orig_ub

    def ub(client_hello, *a, **kw):
        client_hello.cipher_suites = [x for x in client_hello.cipher_suites if x in (sid, 0x00FF)]
        return f_ub(client_hello, *a, **kw)
    hhp.HandshakeHelpers.update_binders = staticmethod(ub)
    try:
        cg = pair.client.handshakeClientCert(async_=True, **ckw)
        sg = pair.server.handshakeServerAsync(**skw)
        c, s = loop.drive([tag_side(cg, rec, 'c'), tag_side(sg, rec, 's')])
    finally:
        hhp.HandshakeHelpers.update_binders = orig_ub
    out['outcome'] = [list(map(str, loop.classify(c))), list(map(str, loop.classify(s)))]
    try:
        out['wire'] = wire_view(records(pair.csock.sent_log), records(pair.ssock.sent_log))
    except Exception as e:  # noqa
        out['wire'] = None
        out['wire_error'] = repr(e)
    t = list(rec.tagged)
    out['psk'] = {
        'selected': (out['wire'] or {}).get('sh_psk'),
        'srv': sorted(set(h for sd, mod, h in t if sd == 's')),
        'srv_binder': sorted(set(h for sd, mod, h in t if sd == 's' and mod == 'handshakehelpers')),
        'cli': sorted(set(h for sd, mod, h in t if sd == 'c' and mod != 'handshakehelpers')),
        'cli_binder': sorted(set(h for sd, mod, h in t if sd == 'c' and mod == 'handshakehelpers')),
        'untagged': sorted(set(h for sd, mod, h in t if sd == '?')),
    }
    if c[0] != 'ok' or s[0] != 'ok' or not out['wire']:
        return out
    out['ok'] = True
    out['cli'] = side_view(pair.client)
    out['srv'] = side_view(pair.server)
    data = bytes((i * 5 + sid) & 0xff for i in range(64))
    w1 = pair.transfer(pair.client, pair.server, data)
    w2 = pair.transfer(pair.server, pair.client, data)
    out['app_ok'] = bool(w1[2] == data and w2[2] == data)
    return out


WRONG_KEY = {'RSA': 'serverRSANonCAKey.pem', 'ECDSA': 'serverECDSANonCAKey.pem', 'DSS': 'clientDSAKey.pem',
             'TLS13': 'serverRSANonCAKey.pem'}


def run_negauth_flow(case, pair, rec, out, cs, ss, ckw, skw, kind, m):
    """The peer satisfies everything EXCEPT the one authentication the suite's name denotes; the handshake must not
    complete on either side.
      wrong-key      : the server holds the right certificate but another private key of the same type (its
                       ServerKeyExchange / CertificateVerify signature, or its RSA decryption, is wrong)
      empty-sig      : the server's ServerKeyExchange / CertificateVerify carries an empty signature
      wrong-password : SRP client with another password
      wrong-verifier : SRP server whose verifier belongs to another password
      wrong-psk      : TLS 1.3 external PSK, same identity and hash, different secret on the server, no certificate
      other-cert-type: the server holds a consistent certificate + key of ANOTHER key type than the name denotes
                       (RSA <-> ECDSA, DSA -> RSA): the suite must not be negotiated with it"""
    import loop
    sid, variant = case['sid'], case['negauth']
    out['cfg'] = 'negauth:' + variant
    out['negauth'] = variant
    if variant == 'wrong-key':
        skw['privateKey'] = loop.load_key(WRONG_KEY[m['auth']])
    elif variant == 'other-cert-type':
        chain, key = loop.creds({'RSA': 'ecdsa', 'ECDSA': 'rsa', 'DSS': 'rsa'}[m['auth']])
        skw.update(certChain=chain, privateKey=key)
    elif variant == 'empty-sig':
        def wrap(orig):
            def send(msg, *a, **kw):
                if type(msg).__name__ in ('ServerKeyExchange', 'CertificateVerify') and hasattr(msg, 'signature'):
                    msg.signature = bytearray(0)
                    out['sig_emptied'] = type(msg).__name__
                return orig(msg, *a, **kw)
            return send
        pair.server._sendMsg = wrap(pair.server._sendMsg)
        pair.server._queue_message = wrap(pair.server._queue_message)     # TLS 1.3 flights are queued
    elif variant == 'wrong-password':
        ckw['password'] = bytearray(b'not-the-password')
    elif variant == 'wrong-verifier':
        skw['verifierDB'] = loop.make_verifier_db(password=b'another-password')
    elif variant == 'wrong-psk':
        h = iana.prf_at(m, (3, 4))
        ident, secret, _ = PSKS[h]
        cs.pskConfigs = [(ident, secret, h)]
        ss.pskConfigs = [(ident, bytes(b ^ 0x5a for b in secret), h)]
        skw.pop('certChain', None)
        skw.pop('privateKey', None)
    ckw.pop('certChain', None)
    ckw.pop('privateKey', None)
    if variant == 'wrong-psk':
        import tlslite.handshakehelpers as hhp
        orig_ub = hhp.HandshakeHelpers.__dict__['update_binders']
        f_ub = orig_ub.__func__ if isinstance(orig_ub, staticmethod) else orig_ub

        def ub(client_hello, *a, **kw):
            client_hello.cipher_suites = [x for x in client_hello.cipher_suites if x in (sid, 0x00FF)]
            return f_ub(client_hello, *a, **kw)
        hhp.HandshakeHelpers.update_binders = staticmethod(ub)
        try:
            c, s = pair.handshake(client_kw=ckw, server_kw=skw, client_kind=kind)
        finally:
            hhp.HandshakeHelpers.update_binders = orig_ub
    else:
        cut_offer(pair.client, [sid], out)
        c, s = pair.handshake(client_kw=ckw, server_kw=skw, client_kind=kind)
    out['outcome'] = [list(map(str, loop.classify(c))), list(map(str, loop.classify(s)))]
    out['completed'] = [c[0] == 'ok', s[0] == 'ok']
    try:
        out['wire'] = wire_view(records(pair.csock.sent_log), records(pair.ssock.sent_log))
    except Exception as e:  # noqa
        out['wire'] = None
    out['ok'] = bool(c[0] == 'ok' and s[0] == 'ok')
    if c[0] == 'ok':
        sess = pair.client.session
        chain = getattr(sess, 'serverCertChain', None)
        out['client_view'] = {'suite': int(sess.cipherSuite), 'srv_cert': str(chain.x509List[0].certAlg) if chain and chain.x509List else None}
    return out


def run_case(case):
    """case: dict(sid, ver=(3,x), cfg, seed).  Credentials and handshake kind come from the parsed name."""
    import loop
    if case.get('words'):
        return run_word_case(case)
    if case.get('multi'):
        return run_multi_case(case)
    sid, ver, cfg = case['sid'], tuple(case['ver']), case.get('cfg', 'client-pinned')
    m = iana.meaning(sid)
    rec = recorder()
    rec.reset()
    rnd = loop.DetRandom(case.get('seed', 0)).install()
    out = {'sid': sid, 'ver': ver[1], 'cfg': cfg, 'ok': False}
    try:
        pair = loop.Pair()
        if cfg == 'client-pinned':      # client speaks only `ver`; server free
            cs, ss = permissive(ver, ver), permissive((3, 0), (3, 4))
        else:                           # server speaks only `ver`; client free
            cs, ss = permissive((3, 0), (3, 4)), permissive(ver, ver)
            # settings.versions (what is matched against supported_versions) is independent of
            # minVersion/maxVersion: without this a server "pinned" to (3,0) negotiates TLS 1.2 (not C20)
            ss.versions = [ver]
            cs.versions = [(3, 4), (3, 3), (3, 2), (3, 1), (3, 0)]
            if ver == (3, 4):       # validate() refuses the non-TLS-1.3 brainpool curves when minVersion is TLS 1.3
                ss.eccCurves = [c for c in ss.eccCurves if not (c.startswith('brainpool') and not c.endswith('tls13'))]
            if ver == (3, 0):
                # not C20: a client that also offers TLS >= 1.0 sends extended_master_secret; a server that
                # then negotiates SSLv3 accepts it and both ends die in calc_key (AssertionError)
                cs.useExtendedMasterSecret = False
        if case.get('etm') is False:        # exercise MAC-then-encrypt record sizes as well
            cs.useEncryptThenMAC = False
        n_app = int(case.get('n', N_APP))
        ckw, skw, kind = {'settings': cs}, {'settings': ss}, 'cert'
        auth = m['auth'] if m else case.get('auth', 'RSA')
        kx = m['kx'] if m else None
        if kx == 'SRP':
            kind = 'srp'
            if cfg == 'server-pinned':      # an SRP client cannot offer TLS 1.3 (the server answers missing_extension)
                cs.maxVersion = (3, 3)
            ckw.update(username=bytearray(b'test'), password=bytearray(b'password'))
            skw['verifierDB'] = loop.make_verifier_db()
        elif auth == 'anon':
            kind = 'anon'
            skw['anon'] = True
        if auth in ('RSA', 'DSS', 'ECDSA', 'TLS13'):
            name = {'RSA': 'rsa', 'DSS': 'dsa', 'ECDSA': 'ecdsa', 'TLS13': case.get('cred13', 'rsa')}[auth]
            chain, key = loop.creds(name)
            skw.update(certChain=chain, privateKey=key)
        if ver == (3, 4) and case.get('post', True) and kind == 'cert':
            ss.ticketKeys = [bytearray(range(32))]
            cch, ckey = loop.creds('client-rsa')     # a configured client certificate makes the client offer PHA
            ckw.update(certChain=cch, privateKey=ckey)
        if case.get('negauth'):
            return run_negauth_flow(case, pair, rec, out, cs, ss, ckw, skw, kind, m)
        if case.get('psks'):
            return run_psk_flow(case, pair, rec, out, cs, ss, ckw, skw)
        if case.get('resume'):
            from tlslite.api import SessionCache
            if case['resume'] == 'ticket':
                ss.ticketKeys = [bytearray(range(32))]
            else:
                skw['sessionCache'] = SessionCache()
        # the client's offer is cut down to the one suite (plus the renegotiation SCSV)
        cut_offer(pair.client, [sid], out)
        c, s = pair.handshake(client_kw=ckw, server_kw=skw, client_kind=kind)
        out['outcome'] = [list(map(str, loop.classify(c))), list(map(str, loop.classify(s)))]
        try:
            out['wire'] = wire_view(records(pair.csock.sent_log), records(pair.ssock.sent_log))
        except Exception as e:  # noqa
            out['wire'] = None
            out['wire_error'] = repr(e)
        if c[0] != 'ok' or s[0] != 'ok':
            return out
        if out['wire'] is None:
            raise RuntimeError('cannot parse the handshake records: ' + out['wire_error'])
        out['ok'] = True
        data = observe(pair, rec, out, sid, ver, n_app)
        if case.get('resume') and ver <= (3, 3):
            out['first'] = {'ok': True, 'app_ok': out.get('app_ok')}
            res = resume_step(case, pair, rec, out, ckw, skw, kind, ver, n_app)
            res['first_ok'] = True
            return res
        if ver == (3, 4) and case.get('post', True) and m is not None:
            out['post'] = tls13_post(pair, m, data[:64] or b"x", out, skw, cs, ckw)
            out['hkdf'] = sorted(set(rec.hkdf))
    except Exception as e:  # noqa
        import traceback
        out['error'] = '%s: %s' % (type(e).__name__, e)
        out['tb'] = traceback.format_exc()[-1500:]
    finally:
        rnd.uninstall()
    return out


SIG_FIELDS = {'rsa': ('rsaSigHashes', 'rsaSchemes'), 'ecdsa': ('ecdsaSigHashes',), 'dsa': ('dsaSigHashes',)}
KX_WORDS = {'rsa': ['rsa', 'dhe_rsa', 'ecdhe_rsa'], 'ecdsa': ['ecdhe_ecdsa'], 'dsa': ['dhe_dsa']}


def run_multi_case(case):
    """A server with SEVERAL key pairs: primary certificate of key type `primary`, a second pair of type `alt` in
    settings.virtual_hosts.  The client lists the suites of both authentication kinds but makes the primary unusable
    for the reason `skip`:
      'sigalgs'   : it advertises no signature algorithm for the primary's key type (TLS 1.2)
      'suites'    : it offers only suites authenticated by the alt's key type
    deviate=True additionally makes the SERVER choose the suite as if for the primary while sending the alternative
    pair (CipherSuite.filter_for_certificate is handed the primary chain during the server's selection): the client
    must refuse a certificate whose key type does not fit the suite.  Nothing is cut from the offer; whatever is
    negotiated is observed like any other connection (certificate key type and signature algorithm on the wire)."""
    import loop
    from tlslite.handshakesettings import VirtualHost, Keypair
    primary, alt, skip, ver = case['multi'], case['alt_cred'], case.get('skip', 'sigalgs'), tuple(case['ver'])
    rec = recorder()
    rec.reset()
    rnd = loop.DetRandom(case.get('seed', 0)).install()
    out = {'sid': -1, 'ver': -1, 'ok': False, 'multi': [primary, alt, skip, bool(case.get('deviate'))],
           'cfg': 'multi:%s+%s/skip=%s%s' % (primary, alt, skip, '/server-deviates' if case.get('deviate') else '')}
    try:
        pair = loop.Pair()
        cs, ss = permissive(ver, ver), permissive((3, 0), (3, 4))
        cs.keyExchangeNames = (KX_WORDS[primary] if skip == 'sigalgs' else []) + KX_WORDS[alt]
        if skip == 'sigalgs':
            for f in SIG_FIELDS[primary]:
                setattr(cs, f, [])
            cs.more_sig_schemes = []
        pch, pkey = loop.creds(primary)
        ach, akey = loop.creds(alt)
        vh = VirtualHost()
        vh.keys = [Keypair(akey, list(ach.x509List))]
        ss.virtual_hosts = [vh]
        skw = {'settings': ss, 'certChain': pch, 'privateKey': pkey}
        if case.get('deviate'):
            import tlslite.constants as tconst
            orig_sel = pair.server._server_select_certificate
            orig_ffc = tconst.CipherSuite.__dict__['filter_for_certificate']

            def sel(*a, **kw):
                f = orig_ffc.__func__ if isinstance(orig_ffc, staticmethod) else orig_ffc
                tconst.CipherSuite.filter_for_certificate = staticmethod(lambda suites, cert: f(suites, pch))
                try:
                    return orig_sel(*a, **kw)
                finally:
                    tconst.CipherSuite.filter_for_certificate = orig_ffc
            pair.server._server_select_certificate = sel
        c, s = pair.handshake(client_kw={'settings': cs}, server_kw=skw, client_kind='cert')
        out['outcome'] = [list(map(str, loop.classify(c))), list(map(str, loop.classify(s)))]
        try:
            out['wire'] = wire_view(records(pair.csock.sent_log), records(pair.ssock.sent_log))
        except Exception as e:  # noqa
            out['wire'] = None
            out['wire_error'] = repr(e)
        if out['wire'] and out['wire']['sh_suite'] >= 0:
            out['sid'], out['ver'] = out['wire']['sh_suite'], out['wire']['sh_ver']
        if c[0] != 'ok' or s[0] != 'ok' or not out['wire']:
            return out
        out['ok'] = True
        observe(pair, rec, out, out['sid'], (3, out['ver']), N_APP)
    except Exception as e:  # noqa
        import traceback
        out['error'] = '%s: %s' % (type(e).__name__, e)
        out['tb'] = traceback.format_exc()[-1500:]
    finally:
        rnd.uninstall()
    return out


def run_word_case(case):
    """No offer cutting: a client restricted by ONE settings word (cipherNames / macNames / keyExchangeNames = [w]),
    every version allowed on both sides, against an all-permissive server holding `cred`.  Whatever the server
    answers is judged from the wire; a completed handshake is observed like any other."""
    import loop
    field, word = case['words']
    cred = case.get('cred', 'rsa')
    rec = recorder()
    rec.reset()
    rnd = loop.DetRandom(case.get('seed', 0)).install()
    out = {'sid': -1, 'ver': -1, 'cfg': 'word:%s=%s/%s' % (field, word, cred), 'ok': False, 'words': [field, word],
           'cred': cred}
    try:
        pair = loop.Pair()
        cs, ss = permissive((3, 0), (3, 4)), permissive((3, 0), (3, 4))
        setattr(cs, field, [word])
        cs.versions = [(3, 4), (3, 3), (3, 2), (3, 1), (3, 0)]
        ss.versions = [(3, 4), (3, 3), (3, 2), (3, 1), (3, 0)]
        ss.ticketKeys = [bytearray(range(32))]
        cch, ckey = loop.creds('client-rsa')
        ckw, skw, kind = {'settings': cs, 'certChain': cch, 'privateKey': ckey}, {'settings': ss}, 'cert'
        if cred == 'anon':
            kind, ckw = 'anon', {'settings': cs}
            skw['anon'] = True
        elif cred == 'srp':
            kind = 'srp'
            cs.maxVersion = (3, 3)
            ckw = {'settings': cs, 'username': bytearray(b'test'), 'password': bytearray(b'password')}
            skw['verifierDB'] = loop.make_verifier_db()
        else:
            chain, key = loop.creds(cred)
            skw.update(certChain=chain, privateKey=key)
        c, s = pair.handshake(client_kw=ckw, server_kw=skw, client_kind=kind)
        out['outcome'] = [list(map(str, loop.classify(c))), list(map(str, loop.classify(s)))]
        try:
            out['wire'] = wire_view(records(pair.csock.sent_log), records(pair.ssock.sent_log))
        except Exception as e:  # noqa
            out['wire'] = None
            out['wire_error'] = repr(e)
        if out['wire'] and out['wire']['sh_suite'] >= 0:
            out['sid'], out['ver'] = out['wire']['sh_suite'], out['wire']['sh_ver']
        if c[0] != 'ok' or s[0] != 'ok' or not out['wire']:
            return out
        out['ok'] = True
        sid, ver = out['sid'], (3, out['ver'])
        m = iana.meaning(sid)
        out['cli'] = side_view(pair.client)
        out['srv'] = side_view(pair.server)
        out['fact'] = sorted(set(rec.fact))
        out['prfs'] = sorted(set(rec.prfs))
        out['hkdf'] = sorted(set(rec.hkdf))
        nc, ns = len(records(pair.csock.sent_log)), len(records(pair.ssock.sent_log))
        data = bytes((i * 7 + sid) & 0xff for i in range(N_APP))
        w1 = pair.transfer(pair.client, pair.server, data)
        w2 = pair.transfer(pair.server, pair.client, data)
        out['app_ok'] = bool(w1[2] == data and w2[2] == data)
        out['c2s'] = app_lens(pair.csock.sent_log, nc)
        out['s2c'] = app_lens(pair.ssock.sent_log, ns)
        out['n'] = N_APP
        if ver >= (3, 1):
            out['exporter'] = exporter_view(pair, ver)
        if ver == (3, 4) and m is not None:
            out['post'] = tls13_post(pair, m, data[:64], out, skw, cs, ckw)
            out['hkdf'] = sorted(set(rec.hkdf))
    except Exception as e:  # noqa
        import traceback
        out['error'] = '%s: %s' % (type(e).__name__, e)
        out['tb'] = traceback.format_exc()[-1500:]
    finally:
        rnd.uninstall()
    return out


if __name__ == '__main__':
    import json
    sid = int(sys.argv[1], 0)
    v = int(sys.argv[2])
    print(json.dumps(run_case({'sid': sid, 'ver': (3, v), 'cfg': sys.argv[3] if len(sys.argv) > 3 else 'client-pinned'}),
                     indent=1, default=str))
