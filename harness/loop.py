"""In-memory live endpoints: two real tlslite-ng TLSConnection objects joined by scripted
byte pipes and driven as generators in one thread.

Nothing in /repo is modified: sockets are duck-typed objects, randomness/clock are replaced by
assigning module attributes from this process.
"""
import errno
import os
import socket
import sys

from tlslite.api import (TLSConnection, HandshakeSettings, X509, X509CertChain, parsePEMKey,
                         SessionCache, VerifierDB)
from tlslite import errors as tlserr

TESTS = os.path.join(os.path.realpath(os.environ.get('VERIF_REPO', '/repo')), 'tests')


class Deadlock(Exception):
    pass


class Fault(Exception):
    pass


class MemSock(object):
    """One end of an in-memory duplex byte pipe.

    script hooks (all optional):
      recv_sizes : iterator of max sizes to return per recv() (None = as asked)
      send_sizes : iterator of max sizes accepted per send()
      block_recv / block_send : iterator of booleans, True => raise EWOULDBLOCK on that call
      fault_at   : (kind, index, errno or 'eof') -> on the index-th call of kind raise/EOF
      tap        : function(direction_name, bytes) -> bytes, applied to data this end sends
    """

    def __init__(self, name):
        self.name = name
        self.inbuf = bytearray()
        self.peer = None
        self.closed = False
        self.peer_closed = False
        self.recv_sizes = None
        self.send_sizes = None
        self.block_recv = None
        self.block_send = None
        self.fault = None          # dict(kind='recv'|'send'|'any', index=n, err=errno|'eof')
        self.tap = None
        self.n_recv = 0
        self.n_send = 0
        self.n_io = 0
        self.sent_log = []         # raw chunks as accepted
        self.faulted = False
        self.eof_forced = False

    # -- socket API used by tlslite
    def _check_fault(self, kind):
        f = self.fault
        idx = {'recv': self.n_recv, 'send': self.n_send, 'any': self.n_io}
        if f and not self.faulted and f['kind'] in (kind, 'any') and idx[f['kind']] == f['index']:
            self.faulted = True
            return f['err']
        return None

    def recv(self, n):
        err = self._check_fault('recv')
        self.n_recv += 1
        self.n_io += 1
        if err is not None:
            if err == 'eof':
                self.eof_forced = True
                return b''
            raise socket.error(err, os.strerror(err))
        if self.eof_forced:
            return b''
        if self.block_recv is not None and next(self.block_recv, False):
            raise socket.error(errno.EWOULDBLOCK, 'scripted would-block')
        if not self.inbuf:
            if self.peer_closed:
                return b''
            raise socket.error(errno.EWOULDBLOCK, 'no data')
        k = n
        if self.recv_sizes is not None:
            k = max(1, min(n, next(self.recv_sizes, n) or n))
        out = bytes(self.inbuf[:k])
        del self.inbuf[:k]
        return out

    def send(self, data):
        err = self._check_fault('send')
        self.n_send += 1
        self.n_io += 1
        if err is not None:
            if err == 'eof':
                err = errno.EPIPE
            raise socket.error(err, os.strerror(err))
        if self.closed:
            raise socket.error(errno.EPIPE, 'closed')
        if self.block_send is not None and next(self.block_send, False):
            raise socket.error(errno.EWOULDBLOCK, 'scripted would-block')
        data = bytes(data)
        k = len(data)
        if self.send_sizes is not None:
            k = max(1, min(k, next(self.send_sizes, k) or k))
        chunk = data[:k]
        self.sent_log.append(chunk)
        out = chunk
        if self.tap is not None:
            out = self.tap(self.name, chunk)
        if out and not self.peer.closed:
            self.peer.inbuf += out
        return k

    def sendall(self, data):
        data = bytes(data)
        while data:
            k = self.send(data)
            data = data[k:]

    def close(self):
        self.closed = True
        if self.peer is not None:
            self.peer.peer_closed = True

    def shutdown(self, how):
        self.close()

    def getsockname(self):
        return ('mem', 0)

    def getpeername(self):
        return ('mem', 1)

    def settimeout(self, t):
        pass

    def gettimeout(self):
        return None

    def setsockopt(self, *a):
        pass

    def fileno(self):
        return -1


def sockpair():
    a, b = MemSock('c2s'), MemSock('s2c')
    a.peer, b.peer = b, a
    return a, b


# ------------------------------------------------------------------------------------------
def drive(gens, max_steps=200000, on_idle=None):
    """Round-robin the generators until each finished.  Returns list of
    ('ok', last_value) | ('exc', exception).  A generator that yields something that is not
    0/1 is delivering a value (readAsync): the value is recorded and iteration continues."""
    res = [None] * len(gens)
    vals = [None] * len(gens)
    active = list(range(len(gens)))
    idle_rounds = 0
    steps = 0
    while active:
        progressed = False
        for i in list(active):
            g = gens[i]
            try:
                r = next(g)
                steps += 1
                if r not in (0, 1) or isinstance(r, (bytes, bytearray)):
                    vals[i] = r
                    progressed = True
                elif r == 1:
                    progressed = True
            except StopIteration:
                res[i] = ('ok', vals[i])
                active.remove(i)
                progressed = True
            except Exception as e:  # noqa
                res[i] = ('exc', e)
                active.remove(i)
                progressed = True
        # progress is also: any data moved
        sig = tuple(getattr(g, '_sig', 0) for g in gens)
        if not progressed:
            idle_rounds += 1
        else:
            idle_rounds = 0
        if idle_rounds > 3000:
            if on_idle is not None and on_idle():
                idle_rounds = 0
                continue
            for i in active:
                res[i] = ('exc', Deadlock('no progress'))
            break
        if steps > max_steps:
            for i in active:
                res[i] = ('exc', Deadlock('step budget'))
            break
    return res


def run_gen(g, max_steps=100000):
    return drive([g], max_steps=max_steps)[0]


# ------------------------------------------------------------------------------------------
_CREDS = {}


def load_chain(cert_file):
    with open(os.path.join(TESTS, cert_file)) as f:
        pem = f.read()
    chain = X509CertChain()
    chain.parsePemList(pem)
    return chain


def load_key(key_file):
    with open(os.path.join(TESTS, key_file)) as f:
        return parsePEMKey(f.read(), private=True, implementations=['python'])


CRED_FILES = {
    'rsa': ('serverX509Cert.pem', 'serverX509Key.pem'),
    'rsapss': ('serverRSAPSSCert.pem', 'serverRSAPSSKey.pem'),
    'ecdsa': ('serverECCert.pem', 'serverECKey.pem'),
    'ecdsa384': ('serverP384ECCert.pem', 'serverP384ECKey.pem'),
    'ecdsa521': ('serverP521ECCert.pem', 'serverP521ECKey.pem'),
    'ed25519': ('serverEd25519Cert.pem', 'serverEd25519Key.pem'),
    'ed448': ('serverEd448Cert.pem', 'serverEd448Key.pem'),
    'dsa': ('serverDSACert.pem', 'serverDSAKey.pem'),
    'client-rsa': ('clientX509Cert.pem', 'clientX509Key.pem'),
    'client-ecdsa': ('clientECCert.pem', 'clientECKey.pem'),
    'client-ed25519': ('clientEd25519Cert.pem', 'clientEd25519Key.pem'),
    'client-dsa': ('clientDSACert.pem', 'clientDSAKey.pem'),
}


def creds(name):
    if name not in _CREDS:
        c, k = CRED_FILES[name]
        _CREDS[name] = (load_chain(c), load_key(k))
    return _CREDS[name]


def make_verifier_db(user=b'test', password=b'password', bits=1024):
    db = VerifierDB()
    db.create()
    db[user] = VerifierDB.makeVerifier(user, password, bits)
    return db


# ------------------------------------------------------------------------------------------
class DetRandom(object):
    """Deterministic replacement for getRandomBytes (installed in every tlslite module that
    imported the name)."""

    def __init__(self, seed=0):
        import random
        self.r = random.Random(seed)
        self.saved = []

    def __call__(self, n):
        return bytearray(self.r.getrandbits(8) for _ in range(n))

    def install(self):
        for name, mod in list(sys.modules.items()):
            if name.startswith('tlslite') and mod is not None and hasattr(mod, 'getRandomBytes'):
                self.saved.append((mod, mod.getRandomBytes))
                mod.getRandomBytes = self
        return self

    def uninstall(self):
        for mod, f in self.saved:
            mod.getRandomBytes = f
        self.saved = []


class FakeClock(object):
    """Replacement for time.time in the tlslite modules that use it."""

    def __init__(self, start=1700000000.0):
        self.now = start
        self.saved = []

    def time(self):
        return self.now

    def install(self):
        import time as _time
        for name, mod in list(sys.modules.items()):
            if name.startswith('tlslite') and mod is not None and getattr(mod, 'time', None) is not None:
                t = mod.time
                if t is _time:          # "import time"
                    shim = _TimeShim(self, _time)
                    self.saved.append((mod, 'time', t))
                    mod.time = shim
                elif t is _time.time:   # "from time import time"
                    self.saved.append((mod, 'time', t))
                    mod.time = self.time
        return self

    def uninstall(self):
        for mod, attr, v in self.saved:
            setattr(mod, attr, v)
        self.saved = []


class _TimeShim(object):
    def __init__(self, clock, real):
        self._clock, self._real = clock, real

    def time(self):
        return self._clock.now

    def __getattr__(self, k):
        return getattr(self._real, k)


# ------------------------------------------------------------------------------------------
def classify(outcome):
    """Canonical form of ('ok', v) / ('exc', e) for comparison."""
    kind, v = outcome
    if kind == 'ok':
        return ('ok',)
    e = v
    if isinstance(e, tlserr.TLSLocalAlert):
        return ('LocalAlert', int(e.description))
    if isinstance(e, tlserr.TLSRemoteAlert):
        return ('RemoteAlert', int(e.description))
    if isinstance(e, tlserr.TLSAbruptCloseError):
        return ('AbruptClose',)
    if isinstance(e, tlserr.TLSClosedConnectionError):
        return ('Closed',)
    if isinstance(e, tlserr.TLSAuthenticationError):
        return ('AuthError', type(e).__name__)
    if isinstance(e, tlserr.TLSError):
        return ('TLSError', type(e).__name__)
    if isinstance(e, socket.error):
        return ('SockError', e.args[0] if e.args else None)
    if isinstance(e, Deadlock):
        return ('Deadlock', str(e))
    return ('Other', type(e).__name__, str(e)[:200])


DOCUMENTED = ('ok', 'LocalAlert', 'RemoteAlert', 'AbruptClose', 'Closed', 'AuthError', 'TLSError', 'SockError')


class Pair(object):
    """A client and a server TLSConnection over one MemSock pair."""

    def __init__(self):
        self.csock, self.ssock = sockpair()
        self.client = TLSConnection(self.csock)
        self.server = TLSConnection(self.ssock)

    def handshake(self, client_kw=None, server_kw=None, client_kind='cert', max_steps=200000):
        """client_kind: 'cert' | 'anon' | 'srp'.  Returns (client_outcome, server_outcome)."""
        ckw = dict(client_kw or {})
        skw = dict(server_kw or {})
        if client_kind == 'cert':
            cg = self.client.handshakeClientCert(async_=True, **ckw)
        elif client_kind == 'anon':
            cg = self.client.handshakeClientAnonymous(async_=True, **ckw)
        elif client_kind == 'srp':
            cg = self.client.handshakeClientSRP(async_=True, **ckw)
        else:
            raise ValueError(client_kind)
        sg = self.server.handshakeServerAsync(**skw)
        return tuple(drive([cg, sg], max_steps=max_steps))

    def transfer(self, src, dst, data, read_max=None):
        """src writes data, dst reads until len(data) bytes arrived.  Returns (write_outcome, bytes_read or exc)."""
        wg = src.writeAsync(data)
        got = bytearray()

        def reader():
            while len(got) < len(data):
                for r in dst.readAsync(max=read_max or 65536, min=1):
                    if r in (0, 1) and not isinstance(r, (bytes, bytearray)):
                        yield r
                    else:
                        got.extend(r)
                        if len(r) == 0:
                            return
                        break
        w, r = drive([wg, reader()])
        return w, r, bytes(got)

    def close_both(self):
        a = drive([self.client.closeAsync(), self.server.closeAsync()])
        return a


def settings(minv=None, maxv=None, **kw):
    s = HandshakeSettings()
    if minv:
        s.minVersion = minv
    if maxv:
        s.maxVersion = maxv
    for k, v in kw.items():
        if not hasattr(s, k):
            raise AttributeError('HandshakeSettings has no field ' + k)
        setattr(s, k, v)
    return s
