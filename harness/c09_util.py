"""C09 helpers: running implementation functions to (value, exception-code), Gallina literals,
a small 'section' record used by harness/props/C09.py."""
import struct

import vlib
from vlib import blit, zlit

EXC = {'IndexError': 1, 'ValueError': 2, 'AssertionError': 3, 'AttributeError': 4, 'TypeError': 5,
       'KeyError': 6, 'ZeroDivisionError': 9, 'error': 101, 'OverflowError': 102, 'NotImplementedError': 103}


def run(f, *a, **kw):
    """-> (value, 0) or (None, code)"""
    try:
        return f(*a, **kw), 0
    except Exception as e:      # noqa
        if isinstance(e, struct.error):
            return None, 101
        return None, EXC.get(type(e).__name__, 199)


def rbytes(rng, n):
    return bytes(rng.getrandbits(8) for _ in range(n))


def olit(v, f=blit):
    """optional value -> option literal"""
    return 'None' if v is None else '(Some %s)' % f(v)


def oolit(v):
    """result that may itself be None (AEAD open): impl value None means 'returned None'"""
    return 'None' if v is None else '(Some %s)' % blit(v)


def wlit(ws):
    return '[' + ';'.join(zlit(w) for w in ws) + ']'


def hexs(b):
    return None if b is None else bytes(b).hex()


class Section:
    """cases of one unit: literals for Coq + what to do with the bad indices"""

    def __init__(self, tag, imports, case_type, preamble):
        self.tag, self.imports, self.case_type, self.preamble = tag, imports, case_type, preamble
        self.fns = []        # (coq function name, 'model' | 'spec', stream name)
        self.lits = []
        self.meta = []       # json-able description per case

    def add(self, lit, meta):
        self.lits.append(lit)
        self.meta.append(meta)

    def files(self, shard):
        """same file layout as vlib.coq_bad_indices (round-robin shards)"""
        fns = [f for f, _, _ in self.fns]
        ns = max(1, (len(self.lits) + shard - 1) // shard)
        out = []
        for s in range(ns):
            part = self.lits[s::ns]
            text = ('From Coq Require Import ZArith List Bool String.\n'
                    'From TV Require Import Base.Prelude Base.C09_Lib %s.\n'
                    'Import ListNotations.\nOpen Scope Z_scope.\n%s\n'
                    'Definition cases : list (%s) := [\n%s\n].\n'
                    % (' '.join(self.imports), self.preamble, self.case_type, ';\n'.join(part)))
            for fn in fns:
                text += 'Eval vm_compute in (bad_idx (%s) cases).\n' % fn
            out.append(('%s_%04d' % (self.tag, s), text))
        self.ns = ns
        return out

    def parse(self, results):
        """results: [(rc, out)] for self.files(); -> (bad index lists per fn, errors)"""
        import re
        bads, errs = [[] for _ in self.fns], []
        for k, (rc, out) in enumerate(results):
            if rc != 0:
                errs.append('%s_%04d: rc=%s %s' % (self.tag, k, rc, out[-1500:]))
                continue
            ms = re.findall(r'=\s*\[(.*?)\]\s*:\s*list nat', out, flags=re.S)
            if len(ms) != len(self.fns):
                errs.append('%s_%04d: unparsable output %s' % (self.tag, k, out[-500:]))
                continue
            for fi, m in enumerate(ms):
                for n in re.findall(r'\d+', m):
                    bads[fi].append(int(n) * self.ns + k)
        return bads, errs


def evaluate_all(sections, shard_of, timeout=900):
    """one parallel coqc batch for all sections (vlib.coq_run_files); -> {section: (bads, errs)}"""
    files, spans = [], []
    for sec in sections:
        fs = sec.files(shard_of(sec))
        spans.append((len(files), len(files) + len(fs)))
        files += fs
    res = vlib.coq_run_files(files, timeout=timeout)
    # a shard that hit the wall-clock limit or was killed from outside (machine load, OOM killer) says nothing about
    # the model: run those again, alone, with a generous limit, before anything is reported
    again = [k for k, (rc, out) in enumerate(res) if rc in (124, 137, -9, -15) or rc < 0]
    for k in again:
        (r,) = vlib.coq_run_files([files[k]], timeout=4 * timeout)
        res[k] = r
    return [sec.parse(res[a:b]) for sec, (a, b) in zip(sections, spans)]
