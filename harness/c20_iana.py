"""C20: independent registry of TLS cipher suite names and a parser of the naming
conventions, written from the IANA "TLS Cipher Suites" registry and the RFCs that
define the name parts -- NOT from tlslite's ietfNames.  This is the Python twin of
coq/Spec/Iana.v (same table, same conventions); the check compares the two on every
run, and uses this one as the direct oracle of the failing-input search.

Meaning of a name  TLS_<KX>_WITH_<CIPHER>[_<HASH>]   (TLS <= 1.2 suites)
               or  TLS_<CIPHER>_<HASH>               (TLS 1.3 suites, RFC 8446 B.4)

  KX      RSA | DH_DSS | DH_RSA | DHE_DSS | DHE_RSA | DH_anon | ECDH_ECDSA | ECDH_RSA |
          ECDHE_ECDSA | ECDHE_RSA | ECDH_anon | SRP_SHA | SRP_SHA_RSA | SRP_SHA_DSS
  CIPHER  NULL | RC4_128 | 3DES_EDE_CBC | AES_{128,256}_CBC | AES_{128,256}_GCM |
          AES_{128,256}_CCM | AES_{128,256}_CCM_8 | CHACHA20_POLY1305
  HASH    MD5 | SHA | SHA256 | SHA384: the HMAC hash of a stream/CBC suite; the PRF hash
          of an AEAD suite (CCM suites of RFC 6655/7251 carry none: SHA-256 PRF).
"""

# id -> registered name.  Entries with registered=False are code points the library
# knows that are not in the IANA registry (draft ChaCha20 code points); they get the
# library's own label and are parsed by the same conventions ("_draft_00" = no hash part).
REGISTRY = {
    0x0001: 'TLS_RSA_WITH_NULL_MD5',
    0x0002: 'TLS_RSA_WITH_NULL_SHA',
    0x0004: 'TLS_RSA_WITH_RC4_128_MD5',
    0x0005: 'TLS_RSA_WITH_RC4_128_SHA',
    0x000A: 'TLS_RSA_WITH_3DES_EDE_CBC_SHA',
    0x000D: 'TLS_DH_DSS_WITH_3DES_EDE_CBC_SHA',
    0x0013: 'TLS_DHE_DSS_WITH_3DES_EDE_CBC_SHA',
    0x0016: 'TLS_DHE_RSA_WITH_3DES_EDE_CBC_SHA',
    0x0018: 'TLS_DH_anon_WITH_RC4_128_MD5',
    0x001B: 'TLS_DH_anon_WITH_3DES_EDE_CBC_SHA',
    0x002F: 'TLS_RSA_WITH_AES_128_CBC_SHA',
    0x0030: 'TLS_DH_DSS_WITH_AES_128_CBC_SHA',
    0x0032: 'TLS_DHE_DSS_WITH_AES_128_CBC_SHA',
    0x0033: 'TLS_DHE_RSA_WITH_AES_128_CBC_SHA',
    0x0034: 'TLS_DH_anon_WITH_AES_128_CBC_SHA',
    0x0035: 'TLS_RSA_WITH_AES_256_CBC_SHA',
    0x0036: 'TLS_DH_DSS_WITH_AES_256_CBC_SHA',
    0x0038: 'TLS_DHE_DSS_WITH_AES_256_CBC_SHA',
    0x0039: 'TLS_DHE_RSA_WITH_AES_256_CBC_SHA',
    0x003A: 'TLS_DH_anon_WITH_AES_256_CBC_SHA',
    0x003B: 'TLS_RSA_WITH_NULL_SHA256',
    0x003C: 'TLS_RSA_WITH_AES_128_CBC_SHA256',
    0x003D: 'TLS_RSA_WITH_AES_256_CBC_SHA256',
    0x003E: 'TLS_DH_DSS_WITH_AES_128_CBC_SHA256',
    0x0040: 'TLS_DHE_DSS_WITH_AES_128_CBC_SHA256',
    0x0067: 'TLS_DHE_RSA_WITH_AES_128_CBC_SHA256',
    0x0068: 'TLS_DH_DSS_WITH_AES_256_CBC_SHA256',
    0x006A: 'TLS_DHE_DSS_WITH_AES_256_CBC_SHA256',
    0x006B: 'TLS_DHE_RSA_WITH_AES_256_CBC_SHA256',
    0x006C: 'TLS_DH_anon_WITH_AES_128_CBC_SHA256',
    0x006D: 'TLS_DH_anon_WITH_AES_256_CBC_SHA256',
    0x009C: 'TLS_RSA_WITH_AES_128_GCM_SHA256',
    0x009D: 'TLS_RSA_WITH_AES_256_GCM_SHA384',
    0x009E: 'TLS_DHE_RSA_WITH_AES_128_GCM_SHA256',
    0x009F: 'TLS_DHE_RSA_WITH_AES_256_GCM_SHA384',
    0x00A2: 'TLS_DHE_DSS_WITH_AES_128_GCM_SHA256',
    0x00A3: 'TLS_DHE_DSS_WITH_AES_256_GCM_SHA384',
    0x00A4: 'TLS_DH_DSS_WITH_AES_128_GCM_SHA256',
    0x00A5: 'TLS_DH_DSS_WITH_AES_256_GCM_SHA384',
    0x00A6: 'TLS_DH_anon_WITH_AES_128_GCM_SHA256',
    0x00A7: 'TLS_DH_anon_WITH_AES_256_GCM_SHA384',
    0x00FF: 'TLS_EMPTY_RENEGOTIATION_INFO_SCSV',
    0x1301: 'TLS_AES_128_GCM_SHA256',
    0x1302: 'TLS_AES_256_GCM_SHA384',
    0x1303: 'TLS_CHACHA20_POLY1305_SHA256',
    0x1304: 'TLS_AES_128_CCM_SHA256',
    0x1305: 'TLS_AES_128_CCM_8_SHA256',
    0x5600: 'TLS_FALLBACK_SCSV',
    0xC001: 'TLS_ECDH_ECDSA_WITH_NULL_SHA',
    0xC002: 'TLS_ECDH_ECDSA_WITH_RC4_128_SHA',
    0xC003: 'TLS_ECDH_ECDSA_WITH_3DES_EDE_CBC_SHA',
    0xC004: 'TLS_ECDH_ECDSA_WITH_AES_128_CBC_SHA',
    0xC005: 'TLS_ECDH_ECDSA_WITH_AES_256_CBC_SHA',
    0xC006: 'TLS_ECDHE_ECDSA_WITH_NULL_SHA',
    0xC007: 'TLS_ECDHE_ECDSA_WITH_RC4_128_SHA',
    0xC008: 'TLS_ECDHE_ECDSA_WITH_3DES_EDE_CBC_SHA',
    0xC009: 'TLS_ECDHE_ECDSA_WITH_AES_128_CBC_SHA',
    0xC00A: 'TLS_ECDHE_ECDSA_WITH_AES_256_CBC_SHA',
    0xC00B: 'TLS_ECDH_RSA_WITH_NULL_SHA',
    0xC00C: 'TLS_ECDH_RSA_WITH_RC4_128_SHA',
    0xC00D: 'TLS_ECDH_RSA_WITH_3DES_EDE_CBC_SHA',
    0xC00E: 'TLS_ECDH_RSA_WITH_AES_128_CBC_SHA',
    0xC00F: 'TLS_ECDH_RSA_WITH_AES_256_CBC_SHA',
    0xC010: 'TLS_ECDHE_RSA_WITH_NULL_SHA',
    0xC011: 'TLS_ECDHE_RSA_WITH_RC4_128_SHA',
    0xC012: 'TLS_ECDHE_RSA_WITH_3DES_EDE_CBC_SHA',
    0xC013: 'TLS_ECDHE_RSA_WITH_AES_128_CBC_SHA',
    0xC014: 'TLS_ECDHE_RSA_WITH_AES_256_CBC_SHA',
    0xC015: 'TLS_ECDH_anon_WITH_NULL_SHA',
    0xC016: 'TLS_ECDH_anon_WITH_RC4_128_SHA',
    0xC017: 'TLS_ECDH_anon_WITH_3DES_EDE_CBC_SHA',
    0xC018: 'TLS_ECDH_anon_WITH_AES_128_CBC_SHA',
    0xC019: 'TLS_ECDH_anon_WITH_AES_256_CBC_SHA',
    0xC01A: 'TLS_SRP_SHA_WITH_3DES_EDE_CBC_SHA',
    0xC01B: 'TLS_SRP_SHA_RSA_WITH_3DES_EDE_CBC_SHA',
    0xC01C: 'TLS_SRP_SHA_DSS_WITH_3DES_EDE_CBC_SHA',
    0xC01D: 'TLS_SRP_SHA_WITH_AES_128_CBC_SHA',
    0xC01E: 'TLS_SRP_SHA_RSA_WITH_AES_128_CBC_SHA',
    0xC01F: 'TLS_SRP_SHA_DSS_WITH_AES_128_CBC_SHA',
    0xC020: 'TLS_SRP_SHA_WITH_AES_256_CBC_SHA',
    0xC021: 'TLS_SRP_SHA_RSA_WITH_AES_256_CBC_SHA',
    0xC022: 'TLS_SRP_SHA_DSS_WITH_AES_256_CBC_SHA',
    0xC023: 'TLS_ECDHE_ECDSA_WITH_AES_128_CBC_SHA256',
    0xC024: 'TLS_ECDHE_ECDSA_WITH_AES_256_CBC_SHA384',
    0xC025: 'TLS_ECDH_ECDSA_WITH_AES_128_CBC_SHA256',
    0xC026: 'TLS_ECDH_ECDSA_WITH_AES_256_CBC_SHA384',
    0xC027: 'TLS_ECDHE_RSA_WITH_AES_128_CBC_SHA256',
    0xC028: 'TLS_ECDHE_RSA_WITH_AES_256_CBC_SHA384',
    0xC029: 'TLS_ECDH_RSA_WITH_AES_128_CBC_SHA256',
    0xC02A: 'TLS_ECDH_RSA_WITH_AES_256_CBC_SHA384',
    0xC02B: 'TLS_ECDHE_ECDSA_WITH_AES_128_GCM_SHA256',
    0xC02C: 'TLS_ECDHE_ECDSA_WITH_AES_256_GCM_SHA384',
    0xC02D: 'TLS_ECDH_ECDSA_WITH_AES_128_GCM_SHA256',
    0xC02E: 'TLS_ECDH_ECDSA_WITH_AES_256_GCM_SHA384',
    0xC02F: 'TLS_ECDHE_RSA_WITH_AES_128_GCM_SHA256',
    0xC030: 'TLS_ECDHE_RSA_WITH_AES_256_GCM_SHA384',
    0xC031: 'TLS_ECDH_RSA_WITH_AES_128_GCM_SHA256',
    0xC032: 'TLS_ECDH_RSA_WITH_AES_256_GCM_SHA384',
    0xC09C: 'TLS_RSA_WITH_AES_128_CCM',
    0xC09D: 'TLS_RSA_WITH_AES_256_CCM',
    0xC09E: 'TLS_DHE_RSA_WITH_AES_128_CCM',
    0xC09F: 'TLS_DHE_RSA_WITH_AES_256_CCM',
    0xC0A0: 'TLS_RSA_WITH_AES_128_CCM_8',
    0xC0A1: 'TLS_RSA_WITH_AES_256_CCM_8',
    0xC0A2: 'TLS_DHE_RSA_WITH_AES_128_CCM_8',
    0xC0A3: 'TLS_DHE_RSA_WITH_AES_256_CCM_8',
    0xC0AC: 'TLS_ECDHE_ECDSA_WITH_AES_128_CCM',
    0xC0AD: 'TLS_ECDHE_ECDSA_WITH_AES_256_CCM',
    0xC0AE: 'TLS_ECDHE_ECDSA_WITH_AES_128_CCM_8',
    0xC0AF: 'TLS_ECDHE_ECDSA_WITH_AES_256_CCM_8',
    0xCCA8: 'TLS_ECDHE_RSA_WITH_CHACHA20_POLY1305_SHA256',
    0xCCA9: 'TLS_ECDHE_ECDSA_WITH_CHACHA20_POLY1305_SHA256',
    0xCCAA: 'TLS_DHE_RSA_WITH_CHACHA20_POLY1305_SHA256',
}
# not in the IANA registry (pre-RFC 7905 draft code points the library still carries)
UNREGISTERED = {
    0xCCA1: 'TLS_ECDHE_RSA_WITH_CHACHA20_POLY1305_draft_00',
    0xCCA2: 'TLS_ECDHE_ECDSA_WITH_CHACHA20_POLY1305_draft_00',
    0xCCA3: 'TLS_DHE_RSA_WITH_CHACHA20_POLY1305_draft_00',
}
SCSV = (0x00FF, 0x5600)

# numeric codes shared with coq/Spec/Iana.v
KX = {'RSA': 1, 'DH': 2, 'DHE': 3, 'ECDH': 4, 'ECDHE': 5, 'SRP': 6, 'TLS13': 7}
AUTH = {'RSA': 1, 'DSS': 2, 'ECDSA': 3, 'anon': 4, 'SRP': 5, 'TLS13': 6}
CIPH = {'NULL': 0, 'RC4': 1, '3DES': 2, 'AES_CBC': 3, 'AES_GCM': 4, 'AES_CCM': 5, 'AES_CCM_8': 6, 'CHACHA20': 7}
MAC = {'AEAD': 0, 'MD5': 1, 'SHA': 2, 'SHA256': 3, 'SHA384': 4}
PRF = {'DEFAULT': 0, 'SHA256': 1, 'SHA384': 2}
HASHLEN = {'MD5': 16, 'SHA': 20, 'SHA256': 32, 'SHA384': 48}

KX_TOKENS = {
    'RSA': ('RSA', 'RSA'), 'DH_DSS': ('DH', 'DSS'), 'DH_RSA': ('DH', 'RSA'),
    'DHE_DSS': ('DHE', 'DSS'), 'DHE_RSA': ('DHE', 'RSA'), 'DH_anon': ('DHE', 'anon'),
    'ECDH_ECDSA': ('ECDH', 'ECDSA'), 'ECDH_RSA': ('ECDH', 'RSA'),
    'ECDHE_ECDSA': ('ECDHE', 'ECDSA'), 'ECDHE_RSA': ('ECDHE', 'RSA'), 'ECDH_anon': ('ECDHE', 'anon'),
    'SRP_SHA': ('SRP', 'SRP'), 'SRP_SHA_RSA': ('SRP', 'RSA'), 'SRP_SHA_DSS': ('SRP', 'DSS'),
}
# cipher part -> (cipher, key bytes, kind, block bytes, tag bytes, fixed (implicit) IV bytes in TLS<=1.2)
CIPHER_TOKENS = {
    'NULL': ('NULL', 0, 'stream', 0, 0, 0),
    'RC4_128': ('RC4', 16, 'stream', 0, 0, 0),
    '3DES_EDE_CBC': ('3DES', 24, 'cbc', 8, 0, 8),
    'AES_128_CBC': ('AES_CBC', 16, 'cbc', 16, 0, 16),
    'AES_256_CBC': ('AES_CBC', 32, 'cbc', 16, 0, 16),
    'AES_128_GCM': ('AES_GCM', 16, 'aead', 0, 16, 4),
    'AES_256_GCM': ('AES_GCM', 32, 'aead', 0, 16, 4),
    'AES_128_CCM': ('AES_CCM', 16, 'aead', 0, 16, 4),
    'AES_256_CCM': ('AES_CCM', 32, 'aead', 0, 16, 4),
    'AES_128_CCM_8': ('AES_CCM_8', 16, 'aead', 0, 8, 4),
    'AES_256_CCM_8': ('AES_CCM_8', 32, 'aead', 0, 8, 4),
    'CHACHA20_POLY1305': ('CHACHA20', 32, 'aead', 0, 16, 12),
}


def name_of(sid):
    return REGISTRY.get(sid, UNREGISTERED.get(sid))


def parse_name(name):
    """-> dict(kx, auth, cipher, keylen, kind, block, tag, fixed_iv, mac, maclen, prf, minv, maxv, draft) or None"""
    if name is None or not name.startswith('TLS_') or name.endswith('_SCSV'):
        return None
    rest = name[4:]
    if '_WITH_' in rest:
        kxs, cs = rest.split('_WITH_', 1)
        if kxs not in KX_TOKENS:
            return None
        kx, auth = KX_TOKENS[kxs]
        tls13 = False
    else:
        kx, auth, cs, tls13 = 'TLS13', 'TLS13', rest, True
    toks = cs.split('_')
    draft = False
    h = None
    if len(toks) >= 2 and toks[-2:] == ['draft', '00']:
        draft = True
        toks = toks[:-2]
    elif toks[-1] in HASHLEN:
        h = toks[-1]
        toks = toks[:-1]
    ct = '_'.join(toks)
    if ct not in CIPHER_TOKENS:
        return None
    cipher, keylen, kind, block, tag, fixed_iv = CIPHER_TOKENS[ct]
    if kind == 'aead':
        if h in ('MD5', 'SHA'):
            return None
        if tls13 and h is None:
            return None
        mac, maclen = 'AEAD', 0
        prf = h or 'SHA256'
        minv = (3, 4) if tls13 else (3, 3)
    else:
        if h is None or tls13:
            return None
        mac, maclen = h, HASHLEN[h]
        prf = h if h in ('SHA256', 'SHA384') else 'DEFAULT'
        minv = (3, 3) if h in ('SHA256', 'SHA384') else (3, 0)
    maxv = (3, 4) if tls13 else (3, 3)
    return dict(kx=kx, auth=auth, cipher=cipher, keylen=keylen, kind=kind, block=block, tag=tag,
                fixed_iv=fixed_iv, mac=mac, maclen=maclen, prf=prf, minv=minv, maxv=maxv, draft=draft)


def meaning(sid):
    return parse_name(name_of(sid))


# ---- the vocabulary of the library's accessors / settings (documented in HandshakeSettings) ----
def lib_cipher_name(m):
    c, k = m['cipher'], m['keylen']
    if c == 'NULL':
        return 'null'
    if c == 'RC4':
        return 'rc4'
    if c == '3DES':
        return '3des'
    if c == 'AES_CBC':
        return 'aes%d' % (k * 8)
    if c == 'AES_GCM':
        return 'aes%dgcm' % (k * 8)
    if c == 'AES_CCM':
        return 'aes%dccm' % (k * 8)
    if c == 'AES_CCM_8':
        return 'aes%dccm_8' % (k * 8)
    if c == 'CHACHA20':
        return 'chacha20-poly1305_draft00' if m['draft'] else 'chacha20-poly1305'


def lib_mac_name(m):
    """None for AEAD suites (there is no HMAC); 'aead' is also accepted by mac_name_agrees."""
    return {'AEAD': None, 'MD5': 'md5', 'SHA': 'sha', 'SHA256': 'sha256', 'SHA384': 'sha384'}[m['mac']]


def mac_name_agrees(m, reported):
    if m['mac'] == 'AEAD':
        return reported in (None, 'aead')
    return reported == lib_mac_name(m)


def lib_kx_name(m):
    """the keyExchangeNames word of HandshakeSettings; None where the library has no word (static (EC)DH, SRP_DSS)"""
    return {('RSA', 'RSA'): 'rsa', ('DHE', 'RSA'): 'dhe_rsa', ('DHE', 'DSS'): 'dhe_dsa', ('DHE', 'anon'): 'dh_anon',
            ('ECDHE', 'RSA'): 'ecdhe_rsa', ('ECDHE', 'ECDSA'): 'ecdhe_ecdsa', ('ECDHE', 'anon'): 'ecdh_anon',
            ('SRP', 'SRP'): 'srp_sha', ('SRP', 'RSA'): 'srp_sha_rsa'}.get((m['kx'], m['auth']))


def prf_at(m, ver):
    """hash of the PRF / key schedule really in force at version ver: 'ssl3' | 'md5sha1' | 'sha256' | 'sha384'"""
    ver = tuple(ver)
    if ver == (3, 0):
        return 'ssl3'
    if ver in ((3, 1), (3, 2)):
        return 'md5sha1'
    return 'sha384' if m['prf'] == 'SHA384' else 'sha256'


def defined_in(m, ver):
    ver = tuple(ver)
    return m['minv'] <= ver <= m['maxv'] and (ver == (3, 4)) == (m['kx'] == 'TLS13')


def fixed_iv_at(m, ver):
    """bytes of IV material taken from the key block / key schedule"""
    if tuple(ver) == (3, 4):
        return 12
    return m['fixed_iv']


if __name__ == '__main__':
    for sid in sorted(list(REGISTRY) + list(UNREGISTERED)):
        print('%04X' % sid, name_of(sid), meaning(sid))
