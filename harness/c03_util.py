"""C03 helpers: configuration cases (JSON-able dicts), live run on loop.Pair, Gallina literals,
and the direct property oracle (written from the property text, independent of the model)."""
import os
import random
import sys

import vlib
from vlib import zlit, listlit, optlit, boollit

sys.path.insert(0, os.path.join(vlib.ROOT, 'translator'))

_T = None


def tables():
    global _T
    if _T is None:
        import units_c03
        _T = units_c03.codes()
    return _T


# ---- credentials -------------------------------------------------------------------------------
# name -> (cert file, key file, alg code, curve group id)
CERTS = [
    ('rsa', 'serverX509Cert.pem', 'serverX509Key.pem', 0, 0),
    ('rsapss', 'serverRSAPSSCert.pem', 'serverRSAPSSKey.pem', 1, 0),
    ('ecdsa', 'serverECCert.pem', 'serverECKey.pem', 2, 23),
    ('ecdsa384', 'serverP384ECCert.pem', 'serverP384ECKey.pem', 2, 24),
    ('ecdsa521', 'serverP521ECCert.pem', 'serverP521ECKey.pem', 2, 25),
    ('ed25519', 'serverEd25519Cert.pem', 'serverEd25519Key.pem', 3, 0),
    ('ed448', 'serverEd448Cert.pem', 'serverEd448Key.pem', 4, 0),
    ('dsa', 'serverDSACert.pem', 'serverDSAKey.pem', 5, 0),
    ('client-rsa', 'clientX509Cert.pem', 'clientX509Key.pem', 0, 0),
    ('client-ecdsa', 'clientECCert.pem', 'clientECKey.pem', 2, 23),
    ('client-ed25519', 'clientEd25519Cert.pem', 'clientEd25519Key.pem', 3, 0),
    ('client-dsa', 'clientDSACert.pem', 'clientDSAKey.pem', 5, 0),
    ('bp256', 'serverBrainpoolP256r1ECCert.pem', 'serverBrainpoolP256r1ECKey.pem', 2, 26),
]
CERT_IDX = {c[0]: i for i, c in enumerate(CERTS)}
SERVER_CERTS = ['rsa', 'rsapss', 'ecdsa', 'ecdsa384', 'ecdsa521', 'ed25519', 'ed448', 'dsa', 'bp256']
CLIENT_CERTS = ['client-rsa', 'client-ecdsa', 'client-ed25519', 'client-dsa', 'rsa', 'rsapss']
_CRED = {}
_DER = {}


def cred(name):
    import loop
    if name not in _CRED:
        _, cf, kf, _, _ = CERTS[CERT_IDX[name]]
        _CRED[name] = (loop.load_chain(cf), loop.load_key(kf))
    return _CRED[name]


def cert_info(name):
    """(alg code, bits, curve id, cert id, small_key)"""
    chain, key = cred(name)
    pub = chain.getEndEntityPublicKey()
    _, _, _, alg, curve = CERTS[CERT_IDX[name]]
    small = alg in (0, 1) and pub.n < 2 ** 2047
    return alg, len(pub), curve, CERT_IDX[name], small


def chain_id(chain):
    """identify a chain object seen on an endpoint by its DER bytes"""
    if chain is None:
        return None
    if not _DER:
        for n in CERT_IDX:
            c, _ = cred(n)
            _DER[bytes(c.x509List[0].bytes)] = CERT_IDX[n]
    if chain.getNumCerts() == 0:
        return None
    return _DER.get(bytes(chain.x509List[0].bytes), -1)


_VDB = {}
SRP_USERS = {0: 1024, 1: 1536, 2: 2048}


def verifier_db(users):
    from tlslite.api import VerifierDB
    key = tuple(sorted(users))
    if key not in _VDB:
        db = VerifierDB()
        db.create()
        for u in key:
            db[b'user%d' % u] = VerifierDB.makeVerifier(b'user%d' % u, b'password', SRP_USERS[u])
        _VDB[key] = db
    return _VDB[key]


# ---- settings <-> dict --------------------------------------------------------------------------
SET_LISTS = ['cipherNames', 'macNames', 'keyExchangeNames', 'eccCurves', 'dhGroups', 'keyShares',
             'rsaSigHashes', 'rsaSchemes', 'ecdsaSigHashes', 'dsaSigHashes', 'more_sig_schemes']
SET_SCALARS = ['minKeySize', 'maxKeySize', 'useEncryptThenMAC', 'useExtendedMasterSecret',
               'requireExtendedMasterSecret', 'record_size_limit', 'defaultCurve', 'use_heartbeat_extension']


def default_settings_dict():
    from tlslite.api import HandshakeSettings
    s = HandshakeSettings()
    d = {k: list(getattr(s, k)) for k in SET_LISTS}
    d.update({k: getattr(s, k) for k in SET_SCALARS})
    d['minVersion'] = list(s.minVersion)
    d['maxVersion'] = list(s.maxVersion)
    d['versions'] = [list(v) for v in s.versions]
    d['psks'] = []          # [(identity id, hash or None)]
    d['psk_modes'] = list(s.psk_modes)
    d['ticket_keys'] = False
    return d


def mk_settings(d):
    from tlslite.api import HandshakeSettings
    s = HandshakeSettings()
    for k in SET_LISTS:
        setattr(s, k, list(d[k]))
    for k in SET_SCALARS:
        setattr(s, k, d[k])
    s.minVersion = tuple(d['minVersion'])
    s.maxVersion = tuple(d['maxVersion'])
    s.versions = [tuple(v) for v in d['versions']]
    s.pskConfigs = [((b'psk-id-%d' % i, b'\x11' * 32 + bytes([i])) + ((h,) if h else ())) for i, h in d['psks']]
    s.psk_modes = list(d['psk_modes'])
    if d.get('ticket_keys'):
        s.ticketKeys = [bytearray(b'\x2a' * 32)]
    return s


def settings_lit(d, validated):
    """Gallina Settings literal from the *validated* HandshakeSettings object (what the code uses)."""
    import units_c03
    return units_c03.settings_record(tables(), validated, d['psks'])


def cert_lit(name):
    if name is None:
        return 'None'
    alg, bits, curve, cid, small = cert_info(name)
    return '(Some {| ct_alg := %d; ct_bits := %d; ct_curve := %d; ct_id := %d; ct_small_key := %s |})' % (
        alg, bits, curve, cid, boollit(small))


FLAVOUR = {'cert': 0, 'srp': 1, 'anon': 2}


def case_lits(case, cval, sval, hello2_len=0, nst_len=0):
    c, s = case['client'], case['server']
    cl = ('{| cl_set := %s; cl_flavour := %d; cl_cert := %s; cl_alpn := %s; cl_npn := %s; cl_sni := %s; '
          'cl_srp_user := %d; cl_fallback := false; cl_ticket := %s; cl_hello2_len := %d |}' % (
              settings_lit(c['settings'], cval), FLAVOUR[c['flavour']], cert_lit(c.get('cert')),
              optlit(c.get('alpn'), lambda l: listlit(l, zlit)), optlit(c.get('npn'), lambda l: listlit(l, zlit)),
              optlit(c.get('sni'), zlit), c.get('srp_user', 0), optlit(c.get('ticket_prf'), zlit), hello2_len))
    sv = ('{| sv_set := %s; sv_cert := %s; sv_srp := %s; sv_anon := %s; sv_req_cert := %s; sv_alpn := %s; '
          'sv_npn := %s; sv_nst_len := %d; sv_ticket := %s |}' % (
              settings_lit(s['settings'], sval), cert_lit(s.get('cert')),
              optlit(s.get('srp'), lambda us: '[' + ';'.join('(%d,%d)' % (u, SRP_USERS[u]) for u in us) + ']'),
              boollit(bool(s.get('anon'))), boollit(bool(s.get('req_cert'))),
              optlit(s.get('alpn'), lambda l: listlit(l, zlit)), optlit(s.get('npn'), lambda l: listlit(l, zlit)),
              nst_len, optlit(s.get('ticket_prf'), zlit)))
    return cl, sv


# ---- live run -----------------------------------------------------------------------------------
# Value tables for the opaque ids of the model.  Ids 0..3 are plain names; the higher ids sweep the value space
# of the field (the model treats the values as opaque, the oracle compares the raw values seen on both ends).
PROTOS = {4: b'h', 5: b'\x00\xff\x80 \n', 6: b'p' * 255, 7: b'http/1.1', 8: b'H2', 9: b'h2'}
HOSTS = {3: 'server.example.com.',            # trailing dot (valid per is_valid_hostname)
         4: 'SERVER.Example.COM',              # upper / mixed case
         5: 'a',                               # one character
         6: 'a.',
         7: 'xn--bcher-kva.example',           # punycode
         8: '1.2.3.4a',                        # numeric looking
         9: 'x' * 63 + '.example',             # maximum label
         10: ('x' * 63 + '.') * 3 + 'y' * 61,  # maximum name (253)
         11: 'localhost'}


def proto(i):
    return bytearray(PROTOS.get(i, b'proto-%d' % i))


def host(i):
    return HOSTS.get(i, 'host%d.example.org' % i)


def validate_pair(case):
    """Returns (client validated settings, server validated settings) or raises ValueError."""
    return mk_settings(case['client']['settings']).validate(), mk_settings(case['server']['settings']).validate()


def run_live(case, seed=0, want_secrets=True):
    """Runs the handshake on real endpoints.  Returns a JSON-able observation dict."""
    import loop
    rnd = loop.DetRandom(seed).install()
    try:
        return _run_live(case, want_secrets)
    finally:
        rnd.uninstall()


def _side(conn, ok):
    o = {'version': list(conn.version)}
    if not ok or conn.session is None:
        return o
    se = conn.session
    o.update(suite=se.cipherSuite, etm=bool(se.encryptThenMAC), ems=bool(se.extendedMasterSecret),
             alpn=bytes(se.appProto).hex() if se.appProto else None,
             npn=bytes(conn.next_proto).hex() if conn.next_proto else None,
             sni=se.serverName or None,
             send=conn._send_record_limit, recv=conn._recv_record_limit,
             schain=chain_id(se.serverCertChain), cchain=chain_id(se.clientCertChain),
             curve=conn.ecdhCurve, dh_bits=conn.dhGroupSize,
             sig=list(conn.serverSigAlg) if conn.serverSigAlg else None,
             ms=bytes(se.masterSecret).hex() if se.masterSecret else None,
             cl_app=bytes(se.cl_app_secret).hex() if se.cl_app_secret else None,
             sr_app=bytes(se.sr_app_secret).hex() if se.sr_app_secret else None,
             exp_ms=bytes(se.exporterMasterSecret).hex() if se.exporterMasterSecret else None,
             res_ms=bytes(se.resumptionMasterSecret).hex() if se.resumptionMasterSecret else None,
             etm_rl=bool(conn._recordLayer.encryptThenMAC),
             ems_conn=bool(conn.extendedMasterSecret), srp_user=se.srpUsername or None)
    try:
        o['exporter'] = bytes(conn.keyingMaterialExporter(bytearray(b'EXPERIMENTAL label'), 32)).hex()
    except Exception as e:  # noqa
        o['exporter'] = 'exc:' + type(e).__name__
    return o


def _connect(c, s, session=None, shared=None):
    """One connection between the client description c and the server description s (dicts as in a case).
    shared: dict kept between the connections of one history (server session cache)."""
    import loop
    p = loop.Pair()
    ckw = {'settings': mk_settings(c['settings'])}
    kind = c['flavour']
    if kind == 'cert' and c.get('cert'):
        ch, k = cred(c['cert'])
        ckw.update(certChain=ch, privateKey=k)
    if kind == 'srp':
        ckw.update(username=bytearray(b'user%d' % c.get('srp_user', 0)), password=bytearray(b'password'))
    if c.get('alpn') is not None and kind == 'cert':
        ckw['alpn'] = [proto(i) for i in c['alpn']]
    if c.get('npn') is not None and kind == 'cert':
        ckw['nextProtos'] = [proto(i) for i in c['npn']]
    if c.get('sni') is not None:
        ckw['serverName'] = host(c['sni'])
    if session is not None:
        ckw['session'] = session
    skw = {'settings': mk_settings(s['settings'])}
    if s.get('cert'):
        ch, k = cred(s['cert'])
        skw.update(certChain=ch, privateKey=k)
    if s.get('srp') is not None:
        skw['verifierDB'] = verifier_db(s['srp'])
    if s.get('anon'):
        skw['anon'] = True
    if s.get('req_cert'):
        skw['reqCert'] = True
    if s.get('alpn') is not None:
        skw['alpn'] = [proto(i) for i in s['alpn']]
    if s.get('npn') is not None:
        skw['nextProtos'] = [proto(i) for i in s['npn']]
    if shared is not None and shared.get('cache') is not None:
        skw['sessionCache'] = shared['cache']
    try:
        co, so = p.handshake(client_kw=ckw, server_kw=skw, client_kind=kind)
    except ValueError as e:
        return {'config_error': str(e)[:200]}, p
    cc, sc = loop.classify(co), loop.classify(so)
    obs = {'client_outcome': list(cc), 'server_outcome': list(sc), 'hello2_len': hello2_len(p.csock),
           'nst_len': nst_len(p.ssock),
           'hello_sent': bool(p.csock.sent_log),
           'client': _side(p.client, cc == ('ok',)), 'server': _side(p.server, sc == ('ok',))}
    if cc == ('ok',) and sc == ('ok',):
        obs['client']['resumed'] = bool(p.client.resumed)
        obs['server']['resumed'] = bool(p.server.resumed)
        # data both ways proves the record protection parameters (and record size limits) are really shared
        for src, dst, tag in ((p.client, p.server, 'c2s'), (p.server, p.client, 's2c')):
            msg = (b'C03 ' + tag.encode() + b' ') * 750          # 6000 bytes: several records under a small limit
            try:
                w, r, got = p.transfer(src, dst, msg)
                obs['data_' + tag] = (got == msg)
            except Exception as e:  # noqa
                obs['data_' + tag] = False
    return obs, p


def second_side(side, over):
    """description of a side for the second connection of a history: same credentials, settings overridden"""
    d = dict(side)
    d['settings'] = dict(side['settings'])
    d['settings'].update(over.get('settings', {}))
    for k in ('alpn',):
        if k in over:
            d[k] = over[k]
    return d


def _run_live(case, want_secrets):
    res = case.get('resume')
    shared = None
    if res:
        from tlslite.api import SessionCache
        shared = {'cache': SessionCache() if res['kind'] == 'id' else None}
    obs, p = _connect(case['client'], case['server'], shared=shared)
    if 'config_error' in obs:
        return obs
    if res and obs['client_outcome'] == ['ok'] and obs['server_outcome'] == ['ok']:
        c2 = second_side(case['client'], res.get('c2', {}))
        s2 = second_side(case['server'], res.get('s2', {}))
        try:
            mk_settings(c2['settings']).validate()
            mk_settings(s2['settings']).validate()
        except ValueError as e:
            obs['second'] = {'config_error': str(e)[:200]}
            return obs
        o2, _ = _connect(c2, s2, session=p.client.session, shared=shared)
        obs['second'] = o2
    return obs


def nst_len(sock):
    """length of the plaintext NewSessionTicket record (handshake type 4) the server sent before its first
    ChangeCipherSpec, 0 if there is none"""
    data = b''.join(sock.sent_log)
    i = 0
    while i + 5 <= len(data):
        ty, ln = data[i], (data[i + 3] << 8) | data[i + 4]
        if ty == 20:
            return 0
        if ty == 22 and data[i + 5:i + 6] == b'\x04':
            return ln
        if ty == 22:
            # several handshake messages may share one record: walk them
            j, end = i + 5, i + 5 + ln
            while j + 4 <= end:
                mlen = int.from_bytes(data[j + 1:j + 4], 'big')
                if data[j] == 4:
                    return ln
                j += 4 + mlen
        i += 5 + ln
    return 0


def hello2_len(sock):
    """length of the second plaintext handshake record the client sent, if it is a ClientHello"""
    data = b''.join(sock.sent_log)
    recs, i = [], 0
    while i + 5 <= len(data) and len(recs) < 4:
        ty, ln = data[i], (data[i + 3] << 8) | data[i + 4]
        recs.append((ty, ln, data[i + 5:i + 6]))
        i += 5 + ln
    hs = [r for r in recs if r[0] == 22]
    if len(hs) >= 2 and hs[1][2] == b'\x01':
        return hs[1][1]
    return 0


# ---- observation -> (code, zs, os) used for the comparison with the model ------------------------
def outcome_code(obs):
    cc, sc = obs['client_outcome'], obs['server_outcome']
    if cc == ['ok'] and sc == ['ok']:
        return 0
    if cc[0] == 'LocalAlert':
        return 1000 + cc[1]
    if sc[0] == 'LocalAlert':
        return 2000 + sc[1]
    if cc[0] == 'Other' and cc[1] == 'ValueError':
        return 1800             # configuration refused before anything was sent (documented behaviour)
    if cc[0] in ('Other', 'TLSError', 'AuthError'):
        return 1900
    if sc[0] in ('Other', 'TLSError', 'AuthError'):
        return 2900
    return 9999


def proto_id(hexs):
    if hexs is None:
        return None
    raw = bytes.fromhex(hexs)
    for i, v in PROTOS.items():
        if v == raw:
            return i
    try:
        if raw.startswith(b'proto-'):
            return int(raw.split(b'-')[-1])
    except ValueError:
        pass
    return 100000 + (sum(raw) % 1000)        # a value that is in no table: never equals a model id


def sni_id(name):
    if not name:
        return None
    for i, v in HOSTS.items():
        if v == name:
            return i
    try:
        if name.startswith('host') and name.endswith('.example.org'):
            return int(name.split('.')[0][4:])
    except ValueError:
        pass
    return 100000 + (sum(name.encode('utf-8', 'replace')) % 1000)


def obs_tuple(obs):
    code = outcome_code(obs)
    if code != 0:
        return code, [], []
    c, s = obs['client'], obs['server']
    zs = [c['version'][1], s['version'][1], c['suite'], s['suite'], int(c['etm']), int(s['etm']),
          int(c['ems']), int(s['ems']), c['send'], c['recv'], s['send'], s['recv']]
    sig = c['sig'][0] * 256 + c['sig'][1] if c['sig'] else None
    os_ = [proto_id(c['alpn']), proto_id(s['alpn']), proto_id(c['npn']), proto_id(s['npn']),
           sni_id(c['sni']), sni_id(s['sni']), c['schain'], s['schain'], c['cchain'], s['cchain'],
           c['curve'], c['dh_bits'], sig]
    return code, zs, os_


def obs2_lit(o2):
    code = outcome_code(o2)
    if code != 0:
        return '(%d, [], [])' % code
    c, s = o2['client'], o2['server']
    zs = [int(bool(c.get('resumed'))), c['version'][1], s['version'][1], c['suite'], s['suite'], int(c['etm']), int(s['etm']),
          int(c['ems']), int(s['ems']), c['send'], c['recv'], s['send'], s['recv']]
    os_ = [proto_id(c['alpn']), proto_id(s['alpn']), sni_id(c['sni']), sni_id(s['sni'])]
    return '(%d, %s, %s)' % (code, listlit(zs, zlit), listlit(os_, lambda x: optlit(x, zlit)))


def history_lit(case, obs, cval, sval):
    """Gallina Case2T literal for the second (resumed) connection of a history, or None"""
    o2 = obs.get('second')
    if not o2 or 'config_error' in o2 or outcome_code(obs) != 0:
        return None
    from tlslite.constants import CipherSuite
    res = case['resume']
    c2 = second_side(case['client'], res.get('c2', {}))
    s2 = second_side(case['server'], res.get('s2', {}))
    legacy = obs['client']['version'][1] <= 3
    if not legacy and res['kind'] == 'ticket' and case['server']['settings'].get('ticket_keys'):
        prf = 1 if obs['client']['suite'] in CipherSuite.sha384PrfSuites else 0
        c2['ticket_prf'] = prf
        if s2['settings'].get('ticket_keys'):
            s2['ticket_prf'] = prf
    c2v = mk_settings(c2['settings']).validate()
    s2v = mk_settings(s2['settings']).validate()
    cl, sv = case_lits(case, cval, sval, obs.get('hello2_len', 0), obs.get('nst_len', 0))
    cl2, sv2 = case_lits({'client': c2, 'server': s2}, c2v, s2v, o2.get('hello2_len', 0), o2.get('nst_len', 0))
    return '(%s, %s, %s, %s, %s, %s, %s)' % (cl, sv, cl2, sv2, boollit(legacy), boollit(res['kind'] == 'ticket'), obs2_lit(o2))


def obs_lit(obs):
    code, zs, os_ = obs_tuple(obs)
    return '(%d, %s, %s)' % (code, listlit(zs, zlit), listlit(os_, lambda x: optlit(x, zlit)))


PREAMBLE = '''
Definition ObsT := (Z * list Z * list (option Z))%type.
Definition b2z (b : bool) : Z := if b then 1 else 0.
Definition summary (r : res Outcome) : ObsT :=
  match r with
  | Err (OtherExn c) => (c, [], [])
  | Err _ => (9998, [], [])
  | Ok o =>
      let c := oc_client o in let s := oc_server o in
      (0, [vw_version c; vw_version s; vw_suite c; vw_suite s; b2z (vw_etm c); b2z (vw_etm s);
           b2z (vw_ems c); b2z (vw_ems s); vw_send_limit c; vw_recv_limit c; vw_send_limit s; vw_recv_limit s],
          [vw_alpn c; vw_alpn s; vw_npn c; vw_npn s; vw_sni c; vw_sni s;
           vw_server_chain c; vw_server_chain s; vw_client_chain c; vw_client_chain s;
           (if si_kex (vw_secret c) =? 1 then None else si_group (vw_secret c)); si_dh_bits (vw_secret c); vw_sig c])
  end.
Definition optz_eqb (a b : option Z) : bool :=
  match a, b with Some x, Some y => x =? y | None, None => true | _, _ => false end.
Fixpoint olist_eqb (a b : list (option Z)) : bool :=
  match a, b with
  | [], [] => true
  | x :: a', y :: b' => optz_eqb x y && olist_eqb a' b'
  | _, _ => false end.
Definition obs_eqb (a b : ObsT) : bool :=
  let '(c1, z1, o1) := a in let '(c2, z2, o2) := b in
  (c1 =? c2) && list_eqb z1 z2 && olist_eqb o1 o2.
Definition summary2 (r : res Resumed) : ObsT :=
  match r with
  | Err (OtherExn c) => (c, [], [])
  | Err _ => (9998, [], [])
  | Ok x =>
      let c := rs_client x in let s := rs_server x in
      (0, [b2z (rs_resumed x); vw_version c; vw_version s; vw_suite c; vw_suite s; b2z (vw_etm c); b2z (vw_etm s);
           b2z (vw_ems c); b2z (vw_ems s); vw_send_limit c; vw_recv_limit c; vw_send_limit s; vw_recv_limit s],
          [vw_alpn c; vw_alpn s; vw_sni c; vw_sni s])
  end.
(* TLS 1.3: the second connection is `negotiate` with the ticket offered as PSK identity 999 *)
Definition of_outcome (r : res Outcome) : res Resumed :=
  match r with
  | Ok o => Ok {| rs_resumed := match si_psk (vw_secret (oc_client o)) with Some i => i =? ticket_identity | None => false end;
                  rs_client := oc_client o; rs_server := oc_server o |}
  | Err e => Err e end.
Definition Case2T := (Client * Server * Client * Server * bool * bool * ObsT)%type.
Definition chk_model2 (k : Case2T) : bool :=
  let '(c, s, c2, s2, legacy, ticket, o) := k in
  obs_eqb (summary2 (if legacy
                     then match negotiate c s with
                          | Ok o1 => resume_legacy ticket c2 s2 (oc_client o1) (oc_server o1)
                          | Err e => Err e end
                     else of_outcome (negotiate c2 s2))) o.
Definition CaseT := (Client * Server * ObsT)%type.
Definition chk_model (k : CaseT) : bool := let '(c, s, o) := k in obs_eqb (summary (negotiate c s)) o.
'''


# ---- independent reading of a suite's meaning (from its registered name) -------------------------
def suite_meaning(suite):
    """(kx settings name or None for TLS 1.3, cipher settings name, mac settings name) parsed from the
    IANA registry row (harness/c03_iana.py, a static table) -- not from any table of the library."""
    from c03_iana import IANA
    name = IANA[suite].replace('_anon_', '_ANON_')
    if '_WITH_' in name:
        kx, rest = name[4:].split('_WITH_')
    else:
        kx, rest = None, name[4:]
    kxmap = {'RSA': 'rsa', 'DHE_RSA': 'dhe_rsa', 'ECDHE_RSA': 'ecdhe_rsa', 'ECDHE_ECDSA': 'ecdhe_ecdsa',
             'DHE_DSS': 'dhe_dsa', 'SRP_SHA': 'srp_sha', 'SRP_SHA_RSA': 'srp_sha_rsa', 'DH_ANON': 'dh_anon',
             'ECDH_ANON': 'ecdh_anon', 'DH_anon': 'dh_anon', 'ECDH_anon': 'ecdh_anon'}
    kxn = kxmap[kx] if kx is not None else None
    ciphers = [('CHACHA20_POLY1305_draft_00', 'chacha20-poly1305_draft00'), ('CHACHA20_POLY1305', 'chacha20-poly1305'),
               ('AES_128_GCM', 'aes128gcm'), ('AES_256_GCM', 'aes256gcm'), ('AES_128_CCM_8', 'aes128ccm_8'),
               ('AES_256_CCM_8', 'aes256ccm_8'), ('AES_128_CCM', 'aes128ccm'), ('AES_256_CCM', 'aes256ccm'),
               ('AES_128_CBC', 'aes128'), ('AES_256_CBC', 'aes256'), ('3DES_EDE_CBC', '3des'), ('RC4_128', 'rc4'),
               ('NULL', 'null')]
    cn = next(v for k, v in ciphers if rest.startswith(k))
    if 'GCM' in rest or 'CCM' in rest or 'CHACHA20' in rest:
        mac = 'aead'
    elif rest.endswith('_SHA256'):
        mac = 'sha256'
    elif rest.endswith('_SHA384'):
        mac = 'sha384'
    elif rest.endswith('_SHA'):
        mac = 'sha'
    elif rest.endswith('_MD5'):
        mac = 'md5'
    else:
        raise ValueError(name)
    return kxn, cn, mac


def sig_in_policy(sig, st):
    """is the (hash, signature) pair inside the signature configuration of validated settings st"""
    from tlslite.constants import HashAlgorithm, SignatureAlgorithm, SignatureScheme
    sig = tuple(sig)
    if sig == SignatureScheme.ed25519:
        return 'Ed25519' in st.more_sig_schemes
    if sig == SignatureScheme.ed448:
        return 'Ed448' in st.more_sig_schemes
    name = SignatureScheme.toRepr(sig)
    if name and 'brainpool' in name:
        return name in st.more_sig_schemes
    if sig[0] == 8:     # rsa-pss family: second byte names the hash
        h = {4: 'sha256', 5: 'sha384', 6: 'sha512', 9: 'sha256', 10: 'sha384', 11: 'sha512'}.get(sig[1])
        return h is not None and 'pss' in st.rsaSchemes and h in st.rsaSigHashes
    h = HashAlgorithm.toRepr(sig[0])
    if sig[1] == SignatureAlgorithm.rsa:
        return 'pkcs1' in st.rsaSchemes and h in st.rsaSigHashes
    if sig[1] == SignatureAlgorithm.ecdsa:
        return h in st.ecdsaSigHashes
    if sig[1] == SignatureAlgorithm.dsa:
        return h in st.dsaSigHashes
    return False


def property_oracle(case, obs, cval, sval, resumed=None):
    """The property text evaluated directly on the observation.  Returns a list of
    (stable key, description) for every way the property fails on this run."""
    from tlslite.constants import GroupName
    bad = []
    if resumed:
        # second connection of a history: same property, keys tagged with the resumption mechanism
        inner = property_oracle(case, obs, cval, sval)
        if obs['client_outcome'] == ['ok'] and obs['server_outcome'] == ['ok'] and not obs['client'].get('resumed') \
                and not obs['server'].get('resumed'):
            return inner      # the session was not used: an ordinary full handshake, ordinary keys
        out = []
        for k, what in inner:
            if k.startswith('views-differ:schain') or k.startswith('views-differ:cchain'):
                continue      # the chains of a resumed connection are those of the original session (checked there)
            if k.startswith('views-differ:ems_conn:'):
                k = 'views-differ:ems_conn'          # one class whatever the version
            if k.startswith('views-differ:alpn:'):
                k = 'views-differ:alpn'
            out.append(('%s:resumed-%s' % (k, resumed), 'on the connection resumed by %s: %s' % (resumed, what)))
        c, s = obs['client'], obs['server']
        if obs['client_outcome'] == ['ok'] and obs['server_outcome'] == ['ok'] and c['version'][1] <= 3 \
                and c.get('resumed') != s.get('resumed'):
            out.append(('views-differ:resumed-flag:resumed-%s' % resumed,
                        'client resumed=%r but server resumed=%r' % (c.get('resumed'), s.get('resumed'))))
        return out
    cc, sc = obs['client_outcome'], obs['server_outcome']
    c, s = obs['client'], obs['server']
    both = cc == ['ok'] and sc == ['ok']
    if not both:
        # "otherwise the handshake fails with an alert"
        crashed = False
        for side, o in (('client', cc), ('server', sc)):
            if o[0] == 'Other' and o[1] == 'ValueError' and side == 'client' and obs.get('hello_sent') is False:
                return bad          # the client refused its own settings with ValueError: not a handshake
            if o[0] in ('Other', 'Deadlock', 'TLSError', 'AuthError'):
                crashed = True
                what = ':'.join(str(x) for x in o[1:3])[:48].rstrip()
                bad.append(('crash:%s:%s' % (side, what), '%s ended with %r instead of an alert' % (side, o)))
        if not crashed and not any(k in ('LocalAlert', 'RemoteAlert') for k in (cc[0], sc[0])):
            bad.append(('no-alert:%s/%s' % (cc[0], sc[0]), 'handshake failed without any alert: client %r server %r' % (cc, sc)))
        return bad
    # ---- identical values on both ends
    pairs = [('version', 'version'), ('suite', 'suite'), ('ms', 'ms'), ('cl_app', 'cl_app'), ('sr_app', 'sr_app'),
             ('exp_ms', 'exp_ms'), ('res_ms', 'res_ms'), ('exporter', 'exporter'), ('ems', 'ems'), ('etm', 'etm'),
             ('etm_rl', 'etm_rl'), ('ems_conn', 'ems_conn'), ('alpn', 'alpn'), ('npn', 'npn'), ('sni', 'sni'),
             ('send', 'recv'), ('recv', 'send'), ('schain', 'schain'), ('cchain', 'cchain')]
    v = c['version'][1]
    for a, b in pairs:
        if c[a] != s[b]:
            tag = 'v%d' % v
            if a == 'schain':
                tag = 'dhe_dsa' if suite_meaning(c['suite'])[0] == 'dhe_dsa' else ('psk' if c['schain'] is None else tag)
            if a == 'cchain':
                tag = 'tls13-not-requested' if (v >= 4 and not case['server'].get('req_cert')) else tag
            bad.append(('views-differ:%s:%s' % (a, tag), 'client %s=%r but server %s=%r' % (a, c[a], b, s[b])))
    if v >= 4:
        for a in ('curve', 'sig'):
            if c[a] != s[a]:
                bad.append(('views-differ:%s:v%d' % (a, v), 'client %s=%r but server %s=%r' % (a, c[a], a, s[a])))
    if not (obs.get('data_c2s') and obs.get('data_s2c')):
        bad.append(('data-not-delivered:v%d' % v, 'application data did not arrive intact after the handshake'))
    # ---- every negotiated parameter inside each side's own settings
    ver = tuple(c['version'])
    suite = c['suite']
    kxn, cn, mac = suite_meaning(suite)
    gname = {vv: k for k, vv in vars(GroupName).items() if isinstance(vv, int)}
    for side, st in (('client', cval), ('server', sval)):
        if not (st.minVersion <= ver <= st.maxVersion):
            bad.append(('policy:%s:version-outside-min-max' % side,
                        '%s negotiated %r outside its [minVersion %r, maxVersion %r]' % (side, ver, st.minVersion, st.maxVersion)))
        if cn not in st.cipherNames:
            bad.append(('policy:%s:cipher:%s' % (side, cn), '%s: cipher %s of suite %#x not in cipherNames %r' % (side, cn, suite, st.cipherNames)))
        if mac not in st.macNames:
            bad.append(('policy:%s:mac:%s:suite-%#x' % (side, mac, suite), '%s: MAC class %s of suite %#x not in macNames %r' % (side, mac, suite, st.macNames)))
        if kxn is not None and kxn not in st.keyExchangeNames:
            bad.append(('policy:%s:kx:%s' % (side, kxn), '%s: key exchange %s not in keyExchangeNames %r' % (side, kxn, st.keyExchangeNames)))
        if ver < (3, 3) and mac in ('sha256', 'sha384', 'aead'):
            bad.append(('suite-undefined-for-version:%#x:v%d' % (suite, v), 'suite %#x negotiated in version %r' % (suite, ver)))
        if (ver == (3, 4)) != (kxn is None):
            bad.append(('suite-undefined-for-version:%#x:v%d' % (suite, v), 'suite %#x negotiated in version %r' % (suite, ver)))
        if c['curve'] is not None:
            g = gname.get(c['curve'], str(c['curve']))
            allowed = list(st.eccCurves) + (list(st.dhGroups) if ver == (3, 4) else [])
            if g not in allowed:
                bad.append(('policy:%s:group:%s:v%d' % (side, g, v), '%s: group %s not in eccCurves/dhGroups %r' % (side, g, allowed)))
        if c['sig'] is not None and not sig_in_policy(c['sig'], st):
            bad.append(('policy:%s:sigscheme:%r:v%d' % (side, tuple(c['sig']), v), '%s: signature scheme %r outside its configured schemes' % (side, c['sig'])))
    # a side that requires a protection must not complete without it
    if v <= 3:
        for side, st, view in (('client', cval, c), ('server', sval, s)):
            if st.requireExtendedMasterSecret and not (view['ems'] and view['ems_conn']):
                bad.append(('policy:%s:ems-required:v%d' % (side, v),
                            '%s has requireExtendedMasterSecret=True but the handshake completed in %r without the '
                            'extended master secret (session %r, connection %r)' % (side, ver, view['ems'], view['ems_conn'])))
    # TLS 1.3 PSK key-exchange mode (psk_ke / psk_dhe_ke) inside both sides' psk_modes
    if v >= 4 and c['schain'] is None:        # no server certificate in TLS 1.3: a PSK was selected
        mode = 'psk_ke' if c['curve'] is None else 'psk_dhe_ke'
        for side, st in (('client', cval), ('server', sval)):
            if mode not in st.psk_modes:
                bad.append(('policy:%s:psk-mode:%s' % (side, mode),
                            '%s completed a PSK handshake in mode %s, its psk_modes are %r' % (side, mode, st.psk_modes)))
    # peer key sizes / DH sizes (documented: "SRP, RSA, DSA, or Diffie-Hellman parameters")
    if c['dh_bits'] is not None and not (cval.minKeySize <= c['dh_bits'] <= cval.maxKeySize):
        bad.append(('policy:client:dh-size-outside-key-size', 'client accepted a %d-bit DH group with minKeySize=%d maxKeySize=%d'
                    % (c['dh_bits'], cval.minKeySize, cval.maxKeySize)))
    if c['dh_bits'] is not None:
        rfc = {2048: 'ffdhe2048', 3072: 'ffdhe3072', 4096: 'ffdhe4096', 6144: 'ffdhe6144', 8192: 'ffdhe8192'}
    # peer certificate keys, both directions, every key type of /repo/tests:
    #   rsa / rsa-pss / dsa by size, ECDSA by curve list (TLS <= 1.2; in TLS 1.3 the scheme list governs and
    #   is checked above), EdDSA by more_sig_schemes
    from tlslite.constants import GroupName as _GN
    _gn = {vv: k for k, vv in vars(_GN).items() if isinstance(vv, int)}
    for side, st, cid in (('client', cval, c['schain']), ('server', sval, s['cchain'])):
        if cid is None or cid < 0:
            continue
        name = CERTS[cid][0]
        alg, bits, curve, _, _ = cert_info(name)
        kind = {0: 'rsa', 1: 'rsa-pss', 2: 'ecdsa', 3: 'Ed25519', 4: 'Ed448', 5: 'dsa'}[alg]
        if alg in (0, 1, 5) and not (st.minKeySize <= bits <= st.maxKeySize):
            tag = 'v4' if (side == 'server' and v >= 4) else kind
            key = 'policy:server:peer-key-size:v4' if (side == 'server' and v >= 4 and kind == 'rsa') else \
                  'policy:%s:peer-key-size:%s:v%d' % (side, kind, v)
            bad.append((key, '%s accepted a %d-bit %s peer key with minKeySize=%d maxKeySize=%d in version %r (certificate %s)'
                        % (side, bits, kind, st.minKeySize, st.maxKeySize, ver, name)))
        if alg == 2 and v <= 3 and _gn.get(curve) not in st.eccCurves:
            bad.append(('policy:%s:peer-ec-curve:%s:v%d' % (side, _gn.get(curve), v),
                        '%s accepted an ECDSA peer key on %s, not in its eccCurves %r' % (side, _gn.get(curve), st.eccCurves)))
        if alg in (3, 4) and kind not in st.more_sig_schemes:
            bad.append(('policy:%s:peer-eddsa:%s:v%d' % (side, kind, v),
                        '%s accepted an %s peer key, not in its more_sig_schemes %r' % (side, kind, st.more_sig_schemes)))
    return bad


def history_oracle(case, obs, cval, sval):
    """property_oracle on the first connection and, when the history has one, on the resumed second connection"""
    bad = property_oracle(case, obs, cval, sval)
    o2 = obs.get('second')
    if o2 and 'config_error' not in o2:
        res = case['resume']
        c2 = mk_settings(second_side(case['client'], res.get('c2', {}))['settings']).validate()
        s2 = mk_settings(second_side(case['server'], res.get('s2', {}))['settings']).validate()
        case2 = dict(case, client=second_side(case['client'], res.get('c2', {})), server=second_side(case['server'], res.get('s2', {})))
        bad += property_oracle(case2, o2, c2, s2, resumed=res['kind'])
    return bad


# ---- case generation: the restriction lattice --------------------------------------------------
def sub(rng, xs, nonempty=True, p_keep=0.6):
    out = [x for x in xs if rng.random() < p_keep]
    if nonempty and not out:
        out = [rng.choice(xs)]
    if rng.random() < 0.5:
        rng.shuffle(out)
    return out


def gen_settings(rng, role, heavy=0.5):
    from tlslite import handshakesettings as hs
    d = default_settings_dict()

    def maybe(p=heavy):
        return rng.random() < p
    if maybe(0.7):
        lo, hi = sorted([rng.randrange(0, 5), rng.randrange(0, 5)])
        if maybe(0.5):
            hi = max(hi, 3)
        d['minVersion'], d['maxVersion'] = [3, lo], [3, hi]
        r = rng.random()
        if r < 0.6:
            d['versions'] = [[3, x] for x in range(hi, lo - 1, -1)]
        elif r < 0.8:
            pass                                   # the default list, unrelated to min/max
        else:
            d['versions'] = [[3, x] for x in sub(rng, [4, 3, 2, 1, 0])]
    if maybe():
        d['cipherNames'] = sub(rng, hs.ALL_CIPHER_NAMES)
    if maybe():
        d['macNames'] = sub(rng, hs.ALL_MAC_NAMES)
    if maybe():
        d['keyExchangeNames'] = sub(rng, hs.KEY_EXCHANGE_NAMES, nonempty=False, p_keep=0.7)
    if maybe():
        d['eccCurves'] = sub(rng, hs.CURVE_NAMES, nonempty=False)
    if maybe():
        d['dhGroups'] = sub(rng, ['ffdhe2048', 'ffdhe3072', 'ffdhe4096'], nonempty=False)
    else:
        d['dhGroups'] = ['ffdhe2048', 'ffdhe3072', 'ffdhe4096']        # big groups only cost time
    pool = [g for g in d['eccCurves'] + d['dhGroups'] if g not in ('ffdhe4096',)]
    if maybe(0.6) or any(k not in pool for k in d['keyShares']):
        d['keyShares'] = sub(rng, pool, nonempty=False, p_keep=0.25)[:3] if pool else []
    if maybe(0.4):
        d['rsaSigHashes'] = sub(rng, hs.ALL_RSA_SIGNATURE_HASHES, nonempty=False)
    if maybe(0.3):
        d['rsaSchemes'] = sub(rng, hs.RSA_SCHEMES, nonempty=False)
    if maybe(0.4):
        d['ecdsaSigHashes'] = sub(rng, hs.ECDSA_SIGNATURE_HASHES, nonempty=False)
    if maybe(0.3):
        d['dsaSigHashes'] = sub(rng, hs.DSA_SIGNATURE_HASHES, nonempty=False)
    if maybe(0.3):
        d['more_sig_schemes'] = sub(rng, hs.SIGNATURE_SCHEMES, nonempty=False)
    if maybe(0.4):
        lo = rng.choice([512, 1023, 1024, 1025, 2048, 2049, 3072, 4096])
        hi = rng.choice([x for x in (1024, 2047, 2048, 3072, 4096, 8193, 16384) if x >= lo])
        d['minKeySize'], d['maxKeySize'] = lo, hi
    if maybe(0.4):
        d['useEncryptThenMAC'] = rng.random() < 0.5
    if maybe(0.4):
        d['useExtendedMasterSecret'] = rng.random() < 0.5
        d['requireExtendedMasterSecret'] = d['useExtendedMasterSecret'] and rng.random() < 0.4
    if maybe(0.5):
        d['record_size_limit'] = rng.choice([None, 64, 65, 100, 512, 1000, 2 ** 14 - 1, 2 ** 14, 2 ** 14 + 1])
    if maybe(0.2):
        d['defaultCurve'] = rng.choice(['secp256r1', 'secp384r1', 'x25519'])
    if maybe(0.3):
        d['use_heartbeat_extension'] = rng.random() < 0.5
    return d


def gen_case(rng, idx):
    """One (client configuration, server configuration) pair."""
    heavy = rng.choice([0.0, 0.15, 0.3, 0.5, 0.8])
    c = {'settings': gen_settings(rng, 'client', heavy), 'flavour': 'cert'}
    s = {'settings': gen_settings(rng, 'server', rng.choice([0.0, 0.15, 0.3, 0.5, 0.8]))}
    r = rng.random()
    if r < 0.62:
        s['cert'] = rng.choice(SERVER_CERTS + ['rsa', 'rsa', 'ecdsa'])
        if rng.random() < 0.35:
            c['cert'] = rng.choice(CLIENT_CERTS)
        if rng.random() < 0.4:
            s['req_cert'] = True
    elif r < 0.74:
        c['flavour'] = 'srp'
        c['srp_user'] = rng.choice([0, 0, 1, 2, 3])
        s['srp'] = sorted(set(rng.choice([0, 1, 2]) for _ in range(2)))
        if rng.random() < 0.5:
            s['cert'] = rng.choice(['rsa', 'rsa', 'ecdsa', 'rsapss'])
    elif r < 0.86:
        c['flavour'] = 'anon'
        s['anon'] = True
    else:
        # external PSK (TLS 1.3), with or without a certificate as fall-back
        ids = [(i, rng.choice([None, 'sha256', 'sha384'])) for i in rng.sample(range(4), rng.randrange(1, 3))]
        c['settings']['psks'] = list(ids)
        sids = [x for x in ids if rng.random() < 0.7] + [(7, None)] * (rng.random() < 0.3)
        s['settings']['psks'] = sids
        if rng.random() < 0.3:
            c['settings']['psk_modes'] = rng.choice([['psk_dhe_ke'], ['psk_ke'], ['psk_ke', 'psk_dhe_ke']])
        if rng.random() < 0.3:
            s['settings']['psk_modes'] = rng.choice([['psk_dhe_ke'], ['psk_ke']])
        if rng.random() < 0.6 or not sids:
            s['cert'] = rng.choice(['rsa', 'ecdsa'])
    if rng.random() < 0.35 and c['flavour'] == 'cert':
        c['alpn'] = sub(rng, [0, 1, 2, 3])
    if rng.random() < 0.4:
        s['alpn'] = sub(rng, [0, 1, 2, 3])
    if rng.random() < 0.15 and c['flavour'] == 'cert':
        c['npn'] = sub(rng, [0, 1, 2, 3])
    if rng.random() < 0.2:
        s['npn'] = sub(rng, [0, 1, 2, 3], nonempty=False)
    if rng.random() < 0.4:
        c['sni'] = rng.randrange(3)
    case = {'id': idx, 'client': c, 'server': s}
    if rng.random() < 0.35 and not c['settings']['psks']:
        case['resume'] = gen_resume(rng, case)
    return case


def gen_resume(rng, case):
    """second connection of a history: resumption by session ID (server cache) or by ticket (ticketKeys; in
    TLS 1.3 this is PSK resumption), with a random subset of the dimensions that are renegotiated on every
    connection redrawn on either side"""
    kind = rng.choice(['id', 'ticket', 'ticket'])
    if kind == 'ticket':
        case['server']['settings']['ticket_keys'] = True

    def over(side):
        st = {}
        if rng.random() < 0.4:
            st['record_size_limit'] = rng.choice([None, 64, 512, 1024, 2048, 2 ** 14, 2 ** 14 + 1])
        if rng.random() < 0.4:
            st['use_heartbeat_extension'] = rng.random() < 0.5
        if rng.random() < 0.2:
            st['useEncryptThenMAC'] = rng.random() < 0.5
        if rng.random() < 0.15:
            st['useExtendedMasterSecret'] = rng.random() < 0.5
            st['requireExtendedMasterSecret'] = False
        if rng.random() < 0.15:
            st['psk_modes'] = rng.choice([['psk_dhe_ke'], ['psk_ke'], ['psk_dhe_ke', 'psk_ke']])
        o = {'settings': st}
        if rng.random() < 0.3 and (side == 's' or case['client']['flavour'] == 'cert'):
            o['alpn'] = rng.choice([None, [0], [1, 0], [2]])
        return o
    return {'kind': kind, 'c2': over('c'), 's2': over('s')}


WINDOWS = [(0, 0), (1, 1), (2, 2), (3, 3), (4, 4), (0, 1), (1, 2), (1, 3), (3, 4), (1, 4), (0, 4)]


def boundary_version_cases():
    """Directed pairs: every client version window x every server version window (settings made the way a user
    makes them: minVersion / maxVersion only, `versions` left to validate()).  Disjoint windows must fail with
    an alert, overlapping ones must agree on a version inside BOTH windows."""
    D = default_settings_dict
    out = []
    for (cl, ch) in WINDOWS:
        for (sl, sh) in WINDOWS:
            c = {'settings': dict(D(), minVersion=[3, cl], maxVersion=[3, ch]), 'flavour': 'cert'}
            s = {'settings': dict(D(), minVersion=[3, sl], maxVersion=[3, sh]), 'cert': 'rsa'}
            out.append({'id': 'ver-c%d%d-s%d%d' % (cl, ch, sl, sh), 'client': c, 'server': s})
    return out


def value_sweep_cases():
    """Directed pairs sweeping the value space of the compared fields that the model treats as opaque: server
    name (trailing dot, case, 1 character, punycode, numeric looking, maximum label / name length), ALPN and NPN
    protocol names (1 byte, binary, 255 bytes, case variants), record_size_limit at its boundaries -- per
    protocol version, and on a resumed connection."""
    D = default_settings_dict
    out = []
    vers = {'tls10': {'maxVersion': [3, 1]}, 'tls12': {'maxVersion': [3, 3]}, 'tls13': {}}
    for vname, vmod in vers.items():
        for h in sorted(HOSTS):
            c = {'settings': dict(D(), **vmod), 'flavour': 'cert', 'sni': h}
            s = {'settings': D(), 'cert': 'rsa'}
            out.append({'id': 'sni-%s-%d' % (vname, h), 'client': c, 'server': s})
        for pr in sorted(PROTOS):
            c = {'settings': dict(D(), **vmod), 'flavour': 'cert', 'alpn': [pr, 0]}
            s = {'settings': D(), 'cert': 'ecdsa', 'alpn': [1, pr]}
            out.append({'id': 'alpn-%s-%d' % (vname, pr), 'client': c, 'server': s})
            if vname != 'tls13':
                c = {'settings': dict(D(), **vmod), 'flavour': 'cert', 'npn': [pr, 0]}
                s = {'settings': D(), 'cert': 'rsa', 'npn': [1, pr]}
                out.append({'id': 'npn-%s-%d' % (vname, pr), 'client': c, 'server': s})
        for (rc, rs) in ((64, 2 ** 14 + 1), (65, 64), (2 ** 14, 2 ** 14 - 1), (2 ** 14 + 1, 2 ** 14), (None, 64), (16383, None)):
            c = {'settings': dict(D(), record_size_limit=rc, **vmod), 'flavour': 'cert'}
            s = {'settings': dict(D(), record_size_limit=rs), 'cert': 'rsa'}
            out.append({'id': 'rsl-%s-%s-%s' % (vname, rc, rs), 'client': c, 'server': s})
    # the same server names on a resumed connection (the stored session carries the name)
    for h in (3, 4, 6, 9):
        for kind in ('id', 'ticket'):
            c = {'settings': dict(D(), maxVersion=[3, 3]), 'flavour': 'cert', 'sni': h}
            s = {'settings': dict(D(), ticket_keys=kind == 'ticket'), 'cert': 'rsa'}
            out.append({'id': 'sni-resumed-%s-%d' % (kind, h), 'client': c, 'server': s,
                        'resume': {'kind': kind, 'c2': {}, 's2': {}}})
    return out


def boundary_key_cases():
    """Directed pairs: for every sized key type of /repo/tests (rsa, rsa-pss, dsa), as the server's certificate
    checked by the client and as the client's certificate checked by the server, in TLS 1.2 and TLS 1.3: the
    checking side's minKeySize just above / maxKeySize just below / both exactly at the real key size.  ECDSA
    by curve list, EdDSA by more_sig_schemes."""
    D = default_settings_dict
    out = []

    def add(tag, cmod, smod, **kw):
        c = {'settings': D(), 'flavour': 'cert'}
        s = {'settings': D()}
        c['settings'].update(cmod)
        s['settings'].update(smod)
        for k, v in kw.items():
            side, key = k.split('_', 1)
            (c if side == 'c' else s)[key] = v
        out.append({'id': 'key-%s-%d' % (tag, len(out)), 'client': c, 'server': s})

    def windows(bits):
        return [('min-above', {'minKeySize': bits + 1, 'maxKeySize': max(8193, bits + 1)}),
                ('max-below', {'minKeySize': min(1023, bits - 1), 'maxKeySize': bits - 1}),
                ('exact', {'minKeySize': bits, 'maxKeySize': bits})]
    tls12 = {'maxVersion': [3, 3], 'versions': [[3, 3], [3, 2], [3, 1]]}
    for vname, vmod in (('tls12', tls12), ('tls13', {})):
        for cert in ('rsa', 'rsapss', 'dsa'):
            if cert == 'dsa' and vname == 'tls13':
                continue
            bits = cert_info(cert)[1]
            for wname, w in windows(bits):
                add('srv-%s-%s-%s' % (cert, vname, wname), dict(vmod, **w), {}, s_cert=cert)
        for cert in ('client-rsa', 'rsapss', 'client-dsa', 'rsa'):
            if cert == 'client-dsa' and vname == 'tls13':
                continue
            bits = cert_info(cert)[1]
            for wname, w in windows(bits):
                add('cli-%s-%s-%s' % (cert, vname, wname), dict(vmod), dict(w), s_cert='ecdsa', s_req_cert=True, c_cert=cert)
    no256 = [x for x in D()['eccCurves'] if x != 'secp256r1']
    no384 = [x for x in D()['eccCurves'] if x != 'secp384r1']
    add('srv-ecdsa-curve', dict(tls12, eccCurves=no256, keyShares=['x25519']), {}, s_cert='ecdsa')
    add('srv-ecdsa384-curve', dict(tls12, eccCurves=no384), {}, s_cert='ecdsa384')
    add('cli-ecdsa-curve', dict(tls12), {'eccCurves': no256, 'keyShares': ['x25519']}, s_cert='rsa', s_req_cert=True, c_cert='client-ecdsa')
    for vname, vmod in (('tls12', tls12), ('tls13', {})):
        add('srv-ed25519-off-' + vname, dict(vmod, more_sig_schemes=['Ed448']), {}, s_cert='ed25519')
        add('cli-ed25519-off-' + vname, dict(vmod), {'more_sig_schemes': ['Ed448']}, s_cert='rsa', s_req_cert=True, c_cert='client-ed25519')
    return out


KX_SETUP = {'rsa': {'s_cert': 'rsa'}, 'dhe_rsa': {'s_cert': 'rsa'}, 'ecdhe_rsa': {'s_cert': 'rsa'},
            'ecdhe_ecdsa': {'s_cert': 'ecdsa'}, 'dhe_dsa': {'s_cert': 'dsa'}, 'srp_sha': {'flavour': 'srp', 's_srp': [0]},
            'srp_sha_rsa': {'flavour': 'srp', 's_srp': [0], 's_cert': 'rsa'}, 'dh_anon': {'flavour': 'anon', 's_anon': True},
            'ecdh_anon': {'flavour': 'anon', 's_anon': True}}


def policy_lattice_cases(quick=True):
    """Directed pairs for the "within both policies" half of the property, per settings dimension:
    (a) single value: one side allows exactly one value of the dimension, the other side is default -- both
        roles, TLS 1.2 and TLS 1.3, with the credential that key exchange / signature family needs;
    (b) partial overlap: one side allows [x, y], the other [y, z] -- the handshake must land on y or fail;
    (c) MAC class x cipher: each single MAC class against each CBC/stream cipher (the classification of a
        suite's MAC is decided per (cipher, MAC) in _filterSuites);
    (d) requireExtendedMasterSecret on client / server / both x every protocol version (SSLv3 ... TLS 1.3) x
        the other side with and without useExtendedMasterSecret.
    quick keeps macNames / cipherNames / keyExchangeNames / require*, the thorough tier sweeps every dimension."""
    from tlslite import handshakesettings as hs
    D = default_settings_dict
    out = []
    tls12 = {'maxVersion': [3, 3], 'versions': [[3, 3], [3, 2], [3, 1]]}

    def add(tag, cmod, smod, **kw):
        c = {'settings': D(), 'flavour': kw.pop('flavour', 'cert')}
        s = {'settings': D()}
        c['settings'].update(cmod)
        s['settings'].update(smod)
        for k, v in kw.items():
            side, key = k.split('_', 1)
            (c if side == 'c' else s)[key] = v
        out.append({'id': 'pol-%s-%d' % (tag, len(out)), 'client': c, 'server': s})

    def both_roles(tag, dim, vals, other=None, vers=('tls12', 'tls13'), setup=None, extra=None):
        for vname in vers:
            vmod = tls12 if vname == 'tls12' else {}
            for role in ('c', 's'):
                a = dict(vmod, **{dim: list(vals)}) if role == 'c' else {dim: list(vals)}
                b = ({dim: list(other)} if other is not None else {})
                if role == 's':
                    b = dict(vmod, **b)
                a.update(extra or {})
                cm, sm = (a, b) if role == 'c' else (b, a)
                add('%s-%s-%s-%s' % (dim, '+'.join(vals), role, vname), cm, sm, **(setup or {'s_cert': 'rsa'}))
    dims = [('macNames', hs.ALL_MAC_NAMES, None), ('cipherNames', hs.ALL_CIPHER_NAMES, None)]
    if not quick:
        dims += [('eccCurves', hs.CURVE_NAMES, None), ('dhGroups', ['ffdhe2048', 'ffdhe3072'], None),
                 ('rsaSigHashes', hs.ALL_RSA_SIGNATURE_HASHES, None), ('rsaSchemes', hs.RSA_SCHEMES, None),
                 ('ecdsaSigHashes', hs.ECDSA_SIGNATURE_HASHES, {'s_cert': 'ecdsa', 's_req_cert': True, 'c_cert': 'client-ecdsa'}),
                 ('dsaSigHashes', hs.DSA_SIGNATURE_HASHES, {'s_cert': 'dsa', 's_req_cert': True, 'c_cert': 'client-dsa'}),
                 ('more_sig_schemes', hs.SIGNATURE_SCHEMES, {'s_cert': 'ed25519', 's_req_cert': True, 'c_cert': 'client-ed25519'})]
    for dim, allv, setup in dims:
        allv = list(allv)
        for x in allv:                                        # (a)
            both_roles('one', dim, [x], setup=setup)
        n = len(allv)
        for i in range(n if not quick else min(n, 5)):        # (b) [x, y] against [y, z]
            x, y, z = allv[i], allv[(i + 1) % n], allv[(i + 2) % n]
            if len({x, y, z}) == 3:
                both_roles('part', dim, [x, y], other=[z, y], setup=setup, vers=('tls12',) if quick else ('tls12', 'tls13'))
    for kx in hs.KEY_EXCHANGE_NAMES:                          # (a) for key exchanges, each with its credential
        both_roles('one', 'keyExchangeNames', [kx], setup=KX_SETUP[kx], vers=('tls12',))
    kxs = list(hs.KEY_EXCHANGE_NAMES)
    for i in range(len(kxs)):
        y, z = kxs[i], kxs[(i + 1) % len(kxs)]
        x = kxs[(i + 2) % len(kxs)]
        both_roles('part', 'keyExchangeNames', [x, y], other=[z, y], setup=KX_SETUP[y], vers=('tls12',))
    # (c) single MAC class x single cipher, the server certificate that lets ECDHE / DHE / RSA suites all apply
    cbc = [c for c in hs.ALL_CIPHER_NAMES if c in ('aes256', 'aes128', '3des', 'rc4', 'null')]
    for mac in hs.ALL_MAC_NAMES:
        for ci in (cbc if not quick else ['aes256', 'aes128']):
            both_roles('macxcipher-' + ci, 'macNames', [mac], extra={'cipherNames': [ci]}, vers=('tls12',))
            if not quick:
                both_roles('macxcipher-ecdsa-' + ci, 'macNames', [mac], extra={'cipherNames': [ci]}, vers=('tls12',),
                           setup={'s_cert': 'ecdsa'})
    # (d) require* x every version
    for who in ('c', 's', 'cs'):
        for v in range(5):
            for other_use in (True, False):
                pin = {'minVersion': [3, v], 'maxVersion': [3, v], 'versions': [[3, v]]}
                req = {'useExtendedMasterSecret': True, 'requireExtendedMasterSecret': True}
                oth = {'useExtendedMasterSecret': other_use, 'requireExtendedMasterSecret': False}
                cm = dict(pin, **(req if 'c' in who else oth))
                sm = dict(pin, **(req if 's' in who else oth))
                add('require-ems-%s-v%d-%s' % (who, v, 'use' if other_use else 'nouse'), cm, sm, s_cert='rsa')
    return out


def fixed_cases(quick=True):
    """Boundary cases kept from earlier disagreements / findings; always run first."""
    D = default_settings_dict
    out = []

    def case(cmod=None, smod=None, **kw):
        c = {'settings': D(), 'flavour': kw.pop('flavour', 'cert')}
        s = {'settings': D()}
        c['settings'].update(cmod or {})
        s['settings'].update(smod or {})
        for k, v in kw.items():
            side, key = k.split('_', 1)
            (c if side == 'c' else s)[key] = v
        out.append({'id': 'fixed-%d' % len(out), 'client': c, 'server': s})
    case(s_cert='rsa')
    case(s_cert='ecdsa')
    case(cmod={'maxVersion': [3, 3]}, s_cert='rsa')
    # server maxVersion (3,2) with the default `versions` list
    case(smod={'minVersion': [3, 1], 'maxVersion': [3, 2]}, s_cert='rsa')
    # client minKeySize above the DH group the server uses
    case(cmod={'maxVersion': [3, 3], 'minKeySize': 3072, 'keyExchangeNames': ['dh_anon'], 'dhGroups': []},
         smod={'keyExchangeNames': ['dh_anon']}, flavour='anon', s_anon=True)
    # TLS 1.3 server minKeySize above the client's RSA key
    case(smod={'minKeySize': 4096}, s_cert='ecdsa', s_req_cert=True, c_cert='client-rsa')
    case(cmod={'maxVersion': [3, 3]}, smod={'minKeySize': 4096}, s_cert='ecdsa', s_req_cert=True, c_cert='client-rsa')
    # client certificate configured, server does not ask (TLS 1.3 / 1.2)
    case(s_cert='rsa', c_cert='client-rsa')
    case(cmod={'maxVersion': [3, 3]}, s_cert='rsa', c_cert='client-rsa')
    # ALPN offered to a TLS 1.3 server without ALPN configured
    case(s_cert='rsa', c_alpn=[0])
    case(s_cert='rsa', c_alpn=[0, 1], s_alpn=[1, 0])
    case(s_cert='rsa', c_alpn=[0], s_alpn=[1])
    case(cmod={'maxVersion': [3, 3]}, s_cert='rsa', c_alpn=[0], s_alpn=[1])
    # macNames without 'aead' but with sha384: DHE_DSS AES256 GCM
    case(cmod={'maxVersion': [3, 3]}, smod={'macNames': ['sha384'], 'maxVersion': [3, 3]}, s_cert='dsa')
    case(flavour='srp', s_srp=[0])
    case(flavour='srp', s_srp=[0], s_cert='rsa')
    case(flavour='anon', s_anon=True)
    case(cmod={'psks': [(0, None)]}, smod={'psks': [(0, None)]})
    case(cmod={'psks': [(0, 'sha384')]}, smod={'psks': [(0, 'sha384')]}, s_cert='rsa')
    case(cmod={'keyShares': []}, s_cert='rsa')                      # HelloRetryRequest
    case(cmod={'record_size_limit': 100}, smod={'record_size_limit': 2000}, s_cert='rsa')
    case(cmod={'record_size_limit': 100, 'maxVersion': [3, 3]}, smod={'record_size_limit': 2000}, s_cert='rsa')
    case(cmod={'requireExtendedMasterSecret': True}, s_cert='rsa')
    case(cmod={'maxVersion': [3, 1]}, s_cert='rsa', c_npn=[0, 1], s_npn=[1])
    case(cmod={'minVersion': [3, 0], 'maxVersion': [3, 0]}, smod={'minVersion': [3, 0]}, s_cert='rsa')
    # settings validate() accepts but no signature algorithm fits the enabled versions: `assert sig_list`
    case(cmod={'minVersion': [3, 4], 'rsaSigHashes': [], 'ecdsaSigHashes': [], 'more_sig_schemes': []}, s_cert='rsa')
    # EdDSA before TLS 1.2, SSLv3 with extended master secret, SRP with an rsa-pss key, disjoint FFDHE groups
    case(cmod={'maxVersion': [3, 2], 'versions': [[3, 2], [3, 1]]}, s_cert='ed25519')
    case(cmod={'minVersion': [3, 0], 'maxVersion': [3, 3], 'versions': [[3, 3], [3, 2], [3, 1], [3, 0]]},
         smod={'minVersion': [3, 0], 'maxVersion': [3, 0], 'versions': [[3, 0]]}, s_cert='rsa')
    case(cmod={'maxVersion': [3, 2], 'versions': [[3, 2], [3, 1]]}, flavour='srp', s_srp=[0], s_cert='rsapss')
    case(cmod={'maxVersion': [3, 3], 'versions': [[3, 3], [3, 2], [3, 1]], 'keyExchangeNames': ['dh_anon'], 'dhGroups': ['ffdhe2048']},
         smod={'dhGroups': ['ffdhe3072']}, flavour='anon', s_anon=True)
    case(cmod={'maxVersion': [3, 3], 'versions': [[3, 3], [3, 2], [3, 1]], 'more_sig_schemes': ['Ed448']}, s_cert='rsa',
         s_req_cert=True, c_cert='client-ed25519')
    case(cmod={'more_sig_schemes': ['Ed448']}, s_cert='rsa', s_req_cert=True, c_cert='client-ed25519')
    case(cmod={'requireExtendedMasterSecret': True, 'maxVersion': [3, 3], 'versions': [[3, 3], [3, 2], [3, 1]]}, s_cert='rsa')
    # all 3 x 3 combinations of psk_modes with a shared external PSK, server with and without a certificate
    modes = [['psk_dhe_ke'], ['psk_ke'], ['psk_dhe_ke', 'psk_ke']]
    for cm in modes:
        for sm in modes:
            for scert in (None, 'rsa'):
                kw = {'s_cert': scert} if scert else {}
                case(cmod={'psks': [(0, None)], 'psk_modes': cm}, smod={'psks': [(0, None)], 'psk_modes': sm}, **kw)
    # finding C03-7: brainpool certificate in TLS 1.3, the server's more_sig_schemes exclude the brainpool schemes
    case(smod={'more_sig_schemes': ['Ed25519']}, s_cert='bp256')
    case(cmod={'more_sig_schemes': ['Ed25519']}, smod={'more_sig_schemes': ['Ed25519']}, s_cert='bp256')
    # /repo ba94cd5: matching external PSK whose hash fits none of the offered suites -> certificate handshake
    for h, ciph in (('sha384', ['aes128gcm']), (None, ['aes256gcm']), ('sha384', ['aes128gcm', 'aes256gcm']), ('sha384', ['chacha20-poly1305'])):
        for scert in ('rsa', None):
            kw = {'s_cert': scert} if scert else {}
            case(cmod={'psks': [(0, h)], 'cipherNames': ciph}, smod={'psks': [(0, h)]}, **kw)
            case(cmod={'psks': [(0, h)]}, smod={'psks': [(0, h)], 'cipherNames': ciph}, **kw)
    out += resume_cases()
    return out + boundary_key_cases() + boundary_version_cases() + value_sweep_cases() + policy_lattice_cases(quick)


def resume_cases():
    """Directed histories: a full handshake followed by a resumed connection (session ID, RFC 5077 ticket,
    TLS 1.3 ticket PSK) with record_size_limit x heartbeat x ALPN x EtM/EMS varied on the second connection."""
    D = default_settings_dict
    out = []
    tls12 = {'maxVersion': [3, 3], 'versions': [[3, 3], [3, 2], [3, 1]]}
    tls10 = {'maxVersion': [3, 1], 'versions': [[3, 1]]}
    for vname, vmod in (('tls12', tls12), ('tls10', tls10), ('tls13', {})):
        for kind in ('id', 'ticket'):
            if vname == 'tls13' and kind == 'id':
                continue
            for hb_c in (True, False):
                for (rc, rs) in ((1024, 2048), (None, None), (2 ** 14 + 1, 100)):
                    for alpn in (None, [1, 0]):
                        c = {'settings': D(), 'flavour': 'cert', 'sni': 1}
                        s = {'settings': D(), 'cert': 'rsa'}
                        c['settings'].update(vmod)
                        c['settings'].update({'use_heartbeat_extension': hb_c, 'record_size_limit': rc})
                        s['settings'].update({'record_size_limit': rs, 'ticket_keys': kind == 'ticket'})
                        if alpn is not None:
                            c['alpn'] = alpn
                            s['alpn'] = [0, 1]
                        out.append({'id': 'resume-%s-%s-%d' % (vname, kind, len(out)), 'client': c, 'server': s,
                                    'resume': {'kind': kind, 'c2': {}, 's2': {}}})
    # SSLv3: a client that offers nothing above SSLv3 sends no extensions (no ticket possible); a client that does
    # offer TLS 1.0 against an SSLv3-only server sends them
    for kind in ('id', 'ticket'):
        for cmax in (0, 1, 3):
            c = {'settings': dict(D(), minVersion=[3, 0], maxVersion=[3, cmax], versions=[[3, x] for x in range(cmax, -1, -1)]),
                 'flavour': 'cert'}
            s = {'settings': dict(D(), minVersion=[3, 0], maxVersion=[3, 0], versions=[[3, 0]], ticket_keys=kind == 'ticket'),
                 'cert': 'rsa'}
            out.append({'id': 'resume-sslv3-%s-c%d-%d' % (kind, cmax, len(out)), 'client': c, 'server': s,
                        'resume': {'kind': kind, 'c2': {}, 's2': {}}})
    # ALPN negotiated on the first connection, not offered on the resumed one
    for kind in ('id', 'ticket'):
        c = {'settings': dict(D(), **tls12), 'flavour': 'cert', 'alpn': [1]}
        s = {'settings': dict(D(), ticket_keys=kind == 'ticket'), 'cert': 'rsa', 'alpn': [1, 0]}
        out.append({'id': 'resume-alpn-drop-%s-%d' % (kind, len(out)), 'client': c, 'server': s,
                    'resume': {'kind': kind, 'c2': {'alpn': None}, 's2': {}}})
    # the renegotiated dimensions changed between the two connections
    for kind in ('id', 'ticket'):
        c = {'settings': dict(D(), **tls12), 'flavour': 'cert'}
        s = {'settings': dict(D(), ticket_keys=kind == 'ticket'), 'cert': 'ecdsa'}
        out.append({'id': 'resume-change-%s-%d' % (kind, len(out)), 'client': c, 'server': s,
                    'resume': {'kind': kind, 'c2': {'settings': {'record_size_limit': 512, 'use_heartbeat_extension': False}},
                               's2': {'settings': {'record_size_limit': 700}, 'alpn': [2]}}})
    return out
