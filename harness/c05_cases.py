"""C05: live handshakes for every proof site x corruption class x key type.

run_case(case) is executed in worker processes.  It builds a loop.Pair, wraps only the
PEER (see c05_peers), runs the handshake and returns an observation:

  ok / code      verdict of the VERIFYING endpoint's call (0 accepted, alert description,
                 1000+ exception without alert, 9999 crash)
  ident          identity fields of the verifying endpoint after the call
  expect_accept  ground truth from the construction (honest run?)
  model          inputs for the Coq model: the Run record fields and the oracle answers
                 observed independently of the endpoint under test (signature answers are
                 computed from the bytes on the wire, the raw transcript captured at the
                 peer, hashlib and the public key of the certificate that was SENT)
"""
import hashlib
import random

import loop
import c05_peers as P
from tlslite.api import HandshakeSettings, Checker, X509CertChain
from tlslite.messages import (CertificateVerify, ServerKeyExchange, Finished, ClientHello, ServerHello,
                              CertificateRequest, Certificate, ClientKeyExchange)
from tlslite.constants import SignatureScheme, HashAlgorithm, SignatureAlgorithm, CipherSuite, ExtensionType
from tlslite.extensions import SRPExtension, SignatureAlgorithmsExtension
from tlslite.x509 import DelegatedCredential, Credential
from tlslite import errors as tlserr

CREDS = ['rsa', 'rsapss', 'ecdsa', 'ecdsa384', 'ecdsa521', 'ed25519', 'ed448', 'dsa',
         'client-rsa', 'client-ecdsa', 'client-ed25519', 'client-dsa', 'bp256', 'bp384', 'bp512',
         'rsa-b', 'ecdsa-b', 'rsapss-b']
CRED_ID = {n: i + 1 for i, n in enumerate(CREDS)}
_FP = {}


def fp_id(chain):
    """identity of a certificate chain as a small id (by fingerprint)"""
    if chain is None:
        return None
    if not isinstance(chain, X509CertChain):
        return -2
    if chain.getNumCerts() == 0:
        return 0
    if not _FP:
        for n in CREDS:
            _FP[loop.creds(n)[0].getFingerprint()] = CRED_ID[n]
    return _FP.get(chain.getFingerprint(), -1)


SIG_CORRUPTIONS = ['flip', 'flip-first', 'flip-last', 'empty', 'short', 'long', 'zero', 'stale']
HASHES = [None, 'md5', 'sha1', 'sha224', 'sha256', 'sha384', 'sha512', 'intrinsic']


def code_of(outcome):
    c = loop.classify(outcome)
    if c[0] == 'ok':
        return 0
    if c[0] == 'LocalAlert':
        return c[1]
    if c[0] == 'AuthError':
        return 2000
    if c[0] == 'Other' and c[1] == 'TLSDecryptionFailed':
        return 1051
    if c[0] == 'Other' and c[1] == 'TLSIllegalParameterException':
        return 1047
    if c[0] == 'Other' and c[1] in ('TypeError', 'AttributeError', 'IndexError', 'KeyError', 'AssertionError', 'ValueError'):
        return 9999
    if c[0] == 'Other':
        return 9000
    if c[0] == 'RemoteAlert':
        return 7000 + c[1]
    return 8000


def digest_of(buf, name):
    buf = bytes(buf)
    if name is None:
        return hashlib.md5(buf).digest() + hashlib.sha1(buf).digest()
    if name == 'intrinsic':
        return buf
    return hashlib.new(name, buf).digest()


PKCS1_PREFIX = {   # RFC 8017 9.2 note 1 DigestInfo prefixes
    'md5': bytes.fromhex('3020300c06082a864886f70d020505000410'),
    'sha1': bytes.fromhex('3021300906052b0e03021a05000414'),
    'sha224': bytes.fromhex('302d300d06096086480165030402040500041c'),
    'sha256': bytes.fromhex('3031300d060960864801650304020105000420'),
    'sha384': bytes.fromhex('3041300d060960864801650304020205000430'),
    'sha512': bytes.fromhex('3051300d060960864801650304020305000440'),
}
SCHEME_HASH = {  # (hash of the scheme, rsa padding or None) written from RFC 8446 4.2.3 / RFC 5246 7.4.1.4.1
}
for _h, _n in ((2, 'sha1'), (3, 'sha224'), (4, 'sha256'), (5, 'sha384'), (6, 'sha512')):
    SCHEME_HASH[(_h, 1)] = (_n, 'pkcs1')
    SCHEME_HASH[(_h, 2)] = (_n, None)
    SCHEME_HASH[(_h, 3)] = (_n, None)
SCHEME_HASH[(1, 1)] = ('md5', 'pkcs1')
for _s, _n in (((8, 4), 'sha256'), ((8, 5), 'sha384'), ((8, 6), 'sha512'), ((8, 9), 'sha256'), ((8, 10), 'sha384'),
               ((8, 11), 'sha512')):
    SCHEME_HASH[_s] = (_n, 'pss')
SCHEME_HASH[(8, 7)] = ('intrinsic', None)
SCHEME_HASH[(8, 8)] = ('intrinsic', None)
SCHEME_HASH[(8, 26)] = ('sha256', None)
SCHEME_HASH[(8, 27)] = ('sha384', None)
SCHEME_HASH[(8, 28)] = ('sha512', None)


def ssl3_master(pre, cr, sr):
    """RFC 6101 6.1"""
    pre, cr, sr = bytes(pre), bytes(cr), bytes(sr)
    out = b''
    for lab in (b'A', b'BB', b'CCC'):
        out += hashlib.md5(pre + hashlib.sha1(lab + pre + cr + sr).digest()).digest()
    return out


def ssl3_cv_hashes(transcript, ms):
    """RFC 6101 5.6.8: md5_hash and sha_hash of the CertificateVerify"""
    transcript, ms = bytes(transcript), bytes(ms)
    md5h = hashlib.md5(ms + b'\x5c' * 48 + hashlib.md5(transcript + ms + b'\x36' * 48).digest()).digest()
    shah = hashlib.sha1(ms + b'\x5c' * 40 + hashlib.sha1(transcript + ms + b'\x36' * 40).digest()).digest()
    return md5h, shah


def spec_verify_bytes(ver, transcript, scheme, role, prf, key_type):
    """Bytes handed to the signature primitive, written from the RFCs (independent of
    KeyExchange.calcVerifyBytes).  Returns (bytes, digest_entries, hash_entries)."""
    ver = tuple(ver)
    if ver == (3, 4):
        hname = SCHEME_HASH.get(tuple(scheme), (None, None))[0]
        d = digest_of(transcript, prf)
        content = b' ' * 64 + b'TLS 1.3, ' + role + b' CertificateVerify' + b'\x00' + d
        de = [(prf, d)]
        if hname is None:
            return None, de, []
        if hname == 'intrinsic':
            return content, de, []
        h = hashlib.new(hname, content).digest()
        return h, de, [(content, hname, h)]
    if ver == (3, 3):
        hname, pad = SCHEME_HASH.get(tuple(scheme), (None, None))
        if hname is None:
            return None, [], []
        d = digest_of(transcript, hname)
        if pad == 'pkcs1':
            return PKCS1_PREFIX[hname] + d, [(hname, d)], [(d, 'pkcs1:' + hname, PKCS1_PREFIX[hname] + d)]
        return d, [(hname, d)], []
    if ver in ((3, 1), (3, 2)):
        # RFC 2246 / 4346 7.4.8: RSA signs MD5||SHA-1, DSA the SHA-1 hash alone; RFC 4492 5.8: ECDSA SHA-1
        n = 'sha1' if key_type in ('ecdsa', 'dsa') else None
        d = digest_of(transcript, n)
        return d, [(n, d)], []
    return None, [], []


def keytype_of(chain):
    return chain.x509List[0].certAlg


def curve_hash(pub):
    cn = getattr(pub, 'curve_name', None)
    if cn is None:
        return None
    return {'NIST256p': 'sha256', 'NIST384p': 'sha384', 'NIST521p': 'sha512', 'BRAINPOOLP256r1': 'sha256',
            'BRAINPOOLP384r1': 'sha384', 'BRAINPOOLP512r1': 'sha512'}.get(cn)


_CERT_FP = {}


def chain_ids(chain):
    """ids of ALL certificates of a recorded chain, in order"""
    if chain is None or not isinstance(chain, X509CertChain) or chain.getNumCerts() == 0:
        return None
    if not _CERT_FP:
        for n in CREDS:
            _CERT_FP[loop.creds(n)[0].x509List[0].getFingerprint()] = CRED_ID[n]
    return [_CERT_FP.get(x.getFingerprint(), -1) for x in chain.x509List]


def ident_of(conn):
    s = conn.session
    if s is None:
        return {'server': None, 'client': None, 'srp': None, 'dc': False, 'resumable': None,
                'server_ids': None, 'client_ids': None}
    srp = s.srpUsername
    if isinstance(srp, (bytes, bytearray)):
        srp = bytes(srp).decode('latin1')
    return {'server': fp_id(s.serverCertChain), 'client': fp_id(s.clientCertChain),
            'srp': srp or None, 'dc': getattr(s, 'delegated_credential', None) is not None,
            'resumable': bool(s.resumable), 'server_ids': chain_ids(s.serverCertChain),
            'client_ids': chain_ids(s.clientCertChain)}


def base_model(flow, ver):
    return {'flow': flow, 'ver': tuple(ver), 'kx': 1, 'req_cert': False, 'psk': None, 'cert': None, 'cv': None,
            'ske': None, 'cr': b'', 'sr': b'', 'premaster': b'', 'tr_cv': [10], 'tr_fin': [11], 'tr_binder': [9],
            'prf': None, 'offered': [], 'valid': [], 'dc_offered': [], 'kx_alert': None, 'rec_ok': True,
            'fin': [3], 'binder': [], 'ticket_chain': None, 'srp_user': None, 'srp_known': False,
            'own_chain': None, 'srv_scheme': None, 'ctx_ok': True, 'cert_required': False,
            'a_sig': [], 'a_fin': [], 'a_binder': [], 'a_digest': [], 'a_hash': [], 'a_ssl': b'',
            'is_client': flow in (1, 3), 'want': None, 'by_construction': []}


def certmsg(name, chain=None, dcs=()):
    chain = chain if chain is not None else loop.creds(name)[0]
    pub = chain.getEndEntityPublicKey()
    return {'chain': [CRED_ID[name]], 'cert': [CRED_ID[name]], 'key': CRED_ID[name], 'keytype': keytype_of(chain),
            'curve_hash': curve_hash(pub), 'policy': None, 'dc': list(dcs)}


def vset(ver, **kw):
    return loop.settings(minv=tuple(ver), maxv=tuple(ver), **kw)


class Cap(object):
    """what the harness captured from the peer while it was sending"""

    def __init__(self):
        self.cv = None          # (scheme, signature, transcript bytes before CV)
        self.ske = None
        self.ch_random = None
        self.sh_random = None
        self.cert_names = None
        self.msgs = []


def sig_answer(m, cap_cv, cert_name, ver, role, prf, honest, ssl3=None):
    """fill the model's CertificateVerify inputs and the observed signature answer"""
    scheme, sig, transcript = cap_cv
    chain = loop.creds(cert_name)[0]
    kt = keytype_of(chain)
    pub = chain.getEndEntityPublicKey()
    ver = tuple(ver)
    m['cv'] = (tuple(scheme) if scheme is not None else None, [7])
    if ver == (3, 0):
        if ssl3 is not None and kt in ('rsa', 'dsa'):
            # RFC 6101 5.6.8: RSA signs md5_hash || sha_hash, DSA sha_hash alone (both keyed with the master secret)
            md5h, shah = ssl3_cv_hashes(transcript, ssl3_master(*ssl3))
            vb = md5h + shah if kt == 'rsa' else shah
            ans = P.pubkey_verify(pub, ver, None, bytearray(vb), sig, kt)
            m['a_ssl'] = md5h + shah              # what HandshakeHashes.digestSSL yields (the model's o_digestSSL)
            m['a_sig'].append((CRED_ID[cert_name], vb, ans))     # keyed by the RFC bytes: the model must compute the same
            m['sig_answer'] = ans
            return
        m['by_construction'].append('sig(sslv3)')   # ECDSA with SSLv3 is not specified anywhere
        m['a_ssl'] = b'\x01'
        m['a_sig'].append((CRED_ID[cert_name], b'\x01', bool(honest)))
        return
    sch = scheme
    if ver < (3, 3):
        sch = (2, 3) if kt == 'ecdsa' else None
    vb, de, he = spec_verify_bytes(ver, transcript, sch, role, prf, kt)
    for (n, d) in de:
        m['a_digest'].append(([10], n, d))
    m['a_hash'] += he
    if vb is not None:
        ans = P.pubkey_verify(pub, ver, tuple(sch) if sch else None, bytearray(vb), sig, kt)
        m['a_sig'].append((CRED_ID[cert_name], vb, ans))
        m['sig_answer'] = ans


# =========================================================================================
def ske_answer(pub, kt, ver, scheme, tbs, sig):
    """ServerKeyExchange signature answer: hashing written from RFC 5246 7.4.3 / RFC 4346 7.4.3, the
    primitive from harness/c05_refsig.py (independent of /repo's ServerKeyExchange.hash,
    verifyServerKeyExchange and key classes)."""
    import c05_refsig as R
    tbs = bytes(tbs)
    if tuple(ver) < (3, 3):
        if kt in ('rsa', 'rsa-pss'):
            return R.ref_verify(pub, 'rsa', None, 'pkcs1', digest_of(tbs, None), sig)
        return R.ref_verify(pub, kt, None, None, hashlib.sha1(tbs).digest(), sig)
    hname, pad = SCHEME_HASH.get(tuple(scheme), (None, None))
    if hname is None:
        return False
    if hname == 'intrinsic':
        return R.ref_verify(pub, 'Ed25519', None, None, tbs, sig)
    h = hashlib.new(hname, tbs).digest()
    if kt in ('ecdsa', 'dsa'):
        return R.ref_verify(pub, kt, None, None, h, sig)
    return R.ref_verify(pub, 'rsa', hname, pad or 'pkcs1', h, sig)


def edge_of(cred_name, honest_sig, name):
    """algebraic edge value derived from the honest signature and the certificate's public numbers"""
    import c05_refsig as R
    chain = loop.creds(cred_name)[0]
    return R.edge_signature(chain.getEndEntityPublicKey(), keytype_of(chain), honest_sig, name)


def kx_of(suite):
    if suite in CipherSuite.srpCertSuites:
        return 3
    if suite in CipherSuite.srpAllSuites:
        return 2
    if suite in CipherSuite.certSuites:
        return 0
    if suite in CipherSuite.anonSuites or suite in CipherSuite.ecdhAnonSuites:
        return 4
    return 1


def valid_list(settings, chain, ver):
    from tlslite.tlsconnection import TLSConnection
    st = settings.validate()
    return [tuple(x) for x in TLSConnection._sigHashesToList(st, certList=chain, version=tuple(ver))]


class Run(object):
    """One live handshake with a wrapped peer."""

    def __init__(self, case, rng):
        self.case, self.rng = case, rng
        self.p = loop.Pair()
        self.cap = {'cv': None, 'ske': None, 'cr': None, 'sr': None, 'suite': None, 'offered': None,
                    'peer_cv_seen': None, 'cert_req': None}
        self.stale = None

    # ---- hooks on the peer
    def send_hook(self, peer, target, resign=None, extra=None):
        case, rng, cap = self.case, self.rng, self.cap
        how = case['how']

        def fn(m):
            if isinstance(m, ClientHello):
                cap['cr'] = bytes(m.random)
            if isinstance(m, ServerHello):
                cap['sr'] = bytes(m.random)
                cap['suite'] = m.cipher_suite
            if isinstance(m, CertificateVerify):
                transcript = bytes(peer._handshake_hash._handshake_buffer)
                if how == 'omit' and target == 'cv':
                    return None
                if how in SIG_CORRUPTIONS and target == 'cv':
                    m.signature = P.corrupt_sig(m.signature, how, rng, self.stale)
                if how.startswith('edge:') and target == 'cv':
                    m.signature = bytearray(edge_of(case['key'], m.signature, how[5:]))
                if how == 'unknown-scheme':              # a value that names no signature scheme; signature untouched
                    m.signatureAlgorithm = tuple(case['scheme'])
                if how == 'scheme' and resign is not None:
                    key, scheme, role, prf = resign
                    m.signature = P.sign_cv(key, tuple(case['ver']), peer._handshake_hash, scheme, role,
                                            prf_name=prf, cr=cap['cr'], sr=cap['sr'])
                    m.signatureAlgorithm = scheme
                cap['cv'] = (m.signatureAlgorithm, bytes(m.signature), transcript)
            if isinstance(m, ServerKeyExchange):
                if how in SIG_CORRUPTIONS and m.signature is not None and target == 'ske':
                    m.signature = P.corrupt_sig(m.signature, how, rng, self.stale)
                if how.startswith('edge:') and m.signature is not None and target == 'ske':
                    m.signature = bytearray(edge_of(case['key'], m.signature, how[5:]))
                if how == 'replay-ske' and self.stale is not None and target == 'ske':
                    m = self.stale
                cap['ske'] = m
            if isinstance(m, Finished) and how == 'bad-finished':
                m.verify_data = bytearray(m.verify_data)
                m.verify_data[rng.randrange(len(m.verify_data))] ^= 1 << rng.randrange(8)
            if extra is not None:
                m = extra(m)
            return m
        P.hook_send(peer, fn)

    def recv_hook(self, peer, mutate=None):
        cap = self.cap

        def fn(m):
            if isinstance(m, ClientHello):
                cap['cr'] = bytes(m.random)
                e = m.getExtension(ExtensionType.signature_algorithms)
                cap['offered'] = [tuple(x) for x in e.sigalgs] if e is not None and e.sigalgs else []
                e = m.getExtension(ExtensionType.delegated_credential)
                cap['dc_offered'] = [tuple(x) for x in e.sigalgs] if e is not None and e.sigalgs else []
            if isinstance(m, ServerHello):
                cap['sr'] = bytes(m.random)
                cap['suite'] = m.cipher_suite
            if isinstance(m, CertificateRequest):
                cap['offered'] = [tuple(x) for x in (m.supported_signature_algs or [])]
            if isinstance(m, CertificateVerify):
                cap['peer_cv_seen'] = tuple(m.signatureAlgorithm) if m.signatureAlgorithm else None
            if mutate is not None:
                mutate(m)
        P.hook_recv(peer, fn)


def first_honest(case, runner):
    """'stale' / 'replay-ske': what an honest peer sent in a PREVIOUS handshake"""
    if case['how'] not in ('stale', 'replay-ske'):
        return None
    c2 = dict(case)
    c2['how'] = 'honest'
    r = runner(c2, None)
    if case['how'] == 'replay-ske':
        return r.cap['ske']
    if r.cap['cv'] is not None:
        return r.cap['cv'][1]
    return bytes(r.cap['ske'].signature) if r.cap['ske'] is not None and r.cap['ske'].signature else None


def site_cert(case, rng):
    """sites ske / cv12 / cv13s / cv13c / fin / keytransport: certificate authentication"""
    ver = tuple(case['ver'])
    verifier = case['verifier']
    name = case['key']
    how = case['how']
    target = case.get('target', 'cv')
    tls13 = ver == (3, 4)

    def runner(c, stale):
        r = Run(c, rng)
        r.stale = stale
        p = r.p
        peer = p.server if verifier == 'client' else p.client
        chain = loop.creds(name)[0]
        key = peer_key(c, name)
        vst = vset(ver, **case.get('verifier_settings', {}))
        pst = vset(ver, **case.get('peer_settings', {}))
        resign = None
        mutate = None
        if c['how'] == 'scheme':
            sch = tuple(case['scheme'])
            if target == 'cv':
                resign = (loop.creds(name)[1], sch, 'server' if verifier == 'client' else 'client', case.get('prf', 'sha384'))
            else:
                def mutate(m, sch=sch):     # the peer (server) believes the client offered `sch`
                    if isinstance(m, ClientHello):
                        e = m.getExtension(ExtensionType.signature_algorithms)
                        if e is not None:
                            e.sigalgs = [sch]
        r.send_hook(peer, target, resign)
        r.recv_hook(peer, mutate)
        if verifier == 'server' and ver == (3, 0):
            orig_cf = peer._clientFinished        # the PEER's premaster secret (SSLv3 CertificateVerify is keyed)

            def _cf(premasterSecret, *a, **kw):
                r.cap['premaster'] = bytes(premasterSecret)
                return orig_cf(premasterSecret, *a, **kw)
            peer._clientFinished = _cf
        kind = 'cert'
        if verifier == 'client':
            ckw = dict(settings=vst)
            if case.get('srp'):
                kind = 'srp'
                ckw.update(username=bytearray(b'test'), password=bytearray(b'password'))
            if case.get('checker_fp') is not None:
                ckw['checker'] = Checker(x509Fingerprint=loop.creds(case['checker_fp'][1:])[0].getFingerprint())
            skw = dict(certChain=chain, privateKey=key, settings=pst)
            if case.get('srp'):
                skw['verifierDB'] = loop.make_verifier_db()
        else:
            sname = case.get('server_key', 'rsa')
            sc, sk = loop.creds(sname)
            ckw = dict(certChain=chain, privateKey=key, settings=pst)
            skw = dict(certChain=sc, privateKey=sk, reqCert=True, settings=vst)
            if case.get('checker_fp') is not None:
                skw['checker'] = Checker(x509Fingerprint=loop.creds(case['checker_fp'][1:])[0].getFingerprint())
        r.out = p.handshake(client_kw=ckw, server_kw=skw, client_kind=kind)
        r.vst = vst
        return r
    stale = first_honest(case, runner)
    r = runner(case, stale)
    p, cap = r.p, r.cap
    co, so = r.out
    vout, pout = (co, so) if verifier == 'client' else (so, co)
    chain = loop.creds(name)[0]
    pub = chain.getEndEntityPublicKey()
    kt = keytype_of(chain)
    flow = {('client', False): 1, ('server', False): 2, ('client', True): 3, ('server', True): 4}[(verifier, tls13)]
    m = base_model(flow, ver)
    suite = cap['suite']
    prf = 'sha384' if suite in CipherSuite.sha384PrfSuites else 'sha256'
    m['prf'] = prf if tls13 else None
    m['cert'] = certmsg(name)
    m['req_cert'] = verifier == 'server'
    m['offered'] = cap.get('offered') or []
    m['cr'], m['sr'] = cap['cr'] or b'', cap['sr'] or b''
    if not tls13 and suite is not None:
        m['kx'] = kx_of(suite)
    m['valid'] = valid_list(r.vst, chain, ver) if ver >= (3, 3) else []
    if verifier == 'server':
        m['own_chain'] = [CRED_ID[case.get('server_key', 'rsa')]]
        if tls13 and cap['peer_cv_seen']:
            m['srv_scheme'] = SignatureScheme.toRepr(cap['peer_cv_seen'])
    honest = how == 'honest'
    if verifier == 'server' or tls13:
        if cap['cv'] is not None:
            role = b'server' if verifier == 'client' else b'client'
            ssl3 = None
            if ver == (3, 0) and cap.get('premaster') is not None and cap['cr'] and cap['sr']:
                ssl3 = (cap['premaster'], cap['cr'], cap['sr'])
            sig_answer(m, cap['cv'], name, ver, role, prf, honest, ssl3=ssl3)
    if not tls13 and verifier == 'client' and cap['ske'] is not None and m['kx'] != 0:
        ske = cap['ske']
        params = bytes(ske.writeParams())
        sch = (ske.hashAlg, ske.signAlg) if ver >= (3, 3) else None
        sig = bytes(ske.signature or b'')
        m['ske'] = (sch, params, [7] if sig else [])
        tbs = m['cr'] + m['sr'] + params
        ans = ske_answer(pub, kt, ver, sch, tbs, sig)
        m['a_sig'].append((CRED_ID[name], tbs, ans))
        m['sig_answer'] = ans
    # Finished / record keys: ground truth by construction
    which = {1: 1, 2: 0, 3: 2, 4: 3}[flow]
    keys_ok = True
    if m['kx'] == 0 and verifier == 'client' and how in ('other-key',) and not tls13:
        keys_ok = False           # RSA key transport: a server without the private key derives other keys
    m['rec_ok'] = keys_ok
    m['a_fin'].append((which, [11], how != 'bad-finished'))
    m['by_construction'] += ['fin', 'rec']
    if case.get('srp'):
        m['srp_user'] = list(b'test')
    if case.get('checker_fp') is not None:
        m['want'] = [CRED_ID[case['checker_fp'][1:]]]
    expect = honest and (case.get('checker_fp') is None or case.get('checker_match'))
    if how.startswith('edge:'):
        # an edge value can be a valid signature (e.g. ECDSA (r, n-s)): the verdict the property demands is
        # the reference verifier's, never the code's
        expect = bool(m.get('sig_answer'))
    return finish(case, p, verifier, vout, pout, m, expect, CRED_ID[name])


def peer_key(case, name):
    how = case['how']
    key = loop.creds(name)[1]
    if how == 'other-key':
        return P.other_key(name)
    if how == 'other-msg':
        return P.KeyProxy(key, 'other-msg')
    return key


def finish(case, p, verifier, outcome, peer_outcome, m, expect_accept, claimed):
    v = p.client if verifier == 'client' else p.server
    return {'site': case['site'], 'ver': tuple(case['ver']), 'key': case.get('key'), 'how': case['how'],
            'verifier': verifier, 'code': code_of(outcome), 'outcome': loop.classify(outcome),
            'peer_outcome': loop.classify(peer_outcome), 'ident': ident_of(v), 'closed': bool(v.closed),
            'expect_accept': bool(expect_accept), 'claimed': claimed, 'model': m}


# ---- SRP ---------------------------------------------------------------------------------
def site_srp(case, rng):
    """(7) SRP password proof; server under test unless verifier='client'"""
    ver, how, verifier = tuple(case['ver']), case['how'], case.get('verifier', 'server')
    r = Run(case, rng)
    p = r.p
    peer = p.client if verifier == 'server' else p.server
    r.send_hook(peer, 'none')
    r.recv_hook(peer)
    user, pw = b'test', b'password'
    db = loop.make_verifier_db()
    if how == 'wrong-password':
        if verifier == 'server':
            pw = b'passw0rd'
        else:
            db = loop.make_verifier_db(password=b'other-password')     # a server that does not know the verifier
    if how == 'unknown-user':
        user = b'nobody'
    co, so = p.handshake(client_kw=dict(username=bytearray(user), password=bytearray(pw), settings=vset(ver)),
                         server_kw=dict(verifierDB=db, settings=vset(ver)), client_kind='srp')
    m = base_model(2 if verifier == 'server' else 1, ver)
    m['kx'] = 2
    m['cr'], m['sr'] = r.cap['cr'] or b'', r.cap['sr'] or b''
    m['srp_user'] = list(user)
    m['srp_known'] = how != 'unknown-user'
    m['rec_ok'] = how != 'wrong-password'
    m['a_fin'].append((0 if verifier == 'server' else 1, [11], how != 'bad-finished'))
    m['by_construction'] += ['fin', 'rec', 'srp_known']
    vout, pout = (so, co) if verifier == 'server' else (co, so)
    o = finish(case, p, verifier, vout, pout, m, how == 'honest', None)
    o['key'] = 'srp'
    if how == 'honest' and o['ident']['srp'] != 'test':
        o['expect_accept_but_no_identity'] = True
    return o


def site_srp_unproved(case, rng):
    """a certificate-only server and a client that merely CLAIMS an SRP user name"""
    ver = tuple(case['ver'])
    r = Run(case, rng)
    p = r.p

    def add_ext(m):
        if isinstance(m, ClientHello):
            m.addExtension(SRPExtension().create(bytearray(b'admin')))
        return m
    r.send_hook(p.client, 'none', extra=add_ext)
    r.recv_hook(p.client)
    sc, sk = loop.creds('rsa')
    co, so = p.handshake(client_kw=dict(settings=vset(ver)), server_kw=dict(certChain=sc, privateKey=sk, settings=vset(ver)))
    m = base_model(2, ver)
    m['kx'] = kx_of(r.cap['suite']) if r.cap['suite'] is not None else 1
    m['cr'], m['sr'] = r.cap['cr'] or b'', r.cap['sr'] or b''
    m['srp_user'] = list(b'admin')
    m['own_chain'] = [CRED_ID['rsa']]
    m['a_fin'].append((0, [11], True))
    o = finish(case, p, 'server', so, co, m, True, None)
    o['key'] = 'rsa'
    o['srp_unproved'] = o['code'] == 0 and o['ident']['srp'] is not None
    return o


# ---- PSK ---------------------------------------------------------------------------------
def site_psk(case, rng):
    """(8) TLS 1.3 external PSK: binder + Finished"""
    ver, how, verifier = (3, 4), case['how'], case.get('verifier', 'server')
    r = Run(case, rng)
    p = r.p
    peer = p.client if verifier == 'server' else p.server
    secret = bytearray(b'\x07' * 32)
    bad = bytearray(b'\x08' * 32)

    def flip_binder(m):
        if isinstance(m, ClientHello) and how == 'flip-binder':
            ext = m.extensions[-1]
            b = bytearray(ext.binders[0])
            b[rng.randrange(len(b))] ^= 1 << rng.randrange(8)
            ext.binders[0] = b
        return m
    r.send_hook(peer, 'none', extra=flip_binder if verifier == 'server' else None)
    r.recv_hook(peer)
    cpsk = bad if (how == 'wrong-psk' and verifier == 'server') else secret
    spsk = bad if (how == 'wrong-psk' and verifier == 'client') else secret
    cst = vset(ver, pskConfigs=[(b'ident', cpsk, 'sha256')])
    sst = vset(ver, pskConfigs=[(b'ident', spsk, 'sha256')])
    co, so = p.handshake(client_kw=dict(settings=cst), server_kw=dict(settings=sst))
    m = base_model(4 if verifier == 'server' else 3, ver)
    m['psk'] = 1
    m['prf'] = 'sha256'
    binder_ok = how not in ('wrong-psk', 'flip-binder')
    m['a_binder'].append((1, [9], binder_ok))
    m['rec_ok'] = how != 'wrong-psk'
    m['a_fin'].append((3 if verifier == 'server' else 2, [11], how != 'bad-finished'))
    m['by_construction'] += ['fin', 'rec', 'binder']
    vout, pout = (so, co) if verifier == 'server' else (co, so)
    o = finish(case, p, verifier, vout, pout, m, how == 'honest', None)
    o['key'] = 'psk'
    return o


def site_ticket(case, rng):
    """(8) TLS 1.3 resumption: the client chain stored in the ticket is attributed to the
    resuming client only after binder and Finished"""
    ver, how = (3, 4), case['how']
    tk = [bytearray(b'\x11' * 32)]
    p0 = loop.Pair()
    cc, ck = loop.creds(case['key'])
    sc, sk = loop.creds('rsa')
    co, so = p0.handshake(client_kw=dict(certChain=cc, privateKey=ck, settings=vset(ver)),
                          server_kw=dict(certChain=sc, privateKey=sk, reqCert=True, settings=vset(ver, ticketKeys=tk)))
    loop.drive([p0.client.readAsync(max=0, min=0)])
    if co[0] != 'ok' or not p0.client.session.tickets:
        return {'site': case['site'], 'harness_error': 'no ticket obtained: %r' % (co,), 'case': case}
    r = Run(case, rng)
    p = r.p

    def flip_binder(m):
        if isinstance(m, ClientHello) and how == 'flip-binder':
            ext = m.extensions[-1]
            b = bytearray(ext.binders[0])
            b[rng.randrange(len(b))] ^= 1 << rng.randrange(8)
            ext.binders[0] = b
        return m
    r.send_hook(p.client, 'none', extra=flip_binder)
    r.recv_hook(p.client)
    co, so = p.handshake(client_kw=dict(session=p0.client.session, settings=vset(ver)),
                         server_kw=dict(certChain=sc, privateKey=sk, settings=vset(ver, ticketKeys=tk)))
    m = base_model(4, ver)
    m['psk'] = 2
    m['prf'] = 'sha384'
    m['ticket_chain'] = [CRED_ID[case['key']]]
    m['own_chain'] = [CRED_ID['rsa']]
    m['a_binder'].append((2, [9], how != 'flip-binder'))
    m['a_fin'].append((3, [11], how != 'bad-finished'))
    m['by_construction'] += ['fin', 'binder']
    return finish(case, p, 'server', so, co, m, how == 'honest', CRED_ID[case['key']])


def site_ticket_replay(case, rng):
    """(8) a ticket the server can decrypt but must IGNORE (other PRF hash / expired), replayed
    by a peer that knows only the opaque ticket bytes (garbage binder, no certificate, no
    resumption secret): the full handshake that follows must not attribute the client chain
    stored inside the ticket"""
    from tlslite.session import Session
    ver, how = (3, 4), case['how']
    tk = [bytearray(b'\x11' * 32)]
    p0 = loop.Pair()
    cc, ck = loop.creds(case['key'])
    sc, sk = loop.creds('rsa')
    co, so = p0.handshake(client_kw=dict(certChain=cc, privateKey=ck, settings=vset(ver, cipherNames=['aes256gcm'])),
                          server_kw=dict(certChain=sc, privateKey=sk, reqCert=True, settings=vset(ver, ticketKeys=tk)))
    loop.drive([p0.client.readAsync(max=0, min=0)])
    victim = p0.client.session
    if co[0] != 'ok' or not victim.tickets:
        return {'site': case['site'], 'harness_error': 'no ticket obtained: %r' % (co,), 'case': case}
    stolen = Session()
    stolen.resumable = True
    stolen.cipherSuite = victim.cipherSuite
    stolen.serverName = victim.serverName
    stolen.srpUsername = None
    stolen.tickets = list(victim.tickets)
    stolen.resumptionMasterSecret = bytearray(len(victim.resumptionMasterSecret))    # the attacker has no secret
    r = Run(case, rng)
    p = r.p
    r.send_hook(p.client, 'none')
    r.recv_hook(p.client)
    clock = None
    names = ['aes256gcm']
    sset = dict(ticketKeys=tk)
    if how == 'hash-change':
        names = ['aes128gcm']                    # SHA-256 suites only: the SHA-384 ticket PSK cannot be used
    try:
        if how == 'expired':
            import copy
            future = __import__('time').time() + 3 * 24 * 3600
            clock = loop.FakeClock(start=future).install()
            fresh = []
            for t in stolen.tickets:             # the attacker's client treats the ticket as fresh,
                t2 = copy.copy(t)                # only the server (creation_time inside the ticket) sees it expired
                t2.time = future
                fresh.append(t2)
            stolen.tickets = fresh
        co, so = p.handshake(client_kw=dict(session=stolen, settings=vset(ver, cipherNames=names)),
                             server_kw=dict(certChain=sc, privateKey=sk, reqCert=bool(case.get('req_cert')),
                                            settings=vset(ver, **sset)))
    finally:
        if clock is not None:
            clock.uninstall()
    m = base_model(4, ver)
    m['psk'] = None                              # no usable PSK: the ticket is skipped before the binder is looked at
    m['prf'] = 'sha256' if how == 'hash-change' else 'sha384'
    m['ticket_chain'] = [CRED_ID[case['key']]]
    m['req_cert'] = bool(case.get('req_cert'))
    m['own_chain'] = [CRED_ID['rsa']]
    if case.get('req_cert'):                     # the attacker answers the CertificateRequest with an empty list
        m['cert'] = {'chain': [], 'cert': [], 'key': 0, 'keytype': 'rsa', 'curve_hash': None, 'policy': None, 'dc': []}
    m['a_fin'].append((3, [11], True))
    o = finish(case, p, 'server', so, co, m, True, None)
    o['unproved_ticket_chain'] = o['code'] == 0 and bool(o['ident']['client'])
    return o


def site_srp_multiple(case, rng):
    """(7) SRP public value that is 0 mod N: A = k*N from a password-less client (server under
    test; the attacker derives the Finished from premaster 0), B = k*N from a server (client
    under test)"""
    from tlslite.utils.cryptomath import numberToByteArray
    ver, k, verifier = tuple(case['ver']), case['k'], case.get('verifier', 'server')
    r = Run(case, rng)
    p = r.p
    db = loop.make_verifier_db()
    if verifier == 'server':
        peer = p.client
        orig = peer._clientKeyExchange

        def _cke(settings, cipherSuite, clientCertChain, privateKey, certificateType, tackExt, clientRandom,
                 serverRandom, keyExchange):
            def process(pub, ske, kx=keyExchange):
                kx.A = k * ske.srp_N
                return numberToByteArray(0)          # S = 0 whatever the verifier is
            keyExchange.processServerKeyExchange = process       # the PEER's own key-exchange object
            return orig(settings, cipherSuite, clientCertChain, privateKey, certificateType, tackExt, clientRandom,
                        serverRandom, keyExchange)
        peer._clientKeyExchange = _cke
        r.send_hook(peer, 'none')
        r.recv_hook(peer)
        pw = b'i do not know the password'
    else:
        peer = p.server

        def bad_b(m):
            if isinstance(m, ServerKeyExchange):
                m.srp_B = k * m.srp_N
            return m
        r.send_hook(peer, 'none', extra=bad_b)
        r.recv_hook(peer)
        pw = b'password'
    co, so = p.handshake(client_kw=dict(username=bytearray(b'test'), password=bytearray(pw), settings=vset(ver)),
                         server_kw=dict(verifierDB=db, settings=vset(ver)), client_kind='srp')
    m = base_model(2 if verifier == 'server' else 1, ver)
    m['kx'] = 2
    m['srp_user'] = list(b'test')
    m['srp_known'] = True
    m['kx_alert'] = 47                            # RFC 5054 2.5.4 / 2.5.3: A % N == 0 (B % N == 0) -> illegal_parameter
    m['a_fin'].append((0 if verifier == 'server' else 1, [11], True))
    m['by_construction'] += ['kx_alert(A or B = 0 mod N)']
    vout, pout = (so, co) if verifier == 'server' else (co, so)
    o = finish(case, p, verifier, vout, pout, m, False, None)
    o['key'] = 'srp'
    o['how'] = '%s=%dN' % ('A' if verifier == 'server' else 'B', k)
    return o


def site_ticket12(case, rng):
    """(7b) TLS <= 1.2 session ticket carrying an SRP user name (/repo 19b1cb2): the name is
    attributed to a resuming peer only after the ticket decrypted and the Finished verified"""
    import copy
    ver, how = tuple(case['ver']), case['how']
    tk = [bytearray(b'\x22' * 32)]
    db = loop.make_verifier_db()
    p0 = loop.Pair()
    if how == 'userless-ticket-with-srp-hello':
        sc, sk = loop.creds('rsa')
        co, so = p0.handshake(client_kw=dict(settings=vset(ver)),
                              server_kw=dict(certChain=sc, privateKey=sk, settings=vset(ver, ticketKeys=tk)))
    else:
        co, so = p0.handshake(client_kw=dict(username=bytearray(b'test'), password=bytearray(b'password'), settings=vset(ver)),
                              server_kw=dict(verifierDB=db, settings=vset(ver, ticketKeys=tk)), client_kind='srp')
    sess = p0.client.session
    if co[0] != 'ok' or not sess.tls_1_0_tickets:
        return {'site': case['site'], 'harness_error': 'no TLS<=1.2 ticket obtained: %r' % (co,), 'case': case}
    r = Run(case, rng)
    p = r.p
    claim = b'test'
    extra = None
    if how == 'wrong-master':                    # the attacker has the opaque ticket, not the master secret
        sess = copy.copy(sess)
        sess.masterSecret = bytearray(48)
    hello_user = b'test'
    if how == 'other-user':                      # ticket of user "test" presented by a hello that names "admin"
        hello_user = b'admin'

        def extra(mm):
            if isinstance(mm, ClientHello):
                e = mm.getExtension(ExtensionType.srp)
                if e is not None:
                    e.identity = bytearray(b'admin')
            return mm
    if how == 'userless-ticket-with-srp-hello':
        claim = b'admin'

        def extra(mm):
            if isinstance(mm, ClientHello):
                mm.addExtension(SRPExtension().create(bytearray(claim)))
            return mm
    r.send_hook(p.client, 'none', extra=extra)
    r.recv_hook(p.client)
    if how == 'userless-ticket-with-srp-hello':
        sc, sk = loop.creds('rsa')
        co, so = p.handshake(client_kw=dict(session=sess, settings=vset(ver)),
                             server_kw=dict(certChain=sc, privateKey=sk, settings=vset(ver, ticketKeys=tk)))
    else:
        co, so = p.handshake(client_kw=dict(username=bytearray(claim), password=bytearray(b'password'), session=sess,
                                            settings=vset(ver)),
                             server_kw=dict(verifierDB=db, settings=vset(ver, ticketKeys=tk)), client_kind='srp')
    if how == 'userless-ticket-with-srp-hello':
        # the ticket is declined: a full certificate handshake follows (flow 2); no SRP name may appear
        m = base_model(2, ver)
        m['kx'] = kx_of(r.cap['suite']) if r.cap['suite'] is not None else 1
        m['srp_user'] = list(claim)
        m['own_chain'] = [CRED_ID['rsa']]
        m['a_fin'].append((0, [11], True))
        o = finish(case, p, 'server', so, co, m, True, None)
        o['srp_unproved'] = o['code'] == 0 and o['ident']['srp'] is not None
        o['key'] = 'rsa'
        return o
    m = base_model(6, ver)
    m['psk'] = 3
    m['ticket_srp'] = list(b'test')
    m['srp_user'] = list(hello_user)
    m['rec_ok'] = how != 'wrong-master'
    m['a_fin'].append((0, [11], how != 'bad-finished'))
    m['by_construction'] += ['fin', 'rec', 'ticket decrypts']
    o = finish(case, p, 'server', so, co, m, how == 'honest', None)
    o['key'] = 'srp-ticket'
    if how == 'honest' and o['code'] == 0 and o['ident']['srp'] != 'test':
        o['expect_accept'] = False               # reported as a lost identity below
        o['lost_identity'] = True
    return o


def site_checker_nochain(case, rng):
    """Checker with an x509Fingerprint and a peer that shows NO certificate: server with reqCert and a client
    without certificate (empty Certificate message), client with an anonymous suite"""
    ver, verifier = tuple(case['ver']), case['verifier']
    r = Run(case, rng)
    p = r.p
    fp = loop.creds('client-rsa' if verifier == 'server' else 'rsa')[0].getFingerprint()
    if verifier == 'server':
        sc, sk = loop.creds('rsa')
        r.send_hook(p.client, 'none')
        r.recv_hook(p.client)
        co, so = p.handshake(client_kw=dict(settings=vset(ver)),
                             server_kw=dict(certChain=sc, privateKey=sk, reqCert=True, checker=Checker(x509Fingerprint=fp),
                                            settings=vset(ver)))
        vout, pout = so, co
        m = base_model(4 if ver == (3, 4) else 2, ver)
        m['req_cert'] = True
        m['own_chain'] = [CRED_ID['rsa']]
        m['cert'] = {'chain': [], 'cert': [], 'key': 0, 'keytype': 'rsa', 'curve_hash': None, 'policy': None, 'dc': []}
        if ver == (3, 4):
            m['prf'] = 'sha384'
        else:
            m['kx'] = kx_of(r.cap['suite']) if r.cap['suite'] is not None else 1
        m['a_fin'].append((3 if ver == (3, 4) else 0, [11], True))
    else:
        r.send_hook(p.server, 'none')
        r.recv_hook(p.server)
        co, so = p.handshake(client_kw=dict(settings=vset(ver), checker=Checker(x509Fingerprint=fp)),
                             server_kw=dict(anon=True, settings=vset(ver)), client_kind='anon')
        vout, pout = co, so
        m = base_model(1, ver)
        m['kx'] = 4
        m['a_fin'].append((1, [11], True))
    m['want'] = [CRED_ID['client-rsa' if verifier == 'server' else 'rsa']]
    o = finish(case, p, verifier, vout, pout, m, False, None)
    o['key'] = 'no-certificate'
    return o


def site_checker_ticket(case, rng):
    """the server's Checker rejects the client certificate of a full handshake; the tickets were already sent.
    The same client then resumes: the call must not return with the rejected chain attributed"""
    ver = tuple(case['ver'])
    tk = [bytearray(b'\x33' * 32)]
    wrong = loop.creds('ecdsa521')[0].getFingerprint()
    cc, ck = loop.creds(case['key'])
    sc, sk = loop.creds('rsa')
    skw = dict(certChain=sc, privateKey=sk, reqCert=True, checker=Checker(x509Fingerprint=wrong),
               settings=vset(ver, ticketKeys=tk))
    p0 = loop.Pair()
    co, so = p0.handshake(client_kw=dict(certChain=cc, privateKey=ck, settings=vset(ver)), server_kw=dict(skw))
    loop.drive([p0.client.readAsync(max=0, min=0)])
    sess = p0.client.session
    first = loop.classify(so)
    if first[0] != 'AuthError':
        return {'site': case['site'], 'harness_error': 'the Checker did not reject the first handshake: %r' % (first,), 'case': case}
    r = Run(case, rng)
    p = r.p
    r.send_hook(p.client, 'none')
    r.recv_hook(p.client)
    if sess is None or not (sess.tickets or sess.tls_1_0_tickets):
        return {'site': case['site'], 'skip': True}
    skw['settings'] = vset(ver, ticketKeys=tk)
    co, so = p.handshake(client_kw=dict(session=sess, settings=vset(ver)), server_kw=skw)
    m = base_model(4 if ver == (3, 4) else 6, ver)
    m['psk'] = 5
    m['ticket_chain'] = [CRED_ID[case['key']]]
    m['own_chain'] = [CRED_ID['rsa']]
    m['prf'] = 'sha384' if ver == (3, 4) else None
    m['a_binder'].append((5, [9], True))
    m['a_fin'].append((3 if ver == (3, 4) else 0, [11], True))
    m['want'] = [CRED_ID['ecdsa521']]
    o = finish(case, p, 'server', so, co, m, False, CRED_ID[case['key']])
    o['checker_bypassed'] = o['code'] == 0 and o['ident']['client'] == CRED_ID[case['key']]
    return o


# ---- post-handshake authentication ---------------------------------------------------------
def site_pha(case, rng):
    """(5) server under test: request_post_handshake_auth, then the client's Certificate /
    CertificateVerify / Finished are processed inside readAsync (_handle_srv_pha)"""
    ver, how, name = (3, 4), case['how'], case['key']
    r = Run(case, rng)
    p = r.p
    chain = loop.creds(name)[0]
    key = peer_key(case, name)
    st = vset(ver)
    sc, sk = loop.creds('rsa')
    co, so = p.handshake(client_kw=dict(certChain=chain, privateKey=key, settings=st),
                         server_kw=dict(certChain=sc, privateKey=sk, settings=vset(ver)))
    if co[0] != 'ok' or so[0] != 'ok':
        return {'site': case['site'], 'harness_error': 'initial handshake failed: %r %r' % (co, so), 'case': case}
    before = ident_of(p.server)['client']
    pha = {'cr': None, 'cert': None}

    def grab_cert(m):
        if isinstance(m, Certificate) or type(m).__name__ == 'CompressedCertificate':
            pha['cert'] = bytes(m.write())
        return m
    r.stale = None
    if how == 'stale':                      # a CertificateVerify signature taken from an earlier, separate PHA exchange
        c2 = dict(case)
        c2['how'] = 'honest'
        c2['seed'] = case['seed'] + 1
        o2 = site_pha(c2, rng)
        r.stale = bytes.fromhex(o2['wire_sig']) if o2.get('wire_sig') else b'\x00' * 64
    r.send_hook(p.client, 'cv', extra=grab_cert)

    def grab_cr(m):
        if isinstance(m, CertificateRequest):
            pha['cr'] = bytes(m.write())
    r.recv_hook(p.client, grab_cr)
    req = loop.drive([p.server.request_post_handshake_auth(vset(ver))])
    cl = loop.drive([p.client.readAsync(max=0, min=0)])
    sv = loop.drive([p.server.readAsync(max=0, min=0)])[0]
    m = base_model(5, ver)
    suite = p.server.session.cipherSuite if p.server.session else None
    prf = 'sha384' if suite in CipherSuite.sha384PrfSuites else 'sha256'
    m['prf'] = prf
    m['cert'] = certmsg(name)
    m['offered'] = r.cap.get('offered') or []
    m['valid'] = valid_list(HandshakeSettings(), chain, ver)
    m['own_chain'] = [CRED_ID['rsa']]
    wire_sig = None
    if r.cap['cv'] is not None and pha['cr'] is not None and pha['cert'] is not None:
        scheme, sig, _ = r.cap['cv']
        wire_sig = sig
        transcript = bytes(p.client._first_handshake_hashes._handshake_buffer) + pha['cr'] + pha['cert']
        sig_answer(m, (scheme, sig, transcript), name, ver, b'client', prf, how == 'honest')
    m['a_fin'].append((4, [11], how != 'bad-finished'))
    m['by_construction'] += ['fin', 'ctx']
    exp = how == 'honest'
    if how.startswith('edge:'):
        exp = bool(m.get('sig_answer'))
    o = finish(case, p, 'server', sv, cl[0], m, exp, CRED_ID[name])
    o['wire_sig'] = wire_sig.hex() if wire_sig else None
    o['pha_before'] = before
    if o['code'] != 0 or True:
        # for PHA "the call" is readAsync; identity must be unchanged (None) unless the proof was honest
        pass
    return o


# ---- delegated credentials -----------------------------------------------------------------
DC_KEYS = {'ed25519': ('serverDelCredEd25519Key.pem', 'serverDelCredEd25519Pub.pem', (8, 7), 101),
           'rsapss': ('serverDelCredRSAPSSKey.pem', 'serverDelCredRSAPSSPub.pem', (8, 9), 102),
           'p256': ('serverDelCredSECP256r1Key.pem', 'serverDelCredSECP256r1Pub.pem', (4, 3), 103),
           'p384': ('serverDelCredSECP384r1Key.pem', 'serverDelCredSECP384r1Pub.pem', (5, 3), 104)}
CERT_SCHEME = {'rsapss': (8, 9), 'ecdsa': (4, 3), 'ed25519': (8, 7), 'bp256': (8, 26), 'rsa': (8, 4), 'rsa-b': (8, 4),
               'ecdsa-b': (4, 3)}


def _load_dc(which):
    import os
    from tlslite.utils.pem import dePem
    from tlslite.api import parsePEMKey
    kf, pf, alg, kid = DC_KEYS[which]
    with open(os.path.join(loop.TESTS, kf)) as f:
        key = parsePEMKey(f.read(), private=True, implementations=['python'])
    with open(os.path.join(loop.TESTS, pf)) as f:
        pub = dePem(f.read(), 'PUBLIC KEY')
    return key, pub, alg, kid


def scheme_sign(key, scheme, data):
    name = SignatureScheme.toRepr(scheme)
    if scheme in ((8, 7), (8, 8)):
        return key.hashAndSign(data, None, 'intrinsic', None)
    if scheme[1] == 3 or 'brainpool' in name:
        return key.hashAndSign(data, None, SignatureScheme.getHash(name), None)
    hn = SignatureScheme.getHash(name)
    return key.hashAndSign(data, SignatureScheme.getPadding(name), hn, getattr(hashlib, hn)().digest_size)


def scheme_verify(pub, scheme, data, sig):
    """signature over the MESSAGE `data` with a TLS 1.3 scheme, by the reference verifiers"""
    import c05_refsig as R
    scheme = tuple(scheme)
    hname, pad = SCHEME_HASH.get(scheme, (None, None))
    if hname is None:
        return False
    if hname == 'intrinsic':
        return R.ref_verify(pub, 'Ed25519', None, None, bytes(data), sig)
    h = hashlib.new(hname, bytes(data)).digest()
    if scheme[1] == 3 or scheme in ((8, 26), (8, 27), (8, 28)):
        return R.ref_verify(pub, 'ecdsa', None, None, h, sig)
    return R.ref_verify(pub, 'rsa', hname, pad or 'pkcs1', h, sig)


def site_dc(case, rng):
    """(6) delegated credential: client under test; both the delegation signature (end-entity
    key) and the CertificateVerify (credential key) must verify, both algorithms offered"""
    ver, how, name, which = (3, 4), case['how'], case['key'], case['dc']
    r = Run(case, rng)
    p = r.p
    chain, ckey = loop.creds(name)
    second = case.get('chain2')
    ee_chain = chain
    if second:                                   # certificate_list = [end-entity `name`, unrelated `second`]
        chain = X509CertChain([chain.x509List[0], loop.creds(second)[0].x509List[0]])
    dkey, dpub, dalg, dkid = _load_dc(which)
    calg = CERT_SCHEME[name]
    issuer_cert_bytes = ee_chain.x509List[0].bytes
    if how in ('chain2-dc-by-last', 'chain2-dc-by-last-over-ee'):
        # the attacker holds only the key of the LAST certificate and issues the credential with it
        ckey = loop.creds(second)[1]
        calg = CERT_SCHEME[second]
        if how == 'chain2-dc-by-last':
            issuer_cert_bytes = loop.creds(second)[0].x509List[0].bytes
    valid_time = 7 * 24 * 3600
    cred_bytes = Credential.marshal(valid_time, dalg, dpub)
    cred = Credential(valid_time=valid_time, dc_cert_verify_algorithm=dalg, subject_public_key_info=dpub, bytes=cred_bytes)
    cert_bytes = ee_chain.x509List[0].bytes
    tbs = b' ' * 64 + b'TLS, server delegated credentials' + b'\x00' + bytes(issuer_cert_bytes) + bytes(cred_bytes) + bytes(calg)
    # what RFC 9345 4.1.3 says must have been signed: the END-ENTITY certificate (entry 0)
    tbs_ee = b' ' * 64 + b'TLS, server delegated credentials' + b'\x00' + bytes(cert_bytes) + bytes(cred_bytes) + bytes(calg)
    signer = P.other_key(name) if how == 'dc-other-key' else ckey
    dsig = bytearray(scheme_sign(signer, calg, bytearray(tbs)))
    if how == 'dc-flip':
        dsig[rng.randrange(len(dsig))] ^= 1 << rng.randrange(8)
    if how == 'dc-empty':
        dsig = bytearray()
    del_cred = DelegatedCredential(cred=cred, algorithm=calg, signature=dsig)
    cv_key = dkey
    if how == 'cv-other-key':               # the server does not hold the credential's private key
        cv_key = _load_dc('p384' if which == 'p256' else 'p256' if which == 'p384' else which)[0] if which in ('p256', 'p384') else P.KeyProxy(dkey, 'other-msg')
    if how == 'cv-other-msg':
        cv_key = P.KeyProxy(dkey, 'other-msg')
    c2 = dict(case)
    c2['how'] = {'cv-flip': 'flip', 'cv-empty': 'empty'}.get(how, 'none')
    r.case = c2
    move_ext = None
    if how == 'dc-on-entry1':                    # the credential extension travels on a non-end-entity entry
        def move_ext(mm):
            if isinstance(mm, Certificate) and len(mm.certificate_list) > 1:
                e0, e1 = mm.certificate_list[0], mm.certificate_list[1]
                e1.extensions = list(e1.extensions or []) + list(e0.extensions or [])
                e0.extensions = []
            return mm
    r.send_hook(p.server, 'cv', extra=move_ext)
    forced = None
    if how == 'dc-alg-forced':         # the server believes the client offered the credential's algorithm
        def forced(mm):
            if isinstance(mm, ClientHello):
                e = mm.getExtension(ExtensionType.delegated_credential)
                if e is not None:
                    e.sigalgs = [tuple(dalg)] + [tuple(x) for x in e.sigalgs]
    r.recv_hook(p.server, forced)
    dc_offer = [(8, 9), (8, 7), (4, 3), (5, 3)]
    vs = {}
    if how in ('dc-alg-not-offered', 'dc-alg-forced'):
        dc_offer = [x for x in dc_offer if x != dalg] or [(8, 9)]
    cst = vset(ver, dc_sig_algs=dc_offer, **vs)
    co, so = p.handshake(client_kw=dict(settings=cst),
                         server_kw=dict(certChain=chain, privateKey=None, dc_key=cv_key, del_cred=del_cred,
                                        settings=vset(ver, **({'certificate_compression_send': []} if move_ext else {}))))
    m = base_model(3, ver)
    suite = r.cap['suite']
    prf = 'sha384' if suite in CipherSuite.sha384PrfSuites else 'sha256'
    m['prf'] = prf
    used_dc = r.cap['cv'] is not None and tuple(r.cap['cv'][0]) == tuple(dalg) and how != 'dc-alg-not-offered'
    d = {'cred': bytes(cred_bytes), 'key': dkid, 'curve_hash': {(4, 3): 'sha256', (5, 3): 'sha384'}.get(dalg), 'cv_alg': dalg,
         'alg': calg, 'sig': [7] if dsig else []}
    cm = certmsg(name, dcs=[d] if how != 'dc-alg-not-offered' else [])
    cm['cert'] = bytes(cert_bytes)
    if second:
        sec_bytes = bytes(loop.creds(second)[0].x509List[0].bytes)
        on1 = how == 'dc-on-entry1'
        cm['entries'] = [{'id': CRED_ID[name], 'cert': bytes(cert_bytes), 'key': CRED_ID[name], 'dc': [] if on1 else [d]},
                         {'id': CRED_ID[second], 'cert': sec_bytes, 'key': CRED_ID[second], 'dc': [d] if on1 else []}]
    m['cert'] = cm
    m['offered'] = r.cap.get('offered') or []
    m['dc_offered'] = r.cap.get('dc_offered') or []
    m['valid'] = valid_list(cst, ee_chain, ver)
    pub = chain.getEndEntityPublicKey()
    m['a_sig'].append((CRED_ID[name], tbs_ee, scheme_verify(pub, calg, tbs_ee, dsig)))
    if r.cap['cv'] is not None:
        scheme, sig, transcript = r.cap['cv']
        m['cv'] = (tuple(scheme), [7])
        vb, de, he = spec_verify_bytes(ver, transcript, scheme, b'server', prf, None)
        for (n, dg) in de:
            m['a_digest'].append(([10], n, dg))
        m['a_hash'] += he
        if vb is not None:
            from tlslite.x509 import Credential as _C
            dpk = cred
            dpk.parse_pub_key()
            vpub = dpk.pub_key if tuple(scheme) == tuple(dalg) else pub
            kt = {(8, 7): 'Ed25519', (8, 9): 'rsa-pss', (4, 3): 'ecdsa', (5, 3): 'ecdsa'}.get(tuple(scheme), keytype_of(chain))
            ans = P.pubkey_verify(vpub, ver, tuple(scheme), bytearray(vb), sig, kt)
            m['a_sig'].append((dkid if tuple(scheme) == tuple(dalg) else CRED_ID[name], vb, ans))
    m['a_fin'].append((2, [11], True))
    honest = how in ('honest', 'chain2-honest')
    o = finish(case, p, 'client', co, so, m, honest, CRED_ID[name])
    o['how'] = how
    o['dc_expected'] = honest
    return o


def extra_cases(quick=False):
    out = []
    for ver in [(3, 1), (3, 2), (3, 3)]:
        out.append(dict(runner='srp_unproved', site='srp-unproved', ver=ver, how='honest'))
        for how in ['honest', 'wrong-password', 'unknown-user', 'bad-finished']:
            out.append(dict(runner='srp', site='srp', ver=ver, how=how, verifier='server'))
        for how in ['honest', 'wrong-password', 'bad-finished']:
            out.append(dict(runner='srp', site='srp-client', ver=ver, how=how, verifier='client'))
        for key in ['rsa']:            # SRP_SHA_RSA suites only
            for how in ['honest', 'other-key', 'flip', 'empty', 'stale', 'other-msg', 'bad-finished', 'replay-ske']:
                out.append(dict(runner='cert', site='srp-cert', ver=ver, verifier='client', key=key, how=how, target='ske', srp=True))
    for how in ['honest', 'wrong-psk', 'flip-binder', 'bad-finished']:
        out.append(dict(runner='psk', site='psk', ver=(3, 4), how=how, verifier='server'))
    for how in ['honest', 'wrong-psk', 'bad-finished']:
        out.append(dict(runner='psk', site='psk-client', ver=(3, 4), how=how, verifier='client'))
    for key in ['client-rsa', 'client-ecdsa']:
        for how in ['honest', 'flip-binder', 'bad-finished']:
            out.append(dict(runner='ticket', site='ticket', ver=(3, 4), key=key, how=how))
        for how in ['hash-change', 'expired']:
            for rq in (False, True):
                out.append(dict(runner='ticket_replay', site='ticket-replay', ver=(3, 4), key=key, how=how, req_cert=rq))
    for ver in [(3, 1), (3, 3), (3, 4)]:
        out.append(dict(runner='checker_nochain', site='checker-nochain', ver=ver, how='no-certificate', verifier='server'))
        if ver != (3, 4):
            out.append(dict(runner='checker_nochain', site='checker-nochain', ver=ver, how='anonymous-suite', verifier='client'))
    for ver in [(3, 3), (3, 4)]:
        for key in ['client-rsa', 'client-ecdsa']:
            out.append(dict(runner='checker_ticket', site='checker-ticket', ver=ver, key=key, how='rejected-then-resumed'))
    for ver in [(3, 1), (3, 3)]:
        for how in ['honest', 'wrong-master', 'other-user', 'bad-finished', 'userless-ticket-with-srp-hello']:
            out.append(dict(runner='ticket12', site='srp-ticket', ver=ver, how=how))
    for ver in [(3, 1), (3, 3)]:
        for k in (0, 1, 2, 3):
            out.append(dict(runner='srp_multiple', site='srp-A-multiple', ver=ver, how='A=kN', k=k, verifier='server'))
            out.append(dict(runner='srp_multiple', site='srp-B-multiple', ver=ver, how='B=kN', k=k, verifier='client'))
    for key in ['client-rsa', 'client-ecdsa', 'client-ed25519']:
        for how in ['honest', 'other-key', 'other-msg', 'omit', 'flip', 'empty', 'short', 'zero', 'stale', 'bad-finished']:
            out.append(dict(runner='pha', site='pha', ver=(3, 4), key=key, how=how))
    for ki, key in enumerate(['rsapss', 'ecdsa', 'ed25519', 'bp256']):
        whiches = ['ed25519', 'rsapss', 'p256', 'p384']
        if quick:                               # every credential type twice, every certificate type twice
            whiches = [whiches[ki % 4], whiches[(ki + 1) % 4]]
        for which in whiches:
            for how in ['honest', 'dc-flip', 'dc-other-key', 'dc-empty', 'cv-flip', 'cv-other-msg', 'cv-empty', 'dc-alg-not-offered', 'dc-alg-forced']:
                out.append(dict(runner='dc', site='dc', ver=(3, 4), key=key, dc=which, how=how))
    # multi-certificate chains: the delegation must be by the END-ENTITY key (entry 0), whatever follows it
    for name, second in [('rsa', 'rsa-b'), ('ecdsa', 'ecdsa-b'), ('ed25519', 'rsa-b'), ('rsapss', 'ecdsa-b')]:
        for which in (['ed25519'] if quick else ['ed25519', 'p256', 'rsapss']):
            for how in ['chain2-honest', 'chain2-dc-by-last', 'chain2-dc-by-last-over-ee', 'dc-on-entry1']:
                out.append(dict(runner='dc', site='dc-chain', ver=(3, 4), key=name, chain2=second, dc=which, how=how))
    return out


SITES = {'cert': site_cert, 'srp': site_srp, 'srp_unproved': site_srp_unproved, 'psk': site_psk, 'pha': site_pha, 'ticket': site_ticket, 'ticket12': site_ticket12, 'checker_nochain': site_checker_nochain, 'checker_ticket': site_checker_ticket, 'ticket_replay': site_ticket_replay, 'srp_multiple': site_srp_multiple,
         'dc': site_dc}



def run_case(case):
    rng = random.Random(case['seed'])
    try:
        return SITES[case['runner']](case, rng)
    except Exception:   # noqa  a harness failure is reported, never hidden
        import traceback
        return {'site': case['site'], 'harness_error': traceback.format_exc(),
                'case': {k: v for k, v in case.items() if not k.startswith('_')}}
