"""C08: peer-controlled strings that reach a regular expression (or another super-linear scan).

Two parts.

A. regex_sites(repo): every call of re.match/search/fullmatch/sub/subn/split/findall/finditer/compile in
   <repo>/tlslite, found in the syntax tree on every run (pattern and flags as written at the call site).
   site_worker(site) feeds each pattern its own pathological families, derived from the pattern's alphabet
   (long runs of one character class, alternations of two, each followed by a "breaker" that makes the overall
   match fail), at growing lengths up to the largest field a TLS message can carry (2^16-1), and measures the
   CPU time of the very call the code makes.  The work must stay linear in the length of the input:
        cpu(n) <= RX_C0 + RX_C * n
   (a linear scan costs 10-100 ns per character; the allowance is 20 microseconds per character).  On a violation
   the time at the previous lengths is reported too (doubling per added character = exponential).
   This needs no handshake and no Coq: it is part of the direct oracle.

B. string_cases(...): live ClientHello / ServerHello messages (c08_fuzz cases, mutation `set-ext`) whose
   server_name, ALPN, SRP user name, session ticket and PSK identity carry the same families, at lengths up to the
   field maximum; the ordinary oracle of c08_fuzz applies (documented exception, alert, closed, CPU time of
   the whole call bounded in terms of the honest handshake and the input length, CPU-time watchdog).
"""
import ast
import os
import re
import signal
import time

RX_C0 = 0.02            # CPU seconds
RX_C = 2e-5             # CPU seconds per character
RX_CALL_LIMIT = 10      # CPU seconds after which a single call is interrupted
LADDER = [8, 12, 16, 18, 20, 22, 24, 26, 28, 32, 48, 64, 128, 256, 1024, 4096, 16384, 65535]
RE_FUNCS = ('match', 'search', 'fullmatch', 'sub', 'subn', 'split', 'findall', 'finditer', 'compile')


def _const(node, consts):
    if isinstance(node, ast.Constant) and isinstance(node.value, (str, bytes)):
        return node.value
    if isinstance(node, ast.Name) and node.id in consts:
        return consts[node.id]
    try:
        v = ast.literal_eval(node)
        if isinstance(v, (str, bytes)):
            return v
    except Exception:  # noqa
        pass
    if isinstance(node, ast.BinOp) and isinstance(node.op, ast.Add):
        a, b = _const(node.left, consts), _const(node.right, consts)
        if a is not None and b is not None and type(a) is type(b):
            return a + b
    return None


def _flags(node):
    if node is None:
        return 0
    try:
        return int(eval(compile(ast.Expression(node), '<flags>', 'eval'), {'re': re, '__builtins__': {}}))
    except Exception:  # noqa
        return None


def regex_sites(repo):
    """[(relative file, line, enclosing function, re function, pattern or None, flags or None)]"""
    out = []
    base = os.path.join(repo, 'tlslite')
    for dirpath, dirs, files in os.walk(base):
        dirs.sort()
        for fn in sorted(files):
            if not fn.endswith('.py'):
                continue
            path = os.path.join(dirpath, fn)
            with open(path, 'rb') as f:
                src = f.read()
            if b're' not in src:
                continue
            try:
                tree = ast.parse(src)
            except SyntaxError:
                continue
            re_names, direct = set(), {}
            for n in ast.walk(tree):
                if isinstance(n, ast.Import):
                    for a in n.names:
                        if a.name == 're':
                            re_names.add(a.asname or 're')
                elif isinstance(n, ast.ImportFrom) and n.module == 're':
                    for a in n.names:
                        direct[a.asname or a.name] = a.name
            if not re_names and not direct:
                continue
            consts = {}
            for n in tree.body:
                if isinstance(n, ast.Assign) and len(n.targets) == 1 and isinstance(n.targets[0], ast.Name):
                    v = _const(n.value, consts)
                    if v is not None:
                        consts[n.targets[0].id] = v

            def visit(node, func):
                for ch in ast.iter_child_nodes(node):
                    f2 = ch.name if isinstance(ch, (ast.FunctionDef, ast.AsyncFunctionDef)) else func
                    if isinstance(ch, ast.Call):
                        name = None
                        if isinstance(ch.func, ast.Attribute) and isinstance(ch.func.value, ast.Name) \
                                and ch.func.value.id in re_names and ch.func.attr in RE_FUNCS:
                            name = ch.func.attr
                        elif isinstance(ch.func, ast.Name) and direct.get(ch.func.id) in RE_FUNCS:
                            name = direct[ch.func.id]
                        if name is not None and ch.args:
                            pat = _const(ch.args[0], consts)
                            fl = None
                            for kw in ch.keywords:
                                if kw.arg == 'flags':
                                    fl = kw.value
                            npos = {'sub': 4, 'subn': 4, 'split': 3}.get(name, 2)
                            if fl is None and len(ch.args) > npos:
                                fl = ch.args[npos]
                            if name == 'compile':
                                # which methods of the compiled object does the code call?  (X = re.compile(..); X.match(..))
                                var = None
                                if isinstance(node, ast.Assign) and len(node.targets) == 1:
                                    tg = node.targets[0]
                                    var = tg.id if isinstance(tg, ast.Name) else tg.attr if isinstance(tg, ast.Attribute) else None
                                used = set()
                                if var is not None:
                                    for m in ast.walk(tree):
                                        if isinstance(m, ast.Call) and isinstance(m.func, ast.Attribute) \
                                                and m.func.attr in RE_FUNCS[:-1] \
                                                and ((isinstance(m.func.value, ast.Name) and m.func.value.id == var) or
                                                     (isinstance(m.func.value, ast.Attribute) and m.func.value.attr == var)):
                                            used.add(m.func.attr)
                                name = 'compile:' + ','.join(sorted(used) or ['match', 'search', 'fullmatch'])
                            out.append((os.path.relpath(path, repo), ch.lineno, func, name, pat, _flags(fl)))
                    visit(ch, f2)
            visit(tree, '<module>')
    return out


def _alphabet(pat):
    """characters worth repeating for this pattern: its own literals plus one representative of each class"""
    text = pat if isinstance(pat, str) else pat.decode('latin-1')
    lits = [c for c in text if c.isalnum() or c in '.-_ :/@=,;']
    base = ['1', 'a', 'A', '.', '-', ' ', '\t', '\n', '_', ':', '/', '@', '\x00', '\xe9']
    seen, out = set(), []
    for c in base + lits:
        if c not in seen:
            seen.add(c)
            out.append(c)
    return out[:24]


BREAKERS = ['', '!', 'x', '.', '\n', ' ', '1']
PAIR_ALPHABET = ['1', 'a', '.', '-', ' ']


def families(pat):
    """[(description, unit, breaker)]: the input of length n is (unit repeated)[:n-len(breaker)] + breaker"""
    out = []
    for c in _alphabet(pat):
        for b in BREAKERS:
            if b != c:
                out.append(('%r*n+%r' % (c, b), c, b))
    for c in PAIR_ALPHABET:
        for d in PAIR_ALPHABET:
            if c != d:
                for b in ('', '!', 'x'):
                    out.append(('%r*(n/2)+%r' % (c + d, b), c + d, b))
    return out


def build(unit, breaker, n):
    m = max(0, n - len(breaker))
    return (unit * (m // len(unit) + 1))[:m] + breaker


class _Interrupted(BaseException):
    pass


def _calls(fn, rx):
    if fn.startswith('compile:'):
        out = []
        for m in fn[8:].split(','):
            out += _calls(m, rx)
        return out
    if fn in ('sub', 'subn'):
        return [(fn, lambda s: getattr(rx, fn)(s[:0], s))]
    if fn == 'finditer':
        return [(fn, lambda s: list(rx.finditer(s)))]
    return [(fn, getattr(rx, fn))]


def site_worker(site):
    """-> dict(site=..., problems=[(key, text, detail)], calls=int, unanalysed=str or None)"""
    path, line, func, fn, pat, flags = site
    res = dict(site=site, problems=[], calls=0, unanalysed=None)
    if pat is None or flags is None:
        res['unanalysed'] = 'pattern or flags are not constants at the call site'
        return res
    try:
        rx = re.compile(pat, flags)
    except re.error as e:
        res['unanalysed'] = 're.compile fails: %s' % e
        return res
    is_bytes = isinstance(pat, bytes)

    def on_alarm(signum, frame):
        raise _Interrupted()
    old = signal.signal(signal.SIGVTALRM, on_alarm)
    try:
        for cname, call in _calls(fn, rx):
            bad = 0
            for desc, unit, br in families(pat):
                if bad >= 3:
                    break
                hist = []
                for n in LADDER:
                    s = build(unit, br, n)
                    if is_bytes:
                        s = s.encode('latin-1')
                    limit = RX_C0 + RX_C * n
                    signal.setitimer(signal.ITIMER_VIRTUAL, RX_CALL_LIMIT)
                    t0 = time.process_time()
                    try:
                        call(s)
                        t = time.process_time() - t0
                        cut = False
                    except _Interrupted:
                        t = time.process_time() - t0
                        cut = True
                    except Exception:  # noqa  (e.g. str pattern on odd input: not a work question)
                        t = time.process_time() - t0
                        cut = False
                    finally:
                        signal.setitimer(signal.ITIMER_VIRTUAL, 0)
                    res['calls'] += 1
                    hist.append((n, t))
                    if t > limit or cut:
                        bad += 1
                        shown = ', '.join('%d: %.4fs' % h for h in hist[-4:])
                        res['problems'].append((
                            'regex-work:%s:%s:%s' % (os.path.basename(path), func, pat if isinstance(pat, str) else pat.decode('latin-1')),
                            're.%s(%r) in %s (%s line %d): input %s with n=%d %s %.3f CPU-seconds (allowance %.4f = %.2f + %.0e*n; '
                            'CPU time by length: %s): the work is not linear in the length of the input'
                            % (cname, pat, func, path, line, desc, n,
                               'was interrupted after' if cut else 'took', t, limit, RX_C0, RX_C, shown),
                            dict(pattern=repr(pat), flags=flags, call=cname, unit=unit, breaker=br, n=n,
                                 input_repr=repr(s if len(s) <= 80 else s[:40]) + ('' if len(s) <= 80 else '...(%d chars)' % len(s)),
                                 cpu_by_length=hist)))
                        break
    finally:
        signal.setitimer(signal.ITIMER_VIRTUAL, 0)
        signal.signal(signal.SIGVTALRM, old)
    return res


# ------------------------------------------------------------------------------------------------------------
# B. live string fields

# (unit, breaker) of the live families: long runs of one character class followed by a breaker
LIVE_FAMILIES = [('1', 'x'), ('a', '!'), ('.', 'x'), ('-', 'a'), ('1.', 'x'), (' ', 'x'), ('a.', '.'), ('1', '')]
FIELD_MAX = {'sni': 60000, 'alpn': 60000, 'srp': 255, 'ticket': 60000, 'psk': 60000}   # the other extensions must fit in the 2^16-1 block too


def field_body(kind, unit, breaker, n):
    """extension body (bytes) carrying the string; the string itself is returned too"""
    def u16(v):
        return bytes([(v >> 8) & 0xff, v & 0xff])
    n = min(n, FIELD_MAX[kind])
    if kind == 'sni':
        s = build(unit, breaker, n) + '.example.com'
        name = s.encode('latin-1')
        return u16(len(name) + 3) + b'\x00' + u16(len(name)) + name, s
    if kind == 'alpn':
        # a list of protocol names of up to 255 bytes each, n bytes in total
        names, left = [], n
        while left > 1:
            k = min(255, left - 1)
            names.append(build(unit, breaker, k).encode('latin-1'))
            left -= k + 1
        body = b''.join(bytes([len(x)]) + x for x in names)
        return u16(len(body)) + body, '%d names like %r' % (len(names), names[0][:20] if names else b'')
    if kind == 'srp':
        s = build(unit, breaker, n).encode('latin-1')
        return bytes([len(s)]) + s, s.decode('latin-1')
    if kind == 'ticket':
        s = build(unit, breaker, n).encode('latin-1')
        return s, s.decode('latin-1')
    if kind == 'psk':
        s = build(unit, breaker, n).encode('latin-1')
        ids = u16(len(s)) + s + b'\x00\x00\x00\x00'
        binders = bytes([32]) + bytes(32)
        return u16(len(ids)) + ids + u16(len(binders)) + binders, s.decode('latin-1')
    raise ValueError(kind)


FIELD_EXT = {'sni': 0, 'alpn': 16, 'srp': 12, 'ticket': 35, 'psk': 41}
# (flavour, role under test, handshake type of the peer's message, fields)
LIVE_TARGETS = [
    ('tls12-ecdhe', 'server', 1, ('sni', 'alpn', 'srp', 'ticket')),
    ('tls13-rsa', 'server', 1, ('sni', 'alpn', 'psk', 'ticket')),
    ('tls12-ecdhe', 'client', 2, ('alpn',)),
]


def live_lengths(kind, quick):
    top = FIELD_MAX[kind]
    if kind == 'sni':
        # names longer than 253 characters are a separate class (rejected by length): keep both sides
        ls = [30, 60, 240, top] if quick else [24, 28, 30, 40, 60, 120, 240, 1000, 16000, top]
    else:
        ls = [60, top] if quick else [30, 60, 240, 1000, 16000, top]
    return sorted(set(min(x, top) for x in ls))


def string_cases(rng, profiles, flavour_names, quick):
    out = []
    for fname, role, htype, fields in LIVE_TARGETS:
        if fname not in flavour_names:
            continue
        fi = flavour_names.index(fname)
        base, pts = profiles.get((fi, role), ({}, []))
        hit = [p for p in pts if p[0] == 'msg' and p[2] == 22 and p[3] == htype and p[4] == 'hs']
        if not hit:
            continue
        for kind in fields:
            fams = LIVE_FAMILIES
            for k, (unit, br) in enumerate(fams):
                for n in live_lengths(kind, quick):
                    out.append(dict(flavour=fi, role=role, seed=rng.randrange(1 << 30), level='msg',
                                    mut=('set-ext', FIELD_EXT[kind], kind, unit, br, n), phase='hs', target=hit[0][1],
                                    tsel=0.0, mem=False, close_socket=(k % 2 == 0), strings=True,
                                    base=dict(calls=base.get('calls', 0), peak=base.get('peak', 0),
                                              cpu=base.get('cpu', 0.0))))
    return out
