"""C14 helpers: scripted sockets that mirror coq/Model/C14_Transport.v exactly, runners for the
real RecordSocket / BufferedSocket / Defragmenter, Gallina literals for the cases, and the
system-level machinery (per-endpoint deterministic randomness, schedules, on-path re-framer,
AsyncStateMachine and blocking-API drivers)."""
import errno
import itertools
import random
import socket
import threading

from vlib import blit, zlit, boollit, listlit

EWB = errno.EWOULDBLOCK


class ScriptExhausted(Exception):
    """The script has no more events: the model's outcome is Pending."""


class ScriptSock(object):
    """Socket whose behaviour is a script (same semantics as raw_recv / Accept/SFail in Coq).
    recv events: ('D', bytes) | ('E',) | ('F', errno);  send events: ('A', k) | ('F', errno)."""

    def __init__(self, rscript=None, sscript=None):
        self.r = list(rscript or [])
        self.s = list(sscript or [])
        self.wire = bytearray()
        self.req = []               # sizes asked of recv

    def recv(self, n):
        self.req.append(n)
        if not self.r:
            raise ScriptExhausted()
        ev = self.r[0]
        if ev[0] == 'D':
            c = ev[1]
            if len(c) <= n:
                self.r.pop(0)
                return bytes(c)
            self.r[0] = ('D', c[n:])
            return bytes(c[:n])
        self.r.pop(0)
        if ev[0] == 'E':
            return b''
        raise socket.error(ev[1], 'scripted')

    def send(self, data):
        if not self.s:
            raise ScriptExhausted()
        ev = self.s.pop(0)
        if ev[0] == 'A':
            k = min(max(ev[1], 0), len(data))
            self.wire += bytes(data[:k])
            return k
        raise socket.error(ev[1], 'scripted')

    def sendall(self, data):
        """socket.sendall: loop until done; any error (would-block included) is raised."""
        data = bytes(data)
        while True:
            k = self.send(data)
            if k == len(data):
                return None
            data = data[k:]


# ------------------------------------------------------------------------------------------
# literals
def rev_lit(ev):
    if ev[0] == 'D':
        return 'Data %s' % blit(ev[1])
    if ev[0] == 'E':
        return 'Eof'
    return 'Fail %s' % zlit(ev[1])


def sev_lit(ev):
    if ev[0] == 'A':
        return 'Accept %s' % zlit(ev[1])
    return 'SFail %s' % zlit(ev[1])


def exc_lit(e):
    kind = e[0]
    if kind == 'sock':
        return '(SockError %s)' % zlit(e[1])
    if kind == 'other':
        return '(SockError (-999))'        # not a model outcome: can never agree
    return {'abrupt': 'AbruptClose', 'overflow': 'RecordOverflow', 'illegal': 'IllegalParameter',
            'value': 'ValueErr'}[kind]


def header_lit(h):
    return ('{| h_ssl2 := %s; h_type := %s; h_vmaj := %s; h_vmin := %s; h_len := %s; h_pad := %s; h_esc := %s |}'
            % (boollit(h['ssl2']), zlit(h['type']), zlit(h['ver'][0]), zlit(h['ver'][1]), zlit(h['len']),
               zlit(h['pad']), boollit(h['esc'])))


def outcome_lit(o, done_lit):
    if o[0] == 'done':
        return '(Done %s)' % done_lit
    if o[0] == 'pending':
        return 'Pending'
    return '(Raised %s)' % exc_lit(o[1])


def classify_exc(e):
    from tlslite import errors as te
    if isinstance(e, te.TLSAbruptCloseError):
        return ('abrupt',)
    if isinstance(e, te.TLSRecordOverflow):
        return ('overflow',)
    if isinstance(e, te.TLSIllegalParameterException):
        return ('illegal',)
    if isinstance(e, socket.error):
        return ('sock', e.args[0] if e.args else -1)
    if isinstance(e, ValueError):
        return ('value',)
    return ('other', type(e).__name__, str(e)[:100])


# ------------------------------------------------------------------------------------------
# unit level: receive
def impl_recv(case):
    """Run the real RecordSocket (optionally over the real BufferedSocket) over the script.
    Returns dict(y, out, records, rbuf, rest, yield_vals_ok)."""
    from tlslite.recordlayer import RecordSocket
    from tlslite.bufferedsocket import BufferedSocket
    sock = ScriptSock(rscript=case['script'])
    base = BufferedSocket(sock) if case['buffered'] else sock
    rs = RecordSocket(base)
    rs.recv_record_limit = case['limit']
    rs.tls13record = case['tls13']
    y = 0
    yv_ok = True
    records = []
    out = ('done',)
    for _ in range(case['k']):
        res = None
        try:
            steps = 0
            for r in rs.recv():
                if isinstance(r, int):
                    y += 1
                    yv_ok = yv_ok and r == 0
                    steps += 1
                    if steps > 100000:
                        raise RuntimeError('no termination')
                else:
                    res = r
                    break
        except ScriptExhausted:
            out = ('pending',)
            break
        except Exception as e:  # noqa
            out = ('raised', classify_exc(e))
            break
        hdr, buf = res
        records.append((dict(ssl2=bool(hdr.ssl2), type=hdr.type, ver=tuple(hdr.version), len=hdr.length,
                             pad=getattr(hdr, 'padding', 0), esc=bool(getattr(hdr, 'securityEscape', False))),
                        bytes(buf)))
    rbuf = bytes(base._read_buffer) if case['buffered'] else b''
    return dict(y=y, out=out, records=records, rbuf=rbuf, rest=list(sock.r), yv_ok=yv_ok, req=sock.req)


def recv_case_lit(case, impl):
    recs = listlit(impl['records'], lambda r: '(%s, %s)' % (header_lit(r[0]), blit(r[1])))
    return '(%s, %s, %s, %d%%nat, %s, (%s, %s, %s, %s))' % (
        boollit(case['buffered']), zlit(case['limit']), boollit(case['tls13']), case['k'],
        listlit(case['script'], rev_lit),
        zlit(impl['y']), outcome_lit(impl['out'], recs), blit(impl['rbuf']), listlit(impl['rest'], rev_lit))


def flatten(script):
    """Byte stream + terminal carried by a receive script (Python twin of Coq's flatten)."""
    d = bytearray()
    for ev in script:
        if ev[0] == 'D':
            if len(ev[1]) == 0:
                return bytes(d), ('eof',)
            d += ev[1]
        elif ev[0] == 'E':
            return bytes(d), ('eof',)
        elif ev[1] in (errno.EWOULDBLOCK, errno.EAGAIN):
            continue
        else:
            return bytes(d), ('fail', ev[1])
    return bytes(d), ('open',)


def canon(stream):
    d, t = stream
    s = [('D', d)] if d else []
    if t[0] == 'eof':
        s.append(('E',))
    elif t[0] == 'fail':
        s.append(('F', t[1]))
    return s


def spec_recv(stream, limit, tls13, k):
    """The property's own reading: parse k records straight from the byte stream."""
    d, t = stream
    pos = 0
    records = []

    class Short(Exception):
        pass

    def take(n):
        nonlocal pos
        if pos + n > len(d):
            raise Short()
        r = d[pos:pos + n]
        pos += n
        return r

    try:
        for _ in range(k):
            b0 = take(1)[0]
            if b0 in (20, 21, 22, 23, 24):
                r = take(4)
                h = dict(ssl2=False, type=b0, ver=(r[0], r[1]), len=r[2] * 256 + r[3], pad=0, esc=False)
            else:
                if b0 & 0x80:
                    r = take(1)
                    h = dict(ssl2=True, type=22, ver=(2, 0), len=((b0 & 0x7f) << 8) | r[0], pad=0, esc=False)
                else:
                    r = take(2)
                    h = dict(ssl2=True, type=22, ver=(2, 0), len=((b0 & 0x3f) << 8) | r[0], pad=r[1],
                             esc=bool(b0 & 0x40))
                if h['pad'] > h['len'] or (h['pad'] and h['len'] % 8):
                    return ('raised', ('illegal',)), records, pos
            if h['len'] > limit + 2048 or (tls13 and h['len'] > limit + 256):
                return ('raised', ('overflow',)), records, pos
            records.append((h, bytes(take(h['len']))))
    except Short:
        if t[0] == 'open':
            return ('pending',), records, pos
        if t[0] == 'eof':
            return ('raised', ('abrupt',)), records, pos
        return ('raised', ('sock', t[1])), records, pos
    return ('done',), records, pos


def gen_record_bytes(rng, kind=None):
    """One record as bytes (well-formed or boundary / malformed header)."""
    kind = kind or rng.choice(['tls', 'tls', 'tls', 'tls', 'ssl2short', 'ssl2long', 'zero', 'junk'])
    if kind == 'tls':
        n = rng.choice([0, 1, 2, 5, 17, 64, rng.randrange(0, 300)])
        return bytes([rng.choice([20, 21, 22, 23, 24]), 3, rng.randrange(0, 5), n >> 8, n & 255]) + rbytes(rng, n)
    if kind == 'zero':
        return bytes([rng.choice([20, 21, 22, 23, 24]), 3, 3, 0, 0])
    if kind == 'ssl2short':
        n = rng.choice([0, 3, 9, rng.randrange(0, 200)])
        return bytes([0x80 | (n >> 8), n & 255]) + rbytes(rng, n)
    if kind == 'ssl2long':
        n = rng.choice([8, 16, 24, rng.randrange(0, 200)])
        pad = rng.choice([0, 0, 1, 8, n, n + 1, rng.randrange(256)])
        first = (n >> 8) | rng.choice([0, 0x40])
        if first in (20, 21, 22, 23, 24):
            first = 0
        return bytes([first, n & 255, pad]) + rbytes(rng, n)
    n = rng.randrange(0, 40)
    b0 = rng.choice([0, 1, 19, 25, 0x7f, 0x80, 0xff])
    return bytes([b0]) + rbytes(rng, n)


def rbytes(rng, n):
    return bytes(rng.getrandbits(8) for _ in range(n))


def cut(rng, data, style):
    """Cut a byte string into chunks."""
    if not data:
        return []
    if style == 'one':
        return [data]
    if style == 'bytes':
        return [data[i:i + 1] for i in range(len(data))]
    out, i = [], 0
    while i < len(data):
        k = rng.choice([1, 1, 2, 3, 5, 8, 64, 5000]) if style == 'rand' else rng.randrange(1, 6)
        out.append(data[i:i + k])
        i += k
    return out


def gen_recv_case(rng, big=False):
    k = rng.choice([1, 1, 2, 3])
    tls13 = rng.random() < 0.3
    limit = rng.choice([16384, 16384, 64, 256])
    recs = [gen_record_bytes(rng) for _ in range(k)]
    r = rng.random()
    if r < 0.25:
        # length boundaries around the limits; the body is only supplied when it is short enough
        L = rng.choice([limit + 2048, limit + 2049, limit + 256, limit + 257, limit + 255, limit, 65535])
        body = rbytes(rng, L) if (L < 3000 and (big or L < 600)) else rbytes(rng, rng.randrange(0, 10))
        recs[rng.randrange(k)] = bytes([rng.choice([21, 22, 23]), 3, 3, L >> 8, L & 255]) + body
    data = b''.join(recs)
    if rng.random() < 0.3:
        data += rbytes(rng, rng.randrange(1, 9))            # start of the next record
    if rng.random() < 0.35 and data:
        data = data[:rng.randrange(0, len(data))]           # truncated stream
    chunks = cut(rng, data, rng.choice(['one', 'bytes', 'rand', 'small', 'rand']))
    script = []
    wb_style = rng.choice(['none', 'every', 'rand', 'rand'])
    for c in chunks:
        nwb = {'none': 0, 'every': rng.choice([1, 3]), 'rand': rng.choice([0, 0, 1, 2])}[wb_style]
        script += [('F', rng.choice([errno.EWOULDBLOCK, errno.EAGAIN]))] * nwb
        script.append(('D', c))
    term = rng.choice(['open', 'open', 'eof', 'eof', 'fail', 'emptydata', 'wbtail'])
    if term == 'eof':
        script.append(('E',))
    elif term == 'fail':
        script.append(('F', rng.choice([errno.ECONNRESET, errno.EPIPE, errno.EINTR, errno.ETIMEDOUT, 0, 1])))
    elif term == 'emptydata':
        script.append(('D', b''))
    elif term == 'wbtail':
        script += [('F', EWB)] * rng.choice([1, 4])
    if rng.random() < 0.15 and script:
        # a terminal event in the middle of the data
        script.insert(rng.randrange(len(script)), rng.choice([('E',), ('F', errno.ECONNRESET), ('D', b'')]))
    return dict(buffered=rng.random() < 0.5, limit=limit, tls13=tls13, k=k, script=script,
                cls=(wb_style, term))


# ---- MemSock-driven receive: the trace of what the scripted MemSock did is the script ------
class TraceSock(object):
    """Wraps loop.MemSock (scripted with recv_sizes / block_recv / fault) and records, as a
    model script, what each recv() call produced."""

    def __init__(self, inner):
        self.inner = inner
        self.trace = []

    def recv(self, n):
        i = self.inner
        pending_fault = i.fault is not None and not i.faulted
        if not i.inbuf and not i.peer_closed and not i.eof_forced and not pending_fault and \
                (i.block_recv is None or getattr(i, '_block_done', False)):
            raise ScriptExhausted()
        try:
            r = i.recv(n)
        except socket.error as e:
            self.trace.append(('F', e.args[0]))
            raise
        self.trace.append(('D', bytes(r)) if r else ('E',))
        return r


def memsock_recv_case(rng):
    """A receive case whose socket is loop.MemSock scripted through its own hooks."""
    import loop
    a, b_ = loop.sockpair()
    k = rng.choice([1, 2, 3])
    data = b''.join(gen_record_bytes(rng, rng.choice(['tls', 'tls', 'ssl2short', 'zero'])) for _ in range(k))
    if rng.random() < 0.3 and data:
        data = data[:rng.randrange(len(data))]
    b_.inbuf += data
    style = rng.choice(['all', 'one', 'rand'])
    if style == 'one':
        b_.recv_sizes = itertools.repeat(1)
    elif style == 'rand':
        r2 = random.Random(rng.getrandbits(32))
        b_.recv_sizes = iter(lambda: r2.choice([1, 2, 3, 7, 100]), None)
    nblocks = rng.choice([0, 0, 5, 40])
    r3 = random.Random(rng.getrandbits(32))
    pattern = [r3.random() < 0.6 for _ in range(nblocks)]
    b_.block_recv = iter(pattern)
    b_._block_done = True        # natural would-block on an empty pipe means: script exhausted
    if rng.random() < 0.4:
        b_.fault = dict(kind='recv', index=rng.randrange(0, 12), err=rng.choice(['eof', errno.ECONNRESET]))
    elif rng.random() < 0.4:
        b_.peer_closed = True
    return b_, dict(buffered=rng.random() < 0.5, limit=16384, tls13=False, k=k, cls=('memsock', style))


def impl_recv_memsock(msock, case):
    from tlslite.recordlayer import RecordSocket
    from tlslite.bufferedsocket import BufferedSocket
    ts = TraceSock(msock)
    base = BufferedSocket(ts) if case['buffered'] else ts
    rs = RecordSocket(base)
    y, records, out = 0, [], ('done',)
    for _ in range(case['k']):
        res = None
        try:
            for r in rs.recv():
                if isinstance(r, int):
                    y += 1
                    if y > 20000:
                        raise RuntimeError('no termination')
                else:
                    res = r
                    break
        except ScriptExhausted:
            out = ('pending',)
            break
        except Exception as e:  # noqa
            out = ('raised', classify_exc(e))
            break
        hdr, buf = res
        records.append((dict(ssl2=bool(hdr.ssl2), type=hdr.type, ver=tuple(hdr.version), len=hdr.length,
                             pad=getattr(hdr, 'padding', 0), esc=bool(getattr(hdr, 'securityEscape', False))),
                        bytes(buf)))
    case['script'] = list(ts.trace)
    rbuf = bytes(base._read_buffer) if case['buffered'] else b''
    return dict(y=y, out=out, records=records, rbuf=rbuf, rest=[], yv_ok=True)


# ------------------------------------------------------------------------------------------
# unit level: send
class _Msg(object):
    def __init__(self, ctype, payload):
        self.contentType = ctype
        self.payload = payload

    def write(self):
        return bytearray(self.payload)


def gen_sscript(rng, total, live=None):
    style = rng.choice(['all', 'one', 'rand', 'rand', 'zero', 'short'])
    s = []
    room = 0
    while room < total + 1 and len(s) < 400:
        if rng.random() < {'all': 0.0, 'one': 0.3, 'rand': 0.3, 'zero': 0.2, 'short': 0.1}[style]:
            s.append(('F', rng.choice([errno.EWOULDBLOCK, errno.EAGAIN])))
            continue
        k = {'all': 10 ** 6, 'one': 1, 'rand': rng.choice([1, 2, 3, 7, 50, 10 ** 5]),
             'zero': rng.choice([0, 0, 1, 4, -3]), 'short': rng.choice([1, 5])}[style]
        s.append(('A', k))
        room += max(k, 0)
        if style == 'short' and len(s) > 3:
            break
    if rng.random() < 0.25 and s:
        s.insert(rng.randrange(len(s) + 1), ('F', rng.choice([errno.EPIPE, errno.ECONNRESET, errno.EINTR, 0])))
    return s, style


def gen_send_case(rng):
    ver = rng.choice([(3, 0), (3, 1), (3, 3), (3, 4), (2, 0), (0, 2), (0, 0)])
    n = rng.choice([0, 1, 5, 60, rng.randrange(0, 300)])
    padding = 0
    if ver in ((2, 0), (0, 2)):
        padding = rng.choice([0, 0, 3, 255])
    payload = rbytes(rng, n)
    s, style = gen_sscript(rng, n + 5)
    return dict(ver=ver, ctype=rng.choice([20, 21, 22, 23, 24]), payload=payload, padding=padding, script=s,
                cls=(style, ver in ((2, 0), (0, 2))))


def impl_send(case):
    from tlslite.recordlayer import RecordSocket
    sock = ScriptSock(sscript=case['script'])
    rs = RecordSocket(sock)
    rs.version = tuple(case['ver'])
    y, yv_ok, out = 0, True, ('done',)
    try:
        for r in rs.send(_Msg(case['ctype'], case['payload']), case['padding']):
            y += 1
            yv_ok = yv_ok and r == 1
            if y > 100000:
                raise RuntimeError('no termination')
    except ScriptExhausted:
        out = ('pending',)
    except Exception as e:  # noqa
        out = ('raised', classify_exc(e))
    return dict(y=y, out=out, wire=bytes(sock.wire), rest=list(sock.s), yv_ok=yv_ok)


def send_case_lit(case, impl):
    return '(%s, %s, %s, %s, %s, %s, (%s, %s, %s, %s))' % (
        zlit(case['ver'][0]), zlit(case['ver'][1]), zlit(case['ctype']), blit(case['payload']),
        zlit(case['padding']), listlit(case['script'], sev_lit),
        zlit(impl['y']), outcome_lit(impl['out'], 'tt'), blit(impl['wire']), listlit(impl['rest'], sev_lit))


def spec_send_wire(case):
    """What must be on the wire when the send completes (written from the record format)."""
    n = len(case['payload'])
    if tuple(case['ver']) in ((2, 0), (0, 2)):
        pad = case['padding']
        if pad:
            if n >= 0x4000:
                return None
            h = bytes([n >> 8, n & 255, pad])
        else:
            if n >= 0x8000:
                return None
            h = bytes([0x80 | (n >> 8), n & 255])
    else:
        h = bytes([case['ctype'], case['ver'][0], case['ver'][1], n >> 8, n & 255])
    return h + case['payload']


# ------------------------------------------------------------------------------------------
# unit level: BufferedSocket write side
def gen_buf_case(rng, has_async=True):
    """ops: ('S', data) | ('Fl',) blocking-socket flush() | ('FlA',) generator flush_async() | ('B', flag)"""
    ops = []
    disciplined = rng.random() < 0.7
    total = 0
    sync = (not has_async) or rng.random() < 0.25          # does this case use the blocking flush()?
    fl = ('Fl',) if sync else ('FlA',)
    for _ in range(rng.randrange(1, 5)):
        if disciplined:
            msgs = [rbytes(rng, rng.choice([0, 1, 3, 20, 100])) for _ in range(rng.randrange(0, 4))]
            if rng.random() < 0.6:
                ops.append(('B', True))
                ops += [('S', m) for m in msgs]
                ops += [fl, ('B', False)]
            else:
                ops += [('S', m) for m in msgs]
            total += sum(len(m) for m in msgs)
        else:
            for _ in range(rng.randrange(1, 5)):
                o = rng.choice(['S', 'S', 'Fl', 'B'])
                if o == 'S':
                    m = rbytes(rng, rng.choice([0, 1, 3, 20]))
                    total += len(m)
                    ops.append(('S', m))
                elif o == 'Fl':
                    ops.append(fl if rng.random() < 0.8 or not has_async else rng.choice([('Fl',), ('FlA',)]))
                else:
                    ops.append(('B', rng.random() < 0.5))
    s, style = gen_sscript(rng, total + 3)
    if rng.random() < (0.7 if sync else 0.3):
        s = [e for e in s if e[0] == 'A']
        style += '-acceptonly'
    return dict(ops=ops, script=s, cls=(style, disciplined, 'sync' if any(o == ('Fl',) for o in ops) else 'async'))


def impl_buf(case):
    from tlslite.recordlayer import RecordSocket
    from tlslite.bufferedsocket import BufferedSocket
    sock = ScriptSock(sscript=case['script'])
    bs = BufferedSocket(sock)
    rs = RecordSocket(bs)
    y, out = 0, ('done',)
    try:
        for op in case['ops']:
            if op[0] == 'S':
                for r in rs._sockSendAll(bytearray(op[1])):
                    y += 1
                    if y > 100000:
                        raise RuntimeError('no termination')
            elif op[0] == 'Fl':
                bs.flush()
            elif op[0] == 'FlA':
                for r in bs.flush_async():
                    y += 1
                    if r != 1 or y > 100000:
                        raise RuntimeError('flush_async yielded %r' % (r,))
            else:
                bs.buffer_writes = op[1]
    except ScriptExhausted:
        out = ('pending',)
    except Exception as e:  # noqa
        out = ('raised', classify_exc(e))
    return dict(y=y, out=out, bw=bool(bs.buffer_writes), queue=[bytes(q) for q in bs._write_queue],
                wire=bytes(sock.wire), rest=list(sock.s))


def wop_lit(op):
    if op[0] == 'S':
        return 'WSend %s' % blit(op[1])
    if op[0] == 'Fl':
        return 'WFlush'
    if op[0] == 'FlA':
        return 'WFlushA'
    return 'WBuffer %s' % boollit(op[1])


def buf_case_lit(case, impl):
    return '(%s, %s, (%s, %s, %s, %s, %s, %s))' % (
        listlit(case['ops'], wop_lit), listlit(case['script'], sev_lit), zlit(impl['y']),
        outcome_lit(impl['out'], 'tt'), boollit(impl['bw']), listlit(impl['queue'], blit), blit(impl['wire']),
        listlit(impl['rest'], sev_lit))


# ------------------------------------------------------------------------------------------
# unit level: Defragmenter
def gen_defrag_case(rng):
    ops = []
    if rng.random() < 0.7:
        ops += [('static', 20, 1), ('static', 21, 2), ('dynamic', 22, 1, 3)]
    else:
        for _ in range(rng.randrange(1, 4)):
            if rng.random() < 0.5:
                ops.append(('static', rng.choice([20, 21, 22, 5]), rng.choice([1, 2, 3, 0, -1])))
            else:
                ops.append(('dynamic', rng.choice([20, 21, 22, 5]), rng.choice([0, 1, 2, -1]), rng.choice([1, 2, 3, 0])))
    for _ in range(rng.randrange(2, 14)):
        o = rng.choice(['data', 'data', 'data', 'get', 'get', 'get', 'empty', 'clear'] if rng.random() < 0.9 else ['clear'])
        if o == 'data':
            ty = rng.choice([20, 21, 22, 22, 22, 5, 23])
            if ty == 22 and rng.random() < 0.7:
                n = rng.choice([0, 1, 4, 30])
                msg = bytes([rng.randrange(256), 0, n >> 8, n & 255]) + rbytes(rng, n)
                msg = msg + (bytes([1, 0, 0, 0]) if rng.random() < 0.3 else b'')
                a = rng.randrange(0, len(msg) + 1)
                c = rng.randrange(a, len(msg) + 1)
                ops.append(('data', ty, msg[:a]))
                if rng.random() < 0.5:
                    ops.append(('get',))
                ops.append(('data', ty, msg[a:c]))
                ops.append(('data', ty, msg[c:]))
            else:
                ops.append(('data', ty, rbytes(rng, rng.choice([0, 1, 2, 3, 5]))))
        else:
            ops.append((o,))
    ops += [('get',)] * rng.randrange(0, 4)
    return dict(ops=ops)


def impl_defrag(case):
    from tlslite.defragmenter import Defragmenter
    d = Defragmenter()
    res = []
    for op in case['ops']:
        try:
            if op[0] == 'static':
                d.add_static_size(op[1], op[2])
                res.append(('ok',))
            elif op[0] == 'dynamic':
                d.add_dynamic_size(op[1], op[2], op[3])
                res.append(('ok',))
            elif op[0] == 'data':
                d.add_data(op[1], bytearray(op[2]))
                res.append(('ok',))
            elif op[0] == 'get':
                m = d.get_message()
                res.append(('none',) if m is None else ('msg', m[0], bytes(m[1])))
            elif op[0] == 'clear':
                d.clear_buffers()
                res.append(('ok',))
            else:
                res.append(('bool', bool(d.is_empty())))
        except ValueError:
            res.append(('valueerror',))
    bufs = [(ty, bytes(d.buffers[ty])) for ty in d.priorities]
    return dict(res=res, bufs=bufs)


def dop_lit(op):
    if op[0] == 'static':
        return 'DStatic %s %s' % (zlit(op[1]), zlit(op[2]))
    if op[0] == 'dynamic':
        return 'DDynamic %s %s %s' % (zlit(op[1]), zlit(op[2]), zlit(op[3]))
    if op[0] == 'data':
        return 'DData %s %s' % (zlit(op[1]), blit(op[2]))
    return {'get': 'DGet', 'clear': 'DClear', 'empty': 'DEmpty'}[op[0]]


def dres_lit(r):
    if r[0] == 'ok':
        return 'ROk'
    if r[0] == 'valueerror':
        return 'RValueError'
    if r[0] == 'none':
        return 'RNoMsg'
    if r[0] == 'msg':
        return 'RMsg %s %s' % (zlit(r[1]), blit(r[2]))
    return 'RBool %s' % boollit(r[1])


def pairs_lit(ps):
    return listlit(ps, lambda p: '(%s, %s)' % (zlit(p[0]), blit(p[1])))


def defrag_case_lit(case, impl):
    return '(%s, %s, %s)' % (listlit(case['ops'], dop_lit), listlit(impl['res'], dres_lit), pairs_lit(impl['bufs']))


def gen_feed_case(rng):
    """Handshake / alert / CCS byte streams cut into records in an arbitrary way."""
    hs = b''
    for _ in range(rng.randrange(1, 5)):
        n = rng.choice([0, 1, 4, 30, 70])
        hs += bytes([rng.randrange(256), 0, n >> 8, n & 255]) + rbytes(rng, n)
    if rng.random() < 0.3:
        hs = hs[:rng.randrange(len(hs) + 1)]
    al = rbytes(rng, rng.choice([0, 0, 2, 3, 4]))
    ccs = rbytes(rng, rng.choice([0, 0, 1, 2]))
    streams = {22: hs, 21: al, 20: ccs}
    return dict(streams=streams)


def fragment(rng, streams, style):
    """A list of (type, payload) records carrying the per-type streams in order."""
    pos = {t: 0 for t in streams}
    recs = []
    live = [t for t in streams if streams[t]]
    while live:
        t = rng.choice(live)
        rest = len(streams[t]) - pos[t]
        k = rest if style == 'whole' else (1 if style == 'bytes' else rng.randrange(1, rest + 1))
        recs.append((t, streams[t][pos[t]:pos[t] + k]))
        pos[t] += k
        if pos[t] == len(streams[t]):
            live.remove(t)
    return recs


def impl_feed(records):
    from tlslite.defragmenter import Defragmenter
    d = Defragmenter()
    d.add_static_size(20, 1)
    d.add_static_size(21, 2)
    d.add_dynamic_size(22, 1, 3)
    msgs = []

    def drain():
        while True:
            m = d.get_message()
            if m is None:
                break
            msgs.append((m[0], bytes(m[1])))
    for ty, data in records:
        drain()
        d.add_data(ty, bytearray(data))
    drain()
    return dict(msgs=msgs, bufs=[(ty, bytes(d.buffers[ty])) for ty in d.priorities])


def spec_messages(ty, stream):
    """Messages contained in one type's byte stream, written from the message formats."""
    out, pos = [], 0
    while True:
        if ty == 20:
            n = 1
        elif ty == 21:
            n = 2
        else:
            if len(stream) - pos < 4:
                break
            n = 4 + int.from_bytes(stream[pos + 1:pos + 4], 'big')
        if len(stream) - pos < n:
            break
        out.append(stream[pos:pos + n])
        pos += n
    return out, stream[pos:]


def feed_case_lit(records, impl):
    return '(%s, %s, %s)' % (pairs_lit(records), pairs_lit(impl['msgs']), pairs_lit(impl['bufs']))


# ------------------------------------------------------------------------------------------
# unit level: AsyncStateMachine with scripted generators
class GenBoom(Exception):
    pass


def gen_from(steps):
    for s in steps:
        if s[0] == 'Y':
            yield s[1]
        else:
            raise GenBoom()


def gen_asm_case(rng):
    def g(ok=None):
        ok = rng.random() < 0.8 if ok is None else ok
        steps = [('Y', rng.choice([0, 1])) for _ in range(rng.choice([0, 1, 2, 3, 6]))]
        if not ok:
            steps.insert(rng.randrange(len(steps) + 1), rng.choice([('Y', 5), ('R',), ('Y', 2)]))
        return steps

    def reader():
        steps = [('Y', rng.choice([0, 1])) for _ in range(rng.choice([0, 1, 2]))]
        r = rng.random()
        if r < 0.8:
            steps.append(('Y', rng.choice([7, 42, 1000])))        # the data
        elif r < 0.9:
            steps.append(('R',))
        return steps
    calls = []
    for _ in range(rng.randrange(1, 14)):
        k = rng.choice(['hs', 'cl', 'wr', 'rd', 'rd', 'rd', 'we', 'we', 'we'])
        if k in ('hs', 'cl', 'wr'):
            calls.append((k, g()))
        elif k == 'rd':
            calls.append(('rd', reader()))
        else:
            calls.append(('we',))
    return dict(calls=calls)


def impl_asm(case):
    from tlslite.integration.asyncstatemachine import AsyncStateMachine

    class Conn(object):
        nxt = None

        def readAsync(self, n):
            return gen_from(self.nxt)

        def closeAsync(self):
            return gen_from(self.nxt)

        def writeAsync(self, b):
            return gen_from(self.nxt)

    class M(AsyncStateMachine):
        def __init__(self):
            AsyncStateMachine.__init__(self)
            self.tlsConnection = Conn()
            self.ev = []

        def outConnectEvent(self):
            self.ev.append(('connect',))

        def outCloseEvent(self):
            self.ev.append(('close',))

        def outReadEvent(self, b):
            self.ev.append(('read', b))

        def outWriteEvent(self):
            self.ev.append(('write',))
    m = M()
    obs = []
    for c in case['calls']:
        m.ev = []
        exn = None
        try:
            if c[0] == 'hs':
                m.setHandshakeOp(gen_from(c[1]))
            elif c[0] == 'cl':
                m.tlsConnection.nxt = c[1]
                m.setCloseOp()
            elif c[0] == 'wr':
                m.tlsConnection.nxt = c[1]
                m.setWriteOp(b'x')
            elif c[0] == 'rd':
                m.tlsConnection.nxt = c[1]
                m.inReadEvent()
            else:
                m.inWriteEvent()
        except AssertionError:
            exn = 'assert'
        except GenBoom:
            exn = 'gen'
        except StopIteration:
            exn = 'stop'
        obs.append((list(m.ev), exn, m.wantsReadEvent(), m.wantsWriteEvent()))
    return obs


def gen_lit(steps):
    return listlit(steps, lambda s: 'GY %s' % zlit(s[1]) if s[0] == 'Y' else 'GRaise')


def asm_case_lit(case, obs):
    def call(c):
        if c[0] == 'hs':
            return 'SetHandshake %s' % gen_lit(c[1])
        if c[0] == 'cl':
            return 'SetClose %s' % gen_lit(c[1])
        if c[0] == 'wr':
            return 'SetWrite %s' % gen_lit(c[1])
        if c[0] == 'rd':
            return 'InRead %s' % gen_lit(c[1])
        return 'InWrite'

    def ev(e):
        return {'connect': 'EConnect', 'close': 'EClose', 'write': 'EWrite'}.get(e[0]) or 'ERead %s' % zlit(e[1])

    def ob(o):
        ob_ = lambda v: 'None' if v is None else '(Some %s)' % boollit(v)  # noqa
        x = 'None' if o[1] is None else '(Some %s)' % {'assert': 'XAssert', 'gen': 'XGen', 'stop': 'XStop'}[o[1]]
        return '(%s, %s, %s, %s)' % (listlit(o[0], ev), x, ob_(o[2]), ob_(o[3]))
    return '(%s, %s)' % (listlit(case['calls'], call), listlit(obs, ob))


# ------------------------------------------------------------------------------------------
# single_io_path: every socket read/write of L3-L5 goes through the modelled functions
IO_FILES = ['tlslite/recordlayer.py', 'tlslite/tlsrecordlayer.py', 'tlslite/tlsconnection.py',
            'tlslite/bufferedsocket.py', 'tlslite/messagesocket.py', 'tlslite/integration/asyncstatemachine.py']
IO_EXPECTED = sorted([
    ('tlslite/recordlayer.py', 'RecordSocket._sockSendAll', 'self.sock.send'),
    ('tlslite/recordlayer.py', 'RecordSocket._sockRecvAll', 'self.sock.recv'),
    ('tlslite/bufferedsocket.py', 'BufferedSocket.send', 'self.socket.send'),
    ('tlslite/bufferedsocket.py', 'BufferedSocket.sendall', 'self.socket.sendall'),
    ('tlslite/bufferedsocket.py', 'BufferedSocket.flush', 'self.socket.sendall'),
    ('tlslite/bufferedsocket.py', 'BufferedSocket.flush_async', 'self.socket.send'),
    ('tlslite/bufferedsocket.py', 'BufferedSocket.recv', 'self.socket.recv'),
])


def io_sites(repo):
    """(file, Class.function, dotted callee) of every call x.sock.send/recv/sendall/recv_into/sendto,
    x.socket.<same>, found by walking the ast."""
    import ast
    import os
    out = []
    for rel in IO_FILES:
        with open(os.path.join(repo, rel)) as f:
            tree = ast.parse(f.read())

        def dotted(n):
            if isinstance(n, ast.Attribute):
                b = dotted(n.value)
                return None if b is None else b + '.' + n.attr
            if isinstance(n, ast.Name):
                return n.id
            return None

        def walk(node, scope):
            for ch in ast.iter_child_nodes(node):
                sc = scope
                if isinstance(ch, (ast.ClassDef, ast.FunctionDef)):
                    sc = scope + [ch.name]
                if isinstance(ch, ast.Call):
                    d = dotted(ch.func)
                    if d:
                        parts = d.split('.')
                        if parts[-1] in ('send', 'recv', 'sendall', 'recv_into', 'sendto', 'recvfrom') and \
                                len(parts) >= 2 and parts[-2] in ('sock', 'socket', '_sock', '_socket'):
                            out.append((rel, '.'.join(sc), d))
                walk(ch, sc)
        walk(tree, [])
    return sorted(out)


def asm_direct_cases(rng, n):
    """(kind, yields, value) : one well-behaved operation; kind hs/cl/wr/rd; for rd the generator ends by
    yielding the data value.  Includes reads that suspend on 1 (a read that has to write)."""
    out = [('rd', [1], 77), ('rd', [0, 1, 1, 0], 42), ('rd', [1, 1, 1], 7), ('hs', [0, 1, 0], None),
           ('cl', [1, 0], None), ('wr', [1, 1, 0], None), ('rd', [], 9), ('hs', [], None)]
    for _ in range(n):
        kind = rng.choice(['hs', 'cl', 'wr', 'rd', 'rd', 'rd'])
        ys = [rng.choice([0, 1]) for _ in range(rng.choice([0, 1, 2, 3, 5, 9]))]
        out.append((kind, ys, rng.choice([7, 42, 1000]) if kind == 'rd' else None))
    return out


def impl_asm_select(kind, ys, value):
    """Drive ONE operation through the real AsyncStateMachine with a select()-like loop (write event
    when wantsWriteEvent(), else read event).  The property: this is the generator run to completion:
    next() is called len(ys)+1 times, completion is reported once, nothing else happens.
    Returns None if so, else a description."""
    from tlslite.integration.asyncstatemachine import AsyncStateMachine
    calls = [0]

    def gen():
        for y in ys:
            calls[0] += 1
            yield y
        calls[0] += 1
        if kind == 'rd':
            yield value

    class Conn(object):
        def readAsync(self, n):
            return gen()

        def closeAsync(self):
            return gen()

        def writeAsync(self, b):
            return gen()

    class M(AsyncStateMachine):
        def __init__(self):
            AsyncStateMachine.__init__(self)
            self.tlsConnection = Conn()
            self.ev = []

        def outConnectEvent(self):
            self.ev.append('connect')

        def outCloseEvent(self):
            self.ev.append('close')

        def outReadEvent(self, b):
            self.ev.append(('read', b))

        def outWriteEvent(self):
            self.ev.append('write-idle')
    m = M()
    want = {'hs': ['connect'], 'cl': ['close'], 'wr': [], 'rd': [('read', value)]}[kind]
    try:
        if kind == 'hs':
            m.setHandshakeOp(gen())
        elif kind == 'cl':
            m.setCloseOp()
        elif kind == 'wr':
            m.setWriteOp(b'x')
        else:
            m.inReadEvent()
        n_events = 0
        while m.result is not None:
            if n_events >= len(ys):
                return 'operation not completed after %d events: still wantsRead/wantsWrite = %r/%r (next() called %d times, events %r)' % (
                    n_events, m.wantsReadEvent(), m.wantsWriteEvent(), calls[0], m.ev)
            if m.wantsReadEvent() is not (ys[n_events] == 0) or m.wantsWriteEvent() is not (ys[n_events] == 1):
                return 'after %d events wantsRead/wantsWrite = %r/%r but the operation yielded %r' % (
                    n_events, m.wantsReadEvent(), m.wantsWriteEvent(), ys[n_events])
            before = calls[0]
            if m.wantsWriteEvent():
                m.inWriteEvent()
            else:
                m.inReadEvent()
            n_events += 1
            if calls[0] != before + 1:
                return 'event %d (%s) did not resume the operation: next() called %d times instead of %d, events %r' % (
                    n_events, 'write' if ys[n_events - 1] == 1 else 'read', calls[0], before + 1, m.ev)
            if n_events > len(ys) + 3:
                return 'operation not completed after %d events (next() called %d times, events %r)' % (
                    n_events, calls[0], m.ev)
    except Exception as e:  # noqa
        return 'raised %s' % type(e).__name__
    if calls[0] != len(ys) + 1:
        return 'next() called %d times, expected %d' % (calls[0], len(ys) + 1)
    if m.ev != want:
        return 'events %r, expected %r' % (m.ev, want)
    return None


# ------------------------------------------------------------------------------------------
# unit level: the fragmentation of TLSRecordLayer._sendMsg (plaintext connection state)
def impl_fragment(k, ctype, data):
    """Record payloads a fresh TLSConnection puts on the wire for one message with recordSize = k."""
    from tlslite.api import TLSConnection
    from tlslite.messages import Message
    sock = ScriptSock(sscript=[('A', 10 ** 6)] * (len(data) + 3))
    conn = TLSConnection(sock)
    conn.version = (3, 3)
    conn.recordSize = k
    for _ in conn._sendMsg(Message(ctype, bytearray(data))):
        pass
    wire, recs, pos = bytes(sock.wire), [], 0
    while pos < len(wire):
        n = (wire[pos + 3] << 8) | wire[pos + 4]
        if wire[pos] != ctype:
            raise AssertionError('content type changed')
        recs.append(wire[pos + 5:pos + 5 + n])
        pos += 5 + n
    return recs


def gen_fragment_case(rng):
    n = rng.choice([0, 1, 2, 3, 4, 7, 8, 12, 16, 31, 32, 33, 52, 64, 100, rng.randrange(0, 200)])
    r = rng.random()
    if r < 0.5 and n:
        divs = [d for d in range(1, n + 1) if n % d == 0]
        k = rng.choice(divs)                       # record size divides the message length
    elif r < 0.7:
        k = rng.choice([n + 1, max(1, n - 1), max(1, n)])
    else:
        k = rng.choice([1, 2, 3, 5, 16, 64, 16384])
    return k, rng.choice([20, 21, 22, 22, 22, 23, 24]), rbytes(rng, n)
