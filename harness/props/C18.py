"""C18: shared objects stay correct under every thread interleaving.

Proof (coq/Props/C18.v):
  * generic: lock discipline => every schedule is serializable and deadlock-free (induction
    over the schedule); the discipline is decided by vm_compute on the step lists that
    translator/units_locks.py extracts from /repo on every run (coq/Gen/Locks.v);
  * RSA blinding invariant and correctness of every concurrent private-key call;
  * sequential SessionCache (repaired code with entriesSlot/_drop) = abstract log specification
    for ALL histories with a monotone clock, size bound, no internal error.
Tie: Gen/Locks.v regenerated from the ast; the hand-written sequential model is evaluated by
vm_compute on the histories the real SessionCache ran (state + outcome after every call);
real threads are driven through systematic schedules (harness/c18_sched.py) and checked against
the property itself."""
import json
import os
import sys
import time

import vlib
import c18_cases as C

sys.path.insert(0, os.path.join(vlib.ROOT, 'translator'))
import units  # noqa: E402

LEVEL = 'proof'
META = {
    'text': 'Coq theorems (Props/C18.v): (1) for any number of threads and any schedule, programs that touch shared '
            'state only inside the one lock are serializable and deadlock-free (induction over schedules, unbounded '
            'pre-emptions); the lock discipline is decided by vm_compute on step lists extracted from the Python ast of '
            'every public method of SessionCache, BaseDB/VerifierDB and Python_RSAKey/RSAKey (discovered, per path) on every run; (2) the blinding pair '
            'invariant is preserved and every concurrent private-key call returns m^d mod n; (3) the sequential '
            'SessionCache model refines the abstract log specification, is size-bounded and raises no internal error for '
            'ALL histories with a monotone clock (repeated IDs included; maxEntries >= 1, the guard is shown necessary).',
    'note': 'Trusted: Coq kernel + vm_compute; translator/units_locks.py (what counts as a shared access; conservative, '
            'fail-closed); the hand-written sequential model Model/C18_Cache.v (tied by per-call state comparison on every '
            'run, not by translation); CPython executes one extracted step atomically w.r.t. the lock (GIL granularity is '
            'finer than the model only for accesses the model already treats as separate steps); hypotheses H-rsa-key, '
            'invertible random unblinder, monotone clock, create()/open() not concurrent with other calls.',
    'technique': 'Rocq/Coq proof (induction over schedules / histories) + ast-extracted lock discipline decided by vm_compute '
                 '+ vm_compute correspondence + systematic real-thread scheduling',
}
KNOWN_DUP = 'sessioncache:same-id-stored-twice'
MODEL_TARGETS = ['Model/C18_Cache.vo', 'Spec/C18_CacheSpec.vo', 'Proofs/C18_CacheWit.vo']

PREAMBLE = '''
Definition CaseT := (Z * Z * history * list obs)%type.
Definition chk_model (c : CaseT) : bool :=
  let '(n, ma, h, os) := c in all_match (trace (init_world n ma) h) os.
Definition chk_spec (c : CaseT) : bool :=
  let '(n, ma, h, os) := c in
  outcomes_eqb (spec_outcomes n ma h) (map (fun o : obs => snd o) os).
'''

DUP_WITNESS = (3, 100, [(0, ('put', 1, 10)), (0, ('put', 1, 11)), (0, ('put', 2, 12)), (0, ('get', 1)),
                        (0, ('put', 3, 13))])
LEAK_WITNESS = (2, 100, [(0, ('put', 1, 10)), (0, ('put', 1, 11)), (0, ('put', 2, 12)), (0, ('put', 3, 13)),
                         (0, ('put', 3, 14)), (0, ('put', 4, 15)), (0, ('put', 5, 16))])


# ------------------------------------------------------------------ sequential generation
def gen_history(rng, mode, maxlen):
    # the clock is an input of every call: clock values and maxAge are in ticks of 1/8 s, so the real class sees
    # real-valued times with steps of 0, fractions of a second, whole seconds, exactly maxAge, maxAge +- 1/8 s
    n = rng.choice([1, 2, 2, 3, 3, 4, 5, 8])
    max_age = rng.choice([0, 1, 5, 8, 8, 20, 40, 80, 80, 100, 800])
    length = rng.randrange(1, maxlen + 1)
    t = rng.choice([0, 0, 7, 8001, 1000 * 8 + 2])
    sweep_at = rng.randrange(2, max(3, length)) if rng.random() < 0.5 else None
    hist = []
    next_id = 1
    next_s = 100
    stored = []
    sessions = []
    pool = list(range(1, 5))
    shape = rng.choice(['mixed', 'mixed', 'fill', 'expire', 'invalidate'])
    last_put_t = None
    sweeping = 0
    for k in range(length):
        if sweep_at == k and last_put_t is not None:
            # lookups close together (sub-second steps) across the moment the newest entries expire
            t = max(t, last_put_t + max_age - rng.choice([1, 2, 5, 9]))
            sweeping = rng.randrange(4, 10)
        elif sweeping:
            t += rng.choice([0, 1, 1, 2, 3, 4, 7])
        else:
            t += rng.choice([0, 0, 0, 1, 1, 2, 4, 7, 8, 9, 16, max_age, max_age + 1, max(0, max_age - 1)])
        x = rng.random()
        if sweeping:
            sweeping -= 1
            x = 0.5 if stored else x            # a lookup
        if shape == 'fill':
            p_put, p_get = 0.7, 0.25
        elif shape == 'expire':
            p_put, p_get = 0.4, 0.45
        elif shape == 'invalidate':
            p_put, p_get = 0.35, 0.35
        else:
            p_put, p_get = 0.45, 0.4
        if x < p_put:
            if mode == 'distinct':
                i = next_id
                next_id += 1
            else:
                i = rng.choice(pool) if rng.random() < 0.7 else rng.choice(stored + pool)
            s = next_s
            next_s += 1
            sessions.append(s)
            stored.append(i)
            hist.append((t, ('put', i, s)))
            last_put_t = t
        elif x < p_put + p_get:
            if stored and rng.random() < 0.85:
                i = rng.choice(stored[-(n + 2):]) if rng.random() < 0.7 else rng.choice(stored)
            else:
                i = rng.choice([0, 999, next_id])
            hist.append((t, ('get', i)))
        elif x < p_put + p_get + 0.08 or not sessions:
            hist.append((t, ('purge',)))
        else:
            hist.append((t, ('valid', rng.choice(sessions), rng.random() < 0.35)))
    return n, max_age, hist


def boundary_histories():
    """capacity and age boundaries, hit exactly"""
    out = []
    for n in (1, 2, 3, 4):
        for extra in (-1, 0, 1, 2):
            k = max(0, n - 1 + extra)
            h = [(0, ('put', i + 1, 100 + i)) for i in range(k)]
            h += [(0, ('get', i + 1)) for i in range(k)]
            out.append((n, 10, h))
    for age in (0, 1, 10):
        for dt in (age - 1, age, age + 1):
            if dt < 0:
                continue
            out.append((3, age, [(5, ('put', 1, 100)), (5, ('put', 2, 101)), (5 + dt, ('get', 1)), (5 + dt, ('get', 2)),
                                 (5 + dt, ('put', 3, 102)), (5 + dt + age + 1, ('purge',)), (5 + dt + age + 1, ('get', 3))]))
    for age in (8, 80):                       # 1 s and 10 s in ticks; lookups 1/8 .. 7/8 s apart around the expiry
        for first in (age - 2, age - 1, age):
            for gap in (1, 2, 4, 7, 8):
                out.append((3, age, [(8002, ('put', 1, 100)), (8002 + first, ('get', 1)),
                                     (8002 + first + gap, ('get', 1)), (8002 + first + 2 * gap, ('get', 1)),
                                     (8002 + first + 2 * gap, ('put', 2, 101)), (8002 + first + 3 * gap, ('get', 1)),
                                     (8002 + first + 3 * gap, ('get', 2))]))
    out.append((3, 10, [(0, ('put', 1, 100)), (0, ('valid', 100, False)), (0, ('get', 1)), (0, ('valid', 100, True)),
                        (0, ('get', 1)), (11, ('get', 1))]))
    return out


def nontrivial_key(n, max_age, hist, obs, mode):
    evict, prev = False, 0
    for (_, op), o in zip(hist, obs):
        if op[0] == 'put' and len(o[0]) <= prev:
            evict = True
        prev = len(o[0])
    hits = sum(1 for o in obs if o[4][0] == 'ret' and o[4][1] is not None)
    miss = sum(1 for (_, op), o in zip(hist, obs) if op[0] == 'get' and o[4][0] == 'exc')
    return (mode, n, max_age, min(len(hist) // 8, 6), evict, min(hits, 3), min(miss, 3))


# ------------------------------------------------------------------ concurrent scenarios
def cache_scenarios(rng, k):
    out = [
        dict(n=4, max_age=3, pre=[('put', 1, 101), ('put', 2, 102)],
             threads=[[('get', 1), ('put', 3, 103)], [('get', 2), ('put', 4, 104), ('get', 1)], [('get', 3)]]),
        dict(n=3, max_age=50, pre=[('put', 1, 101)],
             threads=[[('put', 2, 102), ('get', 1)], [('put', 3, 103), ('get', 2)]]),
        dict(n=2, max_age=2, pre=[('put', 1, 101)],
             threads=[[('get', 1), ('get', 1)], [('put', 2, 102), ('get', 1)]]),
        # the same ID stored again, concurrently with lookups and an evicting store
        dict(n=3, max_age=50, pre=[('put', 1, 101)],
             threads=[[('put', 1, 102), ('get', 1)], [('put', 2, 103), ('get', 1)], [('put', 1, 104)]]),
        dict(n=3, max_age=2, pre=[('put', 1, 101), ('put', 1, 102)],
             threads=[[('get', 1), ('put', 2, 103)], [('put', 3, 104), ('get', 1)]]),
        # time passes inside calls (dt per pre-emption point) and while descheduled (switch_jump): two stores
        # racing for the list order, then lookups sweeping across the moment the older one expires
        dict(n=4, max_age=1000, dt=1, switch_jump=100, pre=[],
             threads=[[('put', 1, 101)], [('put', 2, 102)],
                      [('sleep', 550)] + [x for _ in range(8) for x in (('sleep', 50), ('get', 1), ('get', 2))]]),
        dict(n=4, max_age=40, dt=1, switch_jump=15, pre=[('put', 9, 109)],
             threads=[[('put', 1, 101), ('sleep', 10), ('get', 2)], [('put', 2, 102), ('sleep', 10), ('get', 1)],
                      [x for _ in range(6) for x in (('sleep', 8), ('get', 1), ('get', 2))]]),
    ]
    while len(out) < k:
        n = rng.choice([2, 3, 4])
        nid = 1
        pre = []
        for _ in range(rng.randrange(0, 4)):
            pre.append(('put', nid, 100 + nid))
            nid += 1
        nth = rng.choice([2, 2, 3])
        threads = []
        sid = [0]
        budget = 6
        for _ in range(nth):
            ops = []
            for _ in range(rng.randrange(1, 3 if nth == 3 else 4)):
                if budget <= 0:
                    break
                budget -= 1
                if rng.random() < 0.45:
                    sid[0] += 1
                    if nid > 1 and rng.random() < 0.3:       # store an ID again (new session object)
                        ops.append(('put', rng.randrange(1, nid), 200 + sid[0]))
                    else:
                        ops.append(('put', nid, 200 + sid[0]))
                        nid += 1
                else:
                    ops.append(('get', rng.randrange(1, nid + 1)))
            threads.append(ops or [('get', 1)])
        dt = rng.choice([0, 0.125, 1, 1, 3])
        jump = rng.choice([0, 0, 10, 100])
        if dt or jump:                                   # let time pass between calls as well
            threads = [[x for op in th for x in ((('sleep', rng.choice([1, 5, 20, 60])),) if rng.random() < 0.4 else ())
                        + (op,)] for th in threads]
        out.append(dict(n=n, max_age=rng.choice([1, 2, 3, 50] if not (dt or jump) else [3, 20, 50, 150, 1000]),
                        dt=dt, switch_jump=jump, pre=pre, threads=threads))
    return out


def db_scenarios(rng, k):
    out = [
        ([('set', 'a', 0)], [[('set', 'b', 1), ('get', 'a')], [('del', 'a'), ('in', 'b'), ('keys',)]]),
        ([('set', 'a', 0), ('set', 'b', 1)], [[('set', 'a', 2), ('keys',)], [('get', 'a'), ('del', 'b')], [('in', 'a')]]),
        # lookups racing with a store / delete / re-store of the SAME key; the quiescent lookups afterwards must
        # see the last stored value
        ([('set', 'a', 0)], [[('get', 'a')], [('set', 'a', 1)]]),
        ([('set', 'a', 0)], [[('get', 'a'), ('get', 'a')], [('set', 'a', 1), ('set', 'a', 2)]]),
        ([('set', 'a', 0)], [[('get', 'a')], [('del', 'a'), ('set', 'a', 1)], [('get', 'a')]]),
        ([('set', 'a', 0), ('set', 'b', 1)], [[('get', 'a'), ('get', 'b')], [('del', 'a')], [('set', 'b', 2)]]),
    ]
    names = ['a', 'b', 'c']
    while len(out) < k:
        names = ['a', 'b', 'c']
        pre = [('set', rng.choice(names), rng.randrange(3)) for _ in range(rng.randrange(0, 3))]
        if rng.random() < 0.5:
            names = names[:1] + [names[0]] * 2 + names[1:2]        # concentrate on one key
        threads = []
        for _ in range(rng.choice([2, 2, 3])):
            ops = []
            for _ in range(rng.randrange(1, 3)):
                kind = rng.choice(['set', 'get', 'del', 'in', 'keys'])
                if kind == 'set':
                    ops.append(('set', rng.choice(names), rng.randrange(3)))
                elif kind == 'keys':
                    ops.append(('keys',))
                else:
                    ops.append((kind, rng.choice(names)))
            threads.append(ops)
        out.append((pre, threads))
    return out


def jsonable(x):
    return json.loads(json.dumps(x, default=repr))


# ------------------------------------------------------------------ stages
def sequential_stage(ctx, res, n_hist, maxlen):
    """returns (found_new_violation, tie_broken_text)"""
    rng = ctx.rng
    cases = []
    for (n, a, h) in boundary_histories():
        cases.append((n, a, h, 'distinct'))
    cases.append(DUP_WITNESS + ('dups',))
    cases.append(LEAK_WITNESS + ('dups',))
    while len(cases) < n_hist:
        mode = 'distinct' if rng.random() < 0.7 else 'dups'
        n, a, h = gen_history(rng, mode, maxlen)
        cases.append((n, a, h, mode))
    found = False
    tie = None
    all_obs = []
    dup_reported = None
    seen_kinds = set()
    for (n, a, h, mode) in cases:
        obs = C.run_history_impl(n, a, h)
        all_obs.append(obs)
        ctx.count('seq-impl-vs-property', 1, [nontrivial_key(n, a, h, obs, mode)],
                  sample={'n': n, 'maxAge': a, 'history': h} if len(all_obs) % 131 == 7 else None)
        f = C.check_history(n, a, h, obs)
        if f is None:
            continue
        dup = C.has_dup_puts(h)
        if dup:
            if dup_reported is None:
                small = C.shrink_history(n, a, h, f[0])
                f2 = C.check_history(n, a, small, C.run_history_impl(n, a, small)) or f
                if C.has_dup_puts(small):
                    dup_reported = (n, a, small, f2)
                    ctx.notes.append('duplicate-ID failure found by the random search and shrunk to: n=%d maxAge=%d %r (%s: %s)'
                                     % (n, a, small, f2[0], f2[2]))
                    if ctx.violation(KNOWN_DUP, 'SessionCache: storing the same session ID twice corrupts the cache: %s' % f2[2],
                                     {'kind': 'seq', 'n': n, 'maxAge': a, 'history': jsonable(small), 'failure': list(f2),
                       'clock_unit': 'clock values and maxAge in ticks of 1/8 s (the class sees t/8.0)'}):
                        found = True
                    continue
                h, f = small, f2      # shrinking removed the duplicate: a failure without duplicates
            else:
                continue
        if f[0] in seen_kinds:
            continue
        seen_kinds.add(f[0])
        small = C.shrink_history(n, a, h, f[0])
        f2 = C.check_history(n, a, small, C.run_history_impl(n, a, small)) or f
        found = True
        ctx.violation('sessioncache:seq:%s' % f2[0], 'SessionCache violates the sequential specification without any '
                      'repeated ID: %s' % f2[2],
                      {'kind': 'seq', 'n': n, 'maxAge': a, 'history': jsonable(small), 'failure': list(f2),
                       'clock_unit': 'clock values and maxAge in ticks of 1/8 s (the class sees t/8.0)'})
    ctx.log('sequential: %d histories on the real SessionCache against the property' % len(cases))
    extra, missing = C.unmodelled_attributes()
    if extra or missing:
        tie = ('SessionCache instance state differs from the model\'s state vector: not modelled %r, not present %r '
               '(Model/C18_Cache.v has to follow)' % (extra, missing))
    # ---- model evaluated on the same histories
    if res['model_ok']:
        lits = [C.case_lit(n, a, h, obs) for (n, a, h, _), obs in zip(cases, all_obs)]
        for attempt in range(3):
            (bad_model, bad_spec), errs = vlib.coq_bad_indices(
                'C18', ['Base.C18_Lib', 'Model.C18_Cache', 'Spec.C18_CacheSpec'], 'CaseT', ['chk_model', 'chk_spec'],
                lits, shard=max(8, (len(lits) + 15) // 16), preamble=PREAMBLE, timeout=2400)
            if not any(('rc=-9' in e or 'rc=137' in e or 'rc=124' in e or 'rc=-15' in e) for e in errs):
                break                                 # a coqc killed from outside / by load is retried, not reported
            ctx.log('case evaluation interrupted from outside, retrying (%d)' % (attempt + 1))
        ctx.count('seq-model-vs-impl(vm_compute)', len(lits), [('agree', len(lits) - len(bad_model))])
        for e in errs:
            tie = 'case evaluation failed: ' + e[:400]
        for i in bad_model[:3]:
            n, a, h, mode = cases[i]
            tie = 'Model/C18_Cache.v disagrees with tlslite.sessioncache on n=%d maxAge=%d history=%r' % (n, a, h)
            ctx.log(tie)
        for i in bad_spec:
            n, a, h, mode = cases[i]
            if C.has_dup_puts(h):
                continue
            if C.check_history(n, a, h, all_obs[i]) is None:
                tie = 'Spec/C18_CacheSpec.v disagrees with the Python property oracle on n=%d maxAge=%d history=%r' % (n, a, h)
        # the former refutation witnesses (now regression histories) are replayed here
        wl = ['all_match (trace (init_world 3 100) dup_history) [%s]' % ';'.join(
                  C.obs_lit(o) for o in C.run_history_impl(*DUP_WITNESS)),
              'all_match (trace (init_world 2 100) leak_history) [%s]' % ';'.join(
                  C.obs_lit(o) for o in C.run_history_impl(*LEAK_WITNESS))]
        badw, errs = vlib.coq_bad_indices('C18w', ['Base.C18_Lib', 'Model.C18_Cache', 'Spec.C18_CacheSpec',
                                                   'Proofs.C18_CacheWit'], 'bool', '(fun b : bool => b)', wl, shard=4)
        ctx.count('coq-regression-histories-on-impl', len(wl), [('ok', len(wl) - len(badw))])
        if errs or badw:
            tie = 'the regression histories of Proofs/C18_CacheWit.v differ between model and real SessionCache: %s %s' % (badw, errs[:1])
    else:
        tie = 'sequential model does not compile: %s' % res.get('failing')
    return found, tie


def explore_all(ctx, quick, deep):
    """systematic + random schedules on the real objects; returns True if a violation was reported"""
    rng = ctx.rng
    found = False
    depth = 1 if quick else 2
    # ---- SessionCache
    scns = cache_scenarios(rng, 11 if quick else 18)
    budget = (200 if quick else 800) * (3 if deep else 1)
    t0 = time.time()
    nruns = 0
    for si, scn in enumerate(scns):
        for pp, r in C.explore(lambda pp: C.run_cache_schedule(scn, pp), len(scn['threads']), depth, budget, rng,
                               6 if quick else 40):
            nruns += 1
            ctx.count('conc-sessioncache', 1, [(si, tuple(r['sched'].switches))])
            f = C.check_cache_run(scn, r)
            if f:
                found = True
                if ctx.violation('sessioncache:conc:%s' % f[0], 'SessionCache under real threads: %s' % f[1],
                                 {'kind': 'cache-conc', 'scn': jsonable(scn), 'preempts': list(pp), 'opcode': False}):
                    break
    if not quick:
        scn = scns[0]
        for pp, r in C.explore(lambda pp: C.run_cache_schedule(scn, pp, opcode=True), len(scn['threads']), 1, 1500, rng, 0):
            nruns += 1
            ctx.count('conc-sessioncache-opcode', 1, [tuple(r['sched'].switches)])
            f = C.check_cache_run(scn, r)
            if f:
                found = True
                ctx.violation('sessioncache:conc:%s' % f[0], 'SessionCache under real threads (bytecode-level pre-emption): %s' % f[1],
                              {'kind': 'cache-conc', 'scn': jsonable(scn), 'preempts': list(pp), 'opcode': True})
                break
    ctx.log('concurrent SessionCache: %d schedules, %.1fs' % (nruns, time.time() - t0))
    # ---- RSA
    t0 = time.time()
    nruns = 0
    key = C.small_key()
    if not C.key_hypotheses(key, rng):
        raise RuntimeError('small test key fails H-rsa-key')
    seed = rng.randrange(1 << 30)
    for mi, msgs in enumerate([[[5, 7], [11]], [[2], [3], [key.n - 1]]] if quick else
                              [[[5, 7], [11]], [[2], [3], [int(key.n) - 1]], [[rng.randrange(int(key.n))], [0, 1]]]):
        for fresh in (True, False):
            if not fresh:
                C.run_rsa_schedule(key, [[9]], (), seed)          # leave a created pair behind
            for pp, r in C.explore(lambda pp: C.run_rsa_schedule(key, msgs, pp, seed, fresh=fresh), len(msgs), depth,
                                   (120 if quick else 800) * (3 if deep else 1), rng, 6 if quick else 30):
                nruns += 1
                ctx.count('conc-rsa-smallkey', 1, [(mi, fresh, tuple(r['sched'].switches))])
                f = C.check_rsa_run(key, msgs, r)
                if f:
                    found = True
                    if ctx.violation('rsa:conc:%s' % f[0], 'Python_RSAKey._rawPrivateKeyOp under real threads: %s' % f[1],
                                     {'kind': 'rsa-conc', 'key': 'small', 'msgs': jsonable(msgs), 'preempts': list(pp),
                                      'seed': seed, 'fresh': fresh}):
                        break
    rk = C.real_key()
    if not C.key_hypotheses(rk, rng, samples=2):
        raise RuntimeError('tests/serverX509Key.pem fails H-rsa-key')
    msgs = [[rng.randrange(int(rk.n))], [rng.randrange(int(rk.n))]]
    for pp, r in C.explore(lambda pp: C.run_rsa_schedule(rk, msgs, pp, seed), 2, 1, 12 if quick else 80, rng, 0):
        nruns += 1
        ctx.count('conc-rsa-serverX509Key', 1, [tuple(r['sched'].switches)])
        f = C.check_rsa_run(rk, msgs, r)
        if f:
            found = True
            ctx.violation('rsa:conc:%s' % f[0], 'Python_RSAKey._rawPrivateKeyOp (serverX509Key.pem) under real threads: %s' % f[1],
                          {'kind': 'rsa-conc', 'key': 'serverX509Key.pem', 'msgs': jsonable(msgs), 'preempts': list(pp),
                           'seed': seed, 'fresh': True})
            break
    ctx.log('concurrent RSA: %d schedules, %.1fs' % (nruns, time.time() - t0))
    # ---- the whole public API of the shared key (every method that can touch instance state)
    t0 = time.time()
    nruns = 0
    akey = C.api_key()
    if not C.key_hypotheses(akey, rng, samples=2):
        raise RuntimeError('API test key fails H-rsa-key')
    import hashlib
    def dg(alg, i):
        return hashlib.new(alg, b'message %d' % i).digest()
    api_scns = [
        [[('sign', dg('sha256', 1), 'sha256')], [('sign', dg('sha256', 2), 'sha256')]],
        [[('sign', dg('sha1', 1), 'sha1'), ('sign', dg('sha1', 3), None)], [('sign', dg('sha1', 2), 'sha1')]],
        [[('hashAndSign', b'alpha', 'PKCS1', 'sha384')], [('hashAndSign', b'beta', 'PKCS1', 'sha384')],
         [C.api_prepare(akey, ('hashAndVerify', b'gamma', 'sha256', True), rng)]],
        [[C.api_prepare(akey, ('decrypt', b'secret one'), rng)], [C.api_prepare(akey, ('decrypt', b'secret two'), rng)]],
        [[('encrypt', b'plain A')], [('encrypt', b'plain B')], [C.api_prepare(akey, ('decrypt', b'plain C'), rng)]],
        [[('hashAndSign', b'alpha', 'PSS', 'sha256', 32)], [('hashAndSign', b'beta', 'PSS', 'sha256', 32)]],
        [[C.api_prepare(akey, ('hashAndVerify', b'x', 'sha1', True), rng), ('sign', dg('sha512', 1), 'sha512')],
         [C.api_prepare(akey, ('hashAndVerify', b'x', 'sha1', False), rng), ('sign', dg('sha512', 2), 'sha512')]],
    ]
    aseed = rng.randrange(1 << 30)
    for ai, threads in enumerate(api_scns if not quick else api_scns[:6]):
        for pp, r in C.explore(lambda pp: C.run_api_schedule(akey, threads, pp, aseed), len(threads), depth,
                               (70 if quick else 500) * (3 if deep else 1), rng, 3 if quick else 20):
            nruns += 1
            ctx.count('conc-rsa-api', 1, [(ai, tuple(r['sched'].switches))])
            f = C.check_api_run(akey, threads, r)
            if f:
                found = True
                if ctx.violation('rsa:api:%s' % f[0], 'shared Python_RSAKey, public API under real threads: %s' % f[1],
                                 {'kind': 'api-conc', 'threads': [[[x.hex() if isinstance(x, (bytes, bytearray)) else x
                                                                    for x in op] for op in th] for th in threads],
                                  'preempts': list(pp), 'seed': aseed}):
                    break
    ctx.log('concurrent RSA public API: %d schedules, %.1fs' % (nruns, time.time() - t0))
    # ---- VerifierDB
    t0 = time.time()
    nruns = 0
    entries = C.make_entries(3)
    for di, (pre, threads) in enumerate(db_scenarios(rng, 9 if quick else 16)):
        for pp, r in C.explore(lambda pp: C.run_db_schedule(entries, pre, threads, pp), len(threads), depth,
                               (150 if quick else 600) * (3 if deep else 1), rng, 6 if quick else 30):
            nruns += 1
            ctx.count('conc-verifierdb', 1, [(di, tuple(r['sched'].switches))])
            f = C.check_db_run(pre, threads, r)
            if f:
                found = True
                if ctx.violation('verifierdb:conc:%s' % f[0], 'VerifierDB under real threads: %s' % f[1],
                                 {'kind': 'db-conc', 'pre': jsonable(pre), 'threads': jsonable(threads), 'preempts': list(pp)}):
                    break
    # ---- VerifierDB on disk (dbm file in a temporary directory, pre-emption points inside the backend)
    t1 = time.time()
    ndisk = 0
    keys_ok, keys_err = C.ondisk_keys_work()
    if not keys_ok:
        found_k = ctx.violation('verifierdb:ondisk:keys:TypeError',
                                'BaseDB.keys() on an on-disk database raises %s (single thread; dbm returns bytes keys on '
                                'Python 3, the filter calls u.startswith(str))' % keys_err,
                                {'kind': 'db-ondisk-keys', 'how': 'VerifierDB(file).create(); db[u]=entry; db.keys()'})
        found = found or found_k
    disk_scns = [
        ([('set', 'a', 0)], [[('set', 'b', 1), ('get', 'a')], [('set', 'c', 2), ('del', 'a'), ('in', 'b')]]),
        ([('set', 'a', 0), ('set', 'b', 1)], [[('del', 'a')], [('set', 'c', 2)], [('get', 'b'), ('set', 'b', 0)]]),
        ([], [[('set', 'a', 0), ('set', 'a', 1)], [('set', 'b', 2), ('del', 'b')]]),
        ([('set', 'a', 0)], [[('get', 'a'), ('in', 'a')], [('set', 'a', 1)], [('del', 'a'), ('set', 'a', 2)]]),
    ]
    if keys_ok:
        disk_scns.insert(1, ([('set', 'a', 0)], [[('keys',), ('set', 'b', 1)], [('del', 'a'), ('keys',)]]))
    for di, (pre, threads) in enumerate(disk_scns[:2] if quick else disk_scns):
        for pp, r in C.explore(lambda pp: C.run_db_schedule(entries, pre, threads, pp, ondisk=True), len(threads), depth,
                               (110 if quick else 500) * (3 if deep else 1), rng, 4 if quick else 20):
            ndisk += 1
            ctx.count('conc-verifierdb-ondisk', 1, [(di, tuple(r['sched'].switches))])
            f = C.check_db_run(pre, threads, r)
            if f:
                found = True
                if ctx.violation('verifierdb:ondisk:%s' % f[0], 'on-disk VerifierDB under real threads: %s' % f[1],
                                 {'kind': 'db-conc', 'ondisk': True, 'pre': jsonable(pre), 'threads': jsonable(threads),
                                  'preempts': list(pp)}):
                    break
    ctx.log('VerifierDB on disk: %d schedules, %.1fs' % (ndisk, time.time() - t1))
    # sequential VerifierDB against a dictionary
    for _ in range(40 if quick else 400):
        ops = []
        for _ in range(rng.randrange(1, 12)):
            kind = rng.choice(['set', 'set', 'get', 'del', 'in', 'keys'])
            ops.append(('keys',) if kind == 'keys' else ('set', rng.choice('abc'), rng.randrange(3)) if kind == 'set'
                       else (kind, rng.choice('abc')))
        disk = _ % 4 == 0
        if disk and not keys_ok:
            ops = [o for o in ops if o[0] != 'keys'] or [('in', 'a')]
        r = C.run_db_schedule(entries, [], [ops], (), ondisk=disk)
        ctx.count('seq-verifierdb', 1, [(disk,) + tuple(o[0] for o in ops)])
        f = C.check_db_run([], [ops], r)
        if f:
            found = True
            ctx.violation('verifierdb:seq:%s' % f[0], 'VerifierDB (single thread) is not a dictionary: %s' % f[1],
                          {'kind': 'db-conc', 'pre': [], 'threads': jsonable([ops]), 'preempts': []})
    ctx.log('VerifierDB: %d schedules, %.1fs' % (nruns, time.time() - t0))
    return found


def run(ctx):
    quick = ctx.tier == 'quick'
    ok, msg = units.generate('Locks', vlib.COQ)
    ctx.log('lock extractor: %s' % msg)
    tie_broken = None if ok else msg
    res = vlib.proof_stage(ctx, 'Props/C18.v', model_targets=MODEL_TARGETS)
    ctx.log('proof stage ok=%s failing=%s' % (res['ok'], res['failing']))
    ctx.cov['trusted_base'] = [
        'Coq 8.16.1 kernel + vm_compute',
        'translator/units_locks.py: which ast nodes are shared accesses / lock operations (conservative, fail-closed)',
        'Model/C18_Cache.v hand-written from sessioncache.py; tied by state+outcome comparison after every call',
        'Model/C18_Conc.v: one extracted step is atomic; threads interact only through the attributes of the shared object',
        'Spec/C18_CacheSpec.v and c18_cases.spec_outcomes as the reading of the property text (capacity maxEntries-1)',
        'harness/c18_sched.py CoopLock has threading.Lock semantics',
        'the clock is read at the linearization point: time.time() is an extracted step (XClock) that must lie inside '
        'the critical section; the fake clock of the thread runs advances at every pre-emption point and context switch',
    ]
    ctx.assumptions += ['clock monotone, integer-valued in the model (time.time() floats compared exactly in the code)',
                        'H-rsa-key: helper x = x^d mod n and x^(ed) = x mod n (checked on the test keys); the random unblinder '
                        'is invertible mod n (fails with probability about 2/sqrt(n))',
                        'BaseDB.create()/open() are not called concurrently with other methods (they rebind self.db unlocked)',
                        'session.valid() is an atomic query of the session owner']
    found = False
    # ---- sequential correspondence + direct oracle
    f_seq, tie_seq = sequential_stage(ctx, res, 300 if quick else 5000, 26 if quick else 60)
    found = found or f_seq
    tie_broken = tie_broken or tie_seq
    # ---- real threads under systematic schedules (also the failing-input search when a proof broke)
    f_conc = explore_all(ctx, quick, deep=not res['ok'] or tie_broken is not None)
    found = found or f_conc
    ctx.cov['rule'] = ('sequential: histories of get/put/purge/set-valid with a monotone clock (capacity and age boundaries '
                       'hit exactly, 30%% with repeated IDs); distinct = (mode, maxEntries, maxAge, length bucket, eviction seen, '
                       'hits, misses).  concurrent: every schedule with <= %d pre-emption(s) at every traced source line of the '
                       'class (thorough: also every bytecode of one scenario) x every target thread, plus random schedules; '
                       'distinct = sequence of context switches per scenario' % (1 if quick else 2))
    if tie_broken and not found:
        ctx.violation('tie-broken', tie_broken, {'correspondence': 'Gen/Locks.v, Model/C18_Cache.v vs /repo', 'detail': tie_broken},
                      found_input=False)
        found = True
    vlib.broken_proof_verdict(ctx, res, found)


def replay(ctx, path):
    with open(path) as f:
        r = json.load(f)
    kind = r.get('kind')
    if kind == 'seq':
        hist = [(t, tuple(op)) for t, op in r['history']]
        obs = C.run_history_impl(r['n'], r['maxAge'], hist)
        f = C.check_history(r['n'], r['maxAge'], hist, obs)
        for (t, op), o, w in zip(hist, obs, C.spec_outcomes(r['n'], r['maxAge'], hist)):
            print('t=%s %-24r -> %-22r expected %-22r dict=%r first=%d last=%d' % (t, op, o[4], w, o[0], o[2], o[3]))
        print('property failure:', f)
        return 1 if f else 0
    if kind == 'cache-conc':
        scn = r['scn']
        scn['pre'] = [tuple(x) for x in scn['pre']]
        scn['threads'] = [[tuple(x) for x in th] for th in scn['threads']]
        run_ = C.run_cache_schedule(scn, [tuple(p) for p in r['preempts']], opcode=r.get('opcode', False))
        f = C.check_cache_run(scn, run_)
        print('results:', run_['results'], 'state:', run_['state'], 'switches:', run_['sched'].switches)
        print('property failure:', f)
        return 1 if f else 0
    if kind == 'rsa-conc':
        key = C.small_key() if r['key'] == 'small' else C.real_key()
        if not r.get('fresh', True):
            C.run_rsa_schedule(key, [[9]], (), r['seed'])
        run_ = C.run_rsa_schedule(key, r['msgs'], [tuple(p) for p in r['preempts']], r['seed'], fresh=r.get('fresh', True))
        f = C.check_rsa_run(key, r['msgs'], run_)
        print('results:', run_['results'], 'switches:', run_['sched'].switches)
        print('property failure:', f)
        return 1 if f else 0
    if kind == 'api-conc':
        key = C.api_key()
        BYTES_AT = {'sign': (1,), 'hashAndSign': (1,), 'decrypt': (1, 2), 'encrypt': (1,), 'hashAndVerify': (1, 4)}
        threads = [[tuple(bytes.fromhex(x) if i in BYTES_AT[op[0]] else x for i, x in enumerate(op)) for op in th]
                   for th in r['threads']]
        run_ = C.run_api_schedule(key, threads, [tuple(p) for p in r['preempts']], r['seed'])
        f = C.check_api_run(key, threads, run_)
        print('switches:', run_['sched'].switches)
        print('property failure:', f)
        return 1 if f else 0
    if kind == 'db-ondisk-keys':
        ok, err = C.ondisk_keys_work()
        print('keys() on an on-disk database:', 'works' if ok else err)
        return 0 if ok else 1
    if kind == 'db-conc':
        entries = C.make_entries(3)
        pre = [tuple(x) for x in r['pre']]
        threads = [[tuple(x) for x in th] for th in r['threads']]
        run_ = C.run_db_schedule(entries, pre, threads, [tuple(p) for p in r['preempts']], ondisk=r.get('ondisk', False))
        f = C.check_db_run(pre, threads, run_)
        print('results:', run_['results'], 'final:', run_['final'], 'reopened:', run_.get('reopened'))
        print('property failure:', f)
        return 1 if f else 0
    print('nothing to replay: %s' % r.get('what'))
    return 1
